"""C16 — workspace directories separate variants; `bob clean` removes only garbage.

Correspondence (model in coq/C16/Model.v evaluated with vm_compute vs. the
implementation imported from core.REPO/pym as it is now):

  dev      real DevelopDirOracle (cmds/build/state.py) driven with duck-typed packages/steps over generated
           histories of project states; the sqlite file is kept between the states of one history
  byname   real BobState.getByNameDirectory / getExistingByNameDirectory / getAllNameDirectores in a scratch
           workspace, with save/reload in between
  clean    real doClean (cmds/build/clean.py) in-process on fabricated workspaces: only RecipeSet is replaced by
           a duck-typed package source; DevelopDirOracle, BobState, the name formatters, collectPaths,
           checkRegularSource, removePath are the real ones
  prepare  real LocalBuilder._preparePackageStep on fabricated workspaces
  e2e      real `bob dev` / `bob build` / `bob clean ...` subprocess runs on generated recipe projects with edit
           histories; build scripts record what they find in their directory (prune oracle), directory
           listings before/after clean are compared with the delete set of the model

The property statement itself is evaluated on the implementation by oracles that do not use the model
(injectivity / stability of directories, deleted only unused, dry-run no-op, sources only with -s, a directory
handed to another variant starts empty).
"""
import contextlib, gc, io, json, os, pickle, shutil, sqlite3, subprocess, sys, hashlib, glob
from concurrent.futures import ThreadPoolExecutor
from vlib import coq, core, coqlit as L

PROPERTY_FILES = ["C16/Properties.v"]
PY = "/venv/bin/python"

KINDS = ("src", "build", "dist")          # index 0,1,2 = checkout, build, package step
KIND_COQ = {"src": "KSrc", "build": "KBuild", "dist": "KDist"}


# ------------------------------------------------------------------ helpers
@contextlib.contextmanager
def in_dir(path):
    old = os.getcwd()
    os.chdir(path)
    try:
        yield
    finally:
        os.chdir(old)


def vid_of(tag):
    """a 20 byte variant id derived from a short tag (so that equal tags = equal ids)"""
    return hashlib.sha1(("vid:" + tag).encode()).digest()


def cstr(s):
    return L.s(s) if isinstance(s, str) else L.by(s)


ALL_TAGS = ["root"] + ["%s%d" % (c, i) for c in "sbpt" for i in range(5)]
VID_NAMES = {}          # 20 byte id -> name of the Coq definition in PRE_VIDS


def _pre_vids():
    out = []
    for t in ALL_TAGS:
        VID_NAMES[vid_of(t)] = "v_" + t
        out.append("Definition v_%s : str := %s." % (t, L.by(vid_of(t))))
    return "\n".join(out) + "\n"


def cvid(b):
    """Coq term for a variant id (named when it is one of the generator's ids: keeps the case files small)"""
    return VID_NAMES.get(b) or L.by(b)


def ckey(k):
    """Coq term for a dirs-table key (recipe name bytes + 20 byte variant id)"""
    if len(k) >= 20 and k[-20:] in VID_NAMES:
        return "(%s ++ %s)" % (L.by(k[:-20]), VID_NAMES[k[-20:]])
    return L.by(k)


def copt(x):
    return "None" if x is None else "(Some %s)" % cvid(x)


# ------------------------------------------------------------------ duck-typed project
class DRecipe:
    def __init__(self, name, pname):
        self._n, self._p = name, pname

    def getName(self):
        return self._n

    def getPackageName(self):
        return self._p


class DStep:
    JENKINS = False

    def __init__(self, pkg, kind, vid, fmtbox):
        self._pkg, self._kind, self._vid, self._fmtbox = pkg, kind, vid, fmtbox

    def getPackage(self):
        return self._pkg

    def getVariantId(self):
        return self._vid

    def isValid(self):
        return self._vid is not None

    def isCheckoutStep(self):
        return self._kind == "src"

    def isBuildStep(self):
        return self._kind == "build"

    def isPackageStep(self):
        return self._kind == "dist"

    def getLabel(self):
        return self._kind

    def getWorkspacePath(self):
        # bob.input.Step.getWorkspacePath: formatter only for valid steps
        if self._vid is not None:
            return self._fmtbox[0](self, {})
        return "/invalid/workspace/path/of/" + self._pkg.getName()


class DPackage:
    def __init__(self, proj, nid, fmtbox):
        self._proj, self._id, self._fmtbox = proj, nid, fmtbox
        n = proj["nodes"][str(nid)]
        self._rec = DRecipe(n["recipe"], n["pname"])

    def _node(self):
        return self._proj["nodes"][str(self._id)]

    def _getId(self):
        return self._id

    def getName(self):
        return self._node()["pname"]

    def getRecipe(self):
        return self._rec

    def getStack(self):
        return [self.getName()]

    def _step(self, i):
        v = self._node()["vids"][i]
        return DStep(self, KINDS[i], None if v is None else vid_of(v), self._fmtbox)

    def getCheckoutStep(self):
        return self._step(0)

    def getBuildStep(self):
        return self._step(1)

    def getPackageStep(self):
        return self._step(2)

    def getDirectDepSteps(self):
        # fresh Package objects on every call, like refDeref does
        return [DPackage(self._proj, d, self._fmtbox).getPackageStep() for d in self._node()["deps"]]


class DPackageSet:
    def __init__(self, proj, fmtbox):
        self._proj, self._fmtbox = proj, fmtbox

    def getCacheKey(self):
        return self._proj["ck"].encode()

    def getRootPackage(self):
        return DPackage(self._proj, self._proj["root"], self._fmtbox)


def reachable(proj):
    seen, order, todo = set(), [], [proj["root"]]
    while todo:
        i = todo.pop()
        if i in seen:
            continue
        seen.add(i)
        order.append(i)
        todo.extend(proj["nodes"][str(i)]["deps"])
    return order


def coq_pkg_tree(proj):
    """the package tree as a Coq term; shared sub-trees are let-bound"""
    nodes = proj["nodes"]
    order = []
    seen = set()

    def topo(i):
        if i in seen:
            return
        seen.add(i)
        for d in nodes[str(i)]["deps"]:
            topo(d)
        order.append(i)
    topo(proj["root"])
    out = []
    for i in order:
        n = nodes[str(i)]
        vs = [None if v is None else vid_of(v) for v in n["vids"]]
        out.append("let n%d := Pkg %d %s %s %s %s %s %s in" % (
            i, i, cstr(n["recipe"]), cstr(n["pname"]), copt(vs[0]), copt(vs[1]), copt(vs[2]),
            L.lst(["n%d" % d for d in n["deps"]]) if n["deps"] else "(@nil pkg)"))
    return "(" + " ".join(out) + " n%d)" % proj["root"]


# ------------------------------------------------------------------ project / history generator
RECIPES = ["a", "a-b", "lib", "lib::x", "foo", "foo-bar", "1", "a::1", "zé"]
SUFFIXES = ["", "", "b", "x", "bar", "1"]
TAGS = ["t0", "t1", "t2", "t3", "t4"]


def gen_tag(rng, kx):
    """variant id tag of a step; ids of different step kinds coincide only rarely (bob hashes script, tools,
    environment and arguments, so a checkout-less build step can have the id of a sibling's checkout step)"""
    if rng.random() < 0.03:
        return rng.choice(TAGS)
    return "sbp"[kx] + str(rng.randrange(5))


def gen_node(rng, recipe=None):
    recipe = rng.choice(RECIPES) if recipe is None else recipe
    suf = rng.choice(SUFFIXES)
    pname = recipe + ("-" + suf if suf else "")
    vids = [gen_tag(rng, 0) if rng.random() < 0.75 else None,
            gen_tag(rng, 1) if rng.random() < 0.85 else None,
            gen_tag(rng, 2) if rng.random() < 0.97 else None]
    return {"recipe": recipe, "pname": pname, "vids": vids, "deps": []}


def wire(rng, nodes):
    """give every node > 0 a parent with a smaller index (all reachable from the virtual root 0), plus extra edges"""
    ids = sorted(int(k) for k in nodes)
    for n in nodes.values():
        n["deps"] = []
    for pos, i in enumerate(ids[1:], 1):
        par = rng.choice(ids[:pos]) if rng.random() < 0.5 else ids[0]
        nodes[str(par)]["deps"].append(i)
    for pos, i in enumerate(ids[:-1]):
        for j in ids[pos + 1:]:
            if rng.random() < 0.12 and len(nodes[str(i)]["deps"]) < 4:
                nodes[str(i)]["deps"].append(j)          # may repeat an edge: a package named twice
    for n in nodes.values():
        rng.shuffle(n["deps"])


def gen_state(rng, prev, graveyard, serial):
    """next project state: variants appear, disappear, re-appear, change, multiPackages get renamed, order changes"""
    if prev is None:
        nodes = {"0": {"recipe": "", "pname": "", "vids": [None, "root", "root"], "deps": []}}
        for i in range(1, rng.randint(2, 6)):
            nodes[str(i)] = gen_node(rng)
    else:
        nodes = {k: dict(v, deps=list(v["deps"]), vids=list(v["vids"])) for k, v in prev["nodes"].items()}
        nxt = max(int(k) for k in nodes) + 1
        for _ in range(rng.choice([1, 1, 2, 3])):
            ks = [k for k in nodes if k != "0"]
            r = rng.random()
            if r < 0.2 and ks:                     # a variant disappears
                k = rng.choice(ks)
                graveyard.append(nodes.pop(k))
            elif r < 0.35 and graveyard:           # ... and comes back later
                nodes[str(nxt)] = dict(rng.choice(graveyard)); nxt += 1
            elif r < 0.5 and ks:                   # another variant of an existing recipe
                src = nodes[rng.choice(ks)]
                n = gen_node(rng, src["recipe"])
                if rng.random() < 0.5:
                    n["pname"] = src["pname"]
                nodes[str(nxt)] = n; nxt += 1
            elif r < 0.6 and ks:                   # identical package from a different recipe / multiPackage twin
                src = nodes[rng.choice(ks)]
                n = dict(src, vids=list(src["vids"]))
                if rng.random() < 0.5:
                    n["recipe"] = rng.choice(RECIPES); n["pname"] = n["recipe"]
                else:
                    n["pname"] = src["recipe"] + "-" + rng.choice(["b", "x", "bar", "q"])
                nodes[str(nxt)] = n; nxt += 1
            elif r < 0.8 and ks:                   # the recipe of a variant is edited
                n = nodes[rng.choice(ks)]
                i = rng.randrange(3)
                n["vids"][i] = (gen_tag(rng, i) if rng.random() < 0.85 else None) if i < 2 else gen_tag(rng, i)
            elif r < 0.9 and ks:                   # multiPackage renamed
                n = nodes[rng.choice(ks)]
                suf = rng.choice(SUFFIXES)
                n["pname"] = n["recipe"] + ("-" + suf if suf else "")
            else:
                nodes[str(nxt)] = gen_node(rng); nxt += 1
        while len(nodes) > 8:
            k = rng.choice([k for k in nodes if k != "0"])
            graveyard.append(nodes.pop(k))
    wire(rng, nodes)
    return {"root": 0, "ck": "ck%d" % serial, "nodes": nodes}


def gen_history(rng, n):
    gy, h, prev = [], [], None
    for i in range(n):
        if prev is not None and rng.random() < 0.08:
            h.append(prev)                           # same recipes again: cache key unchanged, no refresh
            continue
        prev = gen_state(rng, prev, gy, i)
        h.append(prev)
    return h


# ------------------------------------------------------------------ part dev: DevelopDirOracle
def read_devdb(path=".bob-dev-dirs.sqlite3"):
    if not os.path.exists(path):
        return None, []
    c = sqlite3.connect(path)
    try:
        vsn = c.execute("SELECT value FROM meta WHERE key='vsn'").fetchone()
        rows = [(bytes(k) if not isinstance(k, str) else k.encode(), d) for k, d in c.execute("SELECT key, dir FROM dirs")]
    finally:
        c.close()
    return (None if vsn is None else vsn[0]), sorted(rows)


def impl_prime(proj):
    """run the real oracle on one project state in the current directory; returns (status, rows, step paths)"""
    from bob.cmds.build.state import DevelopDirOracle
    from bob.builder import LocalBuilder
    from bob.errors import BobError
    fmtbox = [None]
    oracle = DevelopDirOracle(LocalBuilder.developNameFormatter, None)
    fmtbox[0] = LocalBuilder.makeRunnable(oracle.getFormatter())
    ps = DPackageSet(proj, fmtbox)
    status = "ok"
    paths = {}
    try:
        oracle.prime(ps)
        for i in reachable(proj):
            p = DPackage(proj, i, fmtbox)
            for k, st in zip(KINDS, (p.getCheckoutStep(), p.getBuildStep(), p.getPackageStep())):
                if st.isValid():
                    paths["%d:%s" % (i, k)] = st.getWorkspacePath()
    except BobError as e:
        status = "boberror"
    except AssertionError:
        status = "assert"
    except Exception as e:
        status = "internal:" + type(e).__name__
    # drop every reference to the oracle so that its sqlite connection (open read transaction) is closed
    fmtbox[0] = None
    del oracle, ps
    gc.collect()
    vsn, rows = read_devdb()
    return status, vsn, rows, paths


def coq_db(rows):
    return L.lst([L.pair(ckey(k), L.s(d)) for k, d in rows]) if rows else "(@nil (str * str))"


def coq_ostate(vsn, rows):
    return "(%s, %s)" % ("(@None str)" if vsn is None else "(Some %s)" % L.by(vsn), coq_db(rows))


PRE_DEV = _pre_vids() + """
Definition db_sub (a b : db) : bool :=
  forallb (fun e => match lookup b (fst e) with Some p => str_eqb p (snd e) | None => false end) a.
Definition db_same (a b : db) : bool := Nat.eqb (length a) (length b) && db_sub a b && db_sub b a.
Definition ost_same (a b : option ostate) : bool :=
  match a, b with
  | Some (v1, d1), Some (v2, d2) => eqb_option str_eqb v1 v2 && db_same d1 d2
  | None, None => true
  | _, _ => false
  end.
Fixpoint hist_states (s : ostate) (h : list (str * pkg)) : list (option ostate) :=
  match h with
  | [] => []
  | (ck, t) :: r => match prime s ck t with
                    | Some s' => Some s' :: hist_states s' r
                    | None => [None]
                    end
  end.
Definition hist_ok (h : list (str * pkg)) (want : list (option ostate)) : bool :=
  eqb_list ost_same (hist_states ostate0 h) want.
"""


def key_of(node, kind_ix):
    return node["recipe"].encode() + vid_of(node["vids"][kind_ix])


def dev_oracle_checks(ctx, hist, snaps):
    """the property statement on the implementation, without the model"""
    prev_dirs = None
    prev_bases = None
    for si, (proj, (status, vsn, rows, paths)) in enumerate(zip(hist, snaps)):
        if status != "ok":
            ctx.violation("dev-oracle-raises:" + status, "DevelopDirOracle.prime raised (%s)" % status,
                          {"part": "dev", "history": hist[:si + 1]})
            return
        # same directory => same recipe and same variant id   (rows: key = recipe + vid)
        by_dir = {}
        for k, d in rows:
            if d in by_dir and by_dir[d] != k:
                ctx.violation("dev-dir-shared-by-different-keys",
                              "directory %s is assigned to two different recipe/variant keys" % d,
                              {"part": "dev", "history": hist[:si + 1]})
                return
            by_dir[d] = k
        by_path = {}
        bases = {}
        for i in reachable(proj):
            n = proj["nodes"][str(i)]
            for kx, kind in enumerate(KINDS):
                if n["vids"][kx] is None:
                    continue
                p = paths.get("%d:%s" % (i, kind))
                ident = (n["recipe"], n["vids"][kx])
                if p in by_path and by_path[p] != ident:
                    ctx.violation("dev-workspace-shared-by-different-variants",
                                  "workspace %s used by %r and %r" % (p, by_path[p], ident),
                                  {"part": "dev", "history": hist[:si + 1]})
                    return
                by_path[p] = ident
                base = os.path.join("dev", kind, (n["recipe"] if kind == "src" else n["pname"]).replace("::", "/"))
                bases.setdefault(key_of(n, kx), set()).add(base)
        allb = {b for bs in bases.values() for b in bs}
        sep_ok = not any((b + "/") in allb for b in allb if not b.endswith("/"))
        ctx.count("dev:hypothesis-sep-" + ("holds" if sep_ok else "violated"))
        dirs = dict(rows)
        # a variant that still exists (same recipe, same variant id, presented under one and the same base
        # directory in both states) keeps its directory
        if prev_dirs is not None:
            for k, bs in bases.items():
                if k in prev_dirs and k in dirs and len(bs) == 1 and prev_bases.get(k) == bs and dirs[k] != prev_dirs[k]:
                    ctx.violation("dev-dir-changed-for-existing-variant",
                                  "key %r moved from %s to %s" % (k, prev_dirs[k], dirs[k]),
                                  {"part": "dev", "history": hist[:si + 1]})
                    return
        prev_dirs, prev_bases = dirs, bases


def run_dev_history(hist):
    d = core.scratch_dir("c16dev")
    try:
        with in_dir(d):
            return [impl_prime(p) for p in hist]
    finally:
        shutil.rmtree(d, ignore_errors=True)


def part_dev(ctx, extra):
    rng = ctx.rng
    n_hist = ctx.n(180, 2000)
    cases, meta = [], []
    hists = [c["history"] for c in extra if c.get("part") == "dev"]
    for _ in range(n_hist):
        hists.append(gen_history(rng, rng.randint(3, 12 if ctx.tier == "thorough" else 8)))
    reported = set()
    for hist in hists:
        snaps = run_dev_history(hist)
        ctx.evaluated(len(hist))
        v = dev_first_violation(hist, snaps, ctx)
        if v is not None:
            ctx.count("dev:violation:" + v[0])
            if v[0] not in reported:             # shrink and report one witness per class
                reported.add(v[0])
                small = shrink_dev_violation(hist, v[0])
                ctx.violation(v[0], v[1], {"part": "dev", "history": small})
        want = []
        keys_seen = set()
        for proj, (status, vsn, rows, paths) in zip(hist, snaps):
            ctx.count("dev:" + status)
            ctx.count("dev:rows", len(rows))
            if status == "ok":
                want.append("(Some %s)" % coq_ostate(vsn, rows))
                kept = sum(1 for k, d in rows if (k, d) in keys_seen)
                ctx.count("dev:kept-entries", kept)
                ctx.count("dev:renumbered", sum(1 for k, d in rows if any(k == k2 and d != d2 for k2, d2 in keys_seen)))
                keys_seen = set(rows)
                ctx.nontrivial(("dev", tuple(rows)))
            else:
                want.append("(@None ostate)")
                break
        h_in = L.lst([L.pair(L.by(p["ck"].encode()), coq_pkg_tree(p)) for p in hist[:len(want)]])
        cases.append((h_in, L.lst(want)))
        meta.append(hist)
        if len(ctx.cov["samples"]) < 3:
            ctx.sample({"part": "dev", "states": len(hist), "last_rows": [(k[:-20].decode("utf8", "replace"), d) for k, d in snaps[-1][2]][:6]})
    bad, log = coq.run_cases(ctx, ["BobV.C16.Model"], "(fun h => h)", "hist_ok", cases, preamble=PRE_DEV, tag="dev", shard=25)
    if bad is None:
        ctx.tie_broken("C16 dev model evaluation failed", log)
        return
    ctx.validated(sum(len(meta[i]) for i in range(len(cases)) if i not in set(bad)))
    for n, i in enumerate(bad[:3]):
        h = meta[i]
        if n == 0 and not ctx.violations:
            h = shrink_history(h)
        ctx.tie_broken("dev-oracle-correspondence", {"part": "dev", "history": h})


def dev_model_agrees(hist):
    """single history: does the model predict the implementation? (used for shrinking)"""
    snaps = run_dev_history(hist)
    want = []
    for status, vsn, rows, paths in snaps:
        if status == "ok":
            want.append("(Some %s)" % coq_ostate(vsn, rows))
        else:
            want.append("(@None ostate)")
            break
    h_in = L.lst([L.pair(L.by(p["ck"].encode()), coq_pkg_tree(p)) for p in hist[:len(want)]])

    class _C:
        prop = "C16"
    bad, log = coq.run_cases(_C, ["BobV.C16.Model"], "(fun h => h)", "hist_ok", [(h_in, L.lst(want))], preamble=PRE_DEV, tag="devshrink")
    return bad == []


class _Collect:
    """stand-in for ctx that only records violations"""
    def __init__(self):
        self.violations = []

    def violation(self, sig, what, replay):
        self.violations.append((sig, what))

    def count(self, *a, **k):
        pass


def dev_first_violation(hist, snaps=None, ctx=None):
    col = _Collect()
    if ctx is not None:
        col.count = ctx.count
    dev_oracle_checks(col, hist, snaps if snaps is not None else run_dev_history(hist))
    return col.violations[0] if col.violations else None


def prune_project(proj, drop):
    nodes = {k: dict(v, deps=[d for d in v["deps"] if d != drop]) for k, v in proj["nodes"].items() if int(k) != drop}
    return dict(proj, nodes=nodes)


def shrink_dev_violation(hist, sig, budget=200):
    """drop project states and packages while the implementation still shows the same violation class"""
    left = [budget]

    def fails(h):
        if left[0] <= 0 or not h:
            return False
        left[0] -= 1
        v = dev_first_violation(h)
        return v is not None and v[0] == sig
    changed = True
    while changed and left[0] > 0:
        changed = False
        for i in range(len(hist)):
            cand = hist[:i] + hist[i + 1:]
            if fails(cand):
                hist, changed = cand, True
                break
        if changed:
            continue
        ids = sorted({int(k) for p in hist for k in p["nodes"] if k != "0"})
        for nid in ids:
            cand = [prune_project(p, nid) for p in hist]
            if fails(cand):
                hist, changed = cand, True
                break
    return hist


def shrink_history(hist, budget=8):
    """drop states while the model/implementation disagreement persists (each probe is a coqc run: small budget)"""
    left = [budget]

    def fails(h):
        if left[0] <= 0:
            return False
        left[0] -= 1
        try:
            return not dev_model_agrees(h)
        except Exception:
            return False
    changed = True
    while changed and left[0] > 0:
        changed = False
        for i in range(len(hist)):
            cand = hist[:i] + hist[i + 1:]
            if cand and fails(cand):
                hist, changed = cand, True
                break
    return hist


# ------------------------------------------------------------------ part byname: BobState.getByNameDirectory
def fresh_state():
    import bob.state
    bob.state.finalize()


def byname_impl(ops):
    """run an op sequence on the real BobState in a scratch workspace"""
    import bob.state
    d = core.scratch_dir("c16bn")
    res = []
    try:
        with in_dir(d):
            fresh_state()
            try:
                for op in ops:
                    try:
                        if op[0] == "get":
                            res.append(("dir", bob.state.BobState().getByNameDirectory(op[1], op[2], op[3])))
                        elif op[0] == "existing":
                            x = bob.state.BobState().getExistingByNameDirectory(op[1])
                            res.append(("none",) if x is None else ("dir", x))
                        elif op[0] == "all":
                            res.append(("all", [(a, bool(b)) for a, b in bob.state.BobState().getAllNameDirectores()]))
                        else:
                            bob.state.finalize()
                            res.append(("reload",))
                    except (TypeError, KeyError, IndexError, AttributeError) as e:
                        res.append(("internal",))
            finally:
                fresh_state()
    finally:
        shutil.rmtree(d, ignore_errors=True)
    return res


def byname_violation(ops, res):
    """the release-mode half of the property on one observed op sequence (name spaces assumed disjoint)"""
    gets = [(op, r) for op, r in zip(ops, res) if op[0] == "get"]
    seen, owner = {}, {}
    for op, r in gets:
        if r[0] != "dir":
            return ("byname-internal-exception", "getByNameDirectory raised on %r" % (op,))
        if op[2] in seen and seen[op[2]] != r[1]:
            return ("release-dir-changed-for-existing-variant", "digest %s moved %s -> %s" % (op[2], seen[op[2]], r[1]))
        seen[op[2]] = r[1]
        if r[1] in owner and owner[r[1]] != op[2] and not any(o[1].endswith("/") for o, _ in gets):
            return ("release-dir-shared-by-different-variants", "directory %s given to two digests" % r[1])
        owner[r[1]] = op[2]
    return None


def part_byname(ctx, extra):
    import bob.state
    rng = ctx.rng
    n_seq = ctx.n(200, 2000)
    bases = ["work/a/dist", "work/a/build", "work/a/src", "work/a-b/dist", "work/lib/x/dist", "work/a/dist/", "work/1/dist",
             "work/a/dist/1"]
    cases, meta = [], []
    seqs = [c["ops"] for c in extra if c.get("part") == "byname"]
    for _ in range(n_seq):
        ops = []
        digs = [vid_of("d%d" % i).hex() for i in range(rng.randint(2, 9))]
        clash = rng.random() < 0.06           # base and digest name spaces overlap (outside the precondition)
        for _ in range(rng.randint(2, 14)):
            r = rng.random()
            b = rng.choice(bases[:5]) if rng.random() < 0.8 else rng.choice(bases)
            g = rng.choice(digs)
            if clash and rng.random() < 0.3:
                if rng.random() < 0.5:
                    b = rng.choice(digs)
                else:
                    g = rng.choice(bases)
            if r < 0.7:
                ops.append(["get", b, g, rng.random() < 0.3])
            elif r < 0.85:
                ops.append(["existing", g])
            elif r < 0.93:
                ops.append(["all"])
            else:
                ops.append(["reload"])
        seqs.append(ops)
    reported = set()
    for ops in seqs:
        res = byname_impl(ops)
        ctx.evaluated()
        gets = [(op, r) for op, r in zip(ops, res) if op[0] == "get"]
        wf = all(op[1] not in [o[2] for o in ops if o[0] == "get"] + [o[1] for o in ops if o[0] == "existing"]
                 for op in ops if op[0] == "get") and not any(
                 op[2] in [o[1] for o in ops if o[0] == "get"] for op in ops if op[0] == "get")
        ctx.count("byname:" + ("wf" if wf else "namespace-clash"))
        if len({op[2] for op, r in gets}) > 1:
            ctx.nontrivial(("bn", json.dumps(ops)))
        # property oracle (release mode): distinct variant ids never share a directory, a variant keeps its directory
        if wf:
            v = byname_violation(ops, res)
            if v is not None:
                ctx.count("byname:violation:" + v[0])
                if v[0] not in reported:
                    reported.add(v[0])
                    small = list(ops)
                    changed = True
                    while changed:
                        changed = False
                        for i in range(len(small)):
                            cand = small[:i] + small[i + 1:]
                            w = byname_violation(cand, byname_impl(cand))
                            if w is not None and w[0] == v[0]:
                                small, changed = cand, True
                                break
                    ctx.violation(v[0], v[1], {"part": "byname", "ops": small})
        # model
        ins, outs = [], []
        for op, r in zip(ops, res):
            if op[0] == "get":
                ins.append("(OGet %s %s %s)" % (L.s(op[1]), L.s(op[2]), L.B(op[3])))
            elif op[0] == "existing":
                ins.append("(OExisting %s)" % L.s(op[1]))
            elif op[0] == "all":
                ins.append("OAll")
            else:
                ins.append("OReload")
            if r[0] == "dir":
                outs.append("(XRes (RDir %s))" % L.s(r[1]))
            elif r[0] == "none":
                outs.append("(XRes RNone)")
            elif r[0] == "internal":
                outs.append("(XRes RInternal)")
            elif r[0] == "all":
                outs.append("(XAll %s)" % (L.lst([L.pair(L.s(a), L.B(b)) for a, b in r[1]]) if r[1] else "(@nil (str * bool))"))
            else:
                outs.append("XUnit")
        cases.append((L.lst(ins), L.lst(outs)))
        meta.append(ops)
        for op, r in zip(ops, res):
            ctx.count("byname-op:" + op[0] + ":" + r[0])
    bad, log = coq.run_cases(ctx, ["BobV.C16.Model"], "(bnx_run [])", "(eqb_list bnx_eqb)", cases, preamble=PRE_BN, tag="bn", shard=120)
    if bad is None:
        ctx.tie_broken("C16 by-name model evaluation failed", log)
        return
    ctx.validated(len(cases) - len(bad))
    for i in bad[:5]:
        ctx.tie_broken("byname-correspondence", {"part": "byname", "ops": meta[i]})


PRE_BN = """
Inductive bnxop := OGet (b g : str) (s : bool) | OExisting (g : str) | OAll | OReload.
Inductive bnxres := XRes (r : bnres) | XAll (l : list (str * bool)) | XUnit.
Fixpoint bnx_run (m : bnmap) (ops : list bnxop) : list bnxres :=
  match ops with
  | [] => []
  | OGet b g s :: r => let (m1, x) := bn_get m b g s in XRes x :: bnx_run m1 r
  | OExisting g :: r => XRes (bn_existing m g) :: bnx_run m r
  | OAll :: r => XAll (bn_dirs m) :: bnx_run m r
  | OReload :: r => XUnit :: bnx_run m r
  end.
Definition bnres_eqb (a b : bnres) : bool :=
  match a, b with
  | RDir x, RDir y => str_eqb x y
  | RNone, RNone => true
  | RInternal, RInternal => true
  | _, _ => false
  end.
Definition bnx_eqb (a b : bnxres) : bool :=
  match a, b with
  | XRes x, XRes y => bnres_eqb x y
  | XAll x, XAll y => eqb_list (eqb_prod str_eqb Bool.eqb) x y
  | XUnit, XUnit => true
  | _, _ => false
  end.
"""


# ------------------------------------------------------------------ part clean (in-process doClean on fabricated workspaces)
class FakeRecipeSet:
    """stands in for bob.input.RecipeSet inside cmds/build/clean.py: everything but recipe parsing stays real"""
    current = None      # project description used by the next doClean call

    def __init__(self):
        self._hooks = {}

    def defineHook(self, name, value):
        self._hooks[name] = value

    def getHook(self, name):
        return self._hooks[name]

    def setConfigFiles(self, files):
        pass

    def parse(self, defines=None, *a, **kw):
        pass

    def getShareConfig(self):
        return {}

    def generatePackages(self, nameFormatter, sandboxEnabled=False, stablePaths=None):
        return DPackageSet(FakeRecipeSet.current, [nameFormatter])


def state_obj(spec, vid_tag_to_bytes=vid_of):
    """fabricated BobState directory state: what bob stores for source / build / package workspaces"""
    k = spec[0]
    if k == "src":        # expendable: only the non-directory keys
        return {None: (vid_of(spec[1]), None), 1: None}
    if k == "src-scm":    # an SCM directory without spec: status unknown -> not expendable
        return {None: (vid_of(spec[1]), None), 1: None, ".": (b"\x01" * 20, None)}
    if k == "build":
        return [vid_of(spec[1]), "exec/path"] + list(spec[2:])
    if k == "build-empty":
        return []
    if k == "pkg":
        return vid_of(spec[1])
    raise AssertionError(spec)


def coq_dstate(spec):
    k = spec[0]
    if k in ("src", "src-scm"):
        return "DSrc"
    if k == "build":
        return "(DBuild %s)" % L.lst([cvid(vid_of(spec[1])), L.s("exec/path")] + [L.s(x) for x in spec[2:]])
    if k == "build-empty":
        return "(DBuild [])"
    return "(DPkg %s)" % cvid(vid_of(spec[1]))


def classify_state(obj):
    if isinstance(obj, dict):
        return "DSrc"
    if isinstance(obj, list):
        return "(DBuild %s)" % (L.lst([cvid(x) if isinstance(x, bytes) else L.s(x) for x in obj]) if obj else "[]")
    return "(DPkg %s)" % cvid(obj)


def gen_clean_case(rng):
    """a fabricated workspace + project state + flags"""
    mode = rng.choice(["develop", "develop", "release"])
    hist = gen_history(rng, rng.randint(1, 5))
    flags = {"src": rng.random() < 0.5, "force": rng.random() < 0.35, "dry": rng.random() < 0.3, "verbose": rng.random() < 0.5}
    return {"part": "clean", "mode": mode, "history": hist, "flags": flags, "seed": rng.randrange(1 << 30)}


def fabricate_and_clean(case):
    """build the workspace described by `case` in the current directory with the real BobState / oracle, run the
    real doClean, return everything observed"""
    import random
    import bob.state
    from bob.builder import LocalBuilder
    import bob.cmds.build.clean as clean
    rng = random.Random(case["seed"])
    mode, hist, flags = case["mode"], case["history"], case["flags"]
    final = hist[-1]
    fresh_state()
    obs = {}
    # 1. earlier invocations: directories get assigned
    bn_ops = []
    cand = []           # (workspace path, kind, tag or None)
    if mode == "develop":
        for p in hist[:-1]:
            st = impl_prime(p)
            for key, path in st[3].items():
                i, kind = key.split(":")
                cand.append((path, kind, p["nodes"][i]["vids"][KINDS.index(kind)]))
        # occasionally the final state was already seen by a previous `bob dev`
        if rng.random() < 0.5:
            st = impl_prime(final)
            for key, path in st[3].items():
                i, kind = key.split(":")
                cand.append((path, kind, final["nodes"][i]["vids"][KINDS.index(kind)]))
    # release directories exist in both modes (develop mode must leave them alone)
    for p in (hist if mode == "release" else hist[-1:]):
        for i in reachable(p):
            n = p["nodes"][str(i)]
            for kx, kind in enumerate(KINDS):
                if n["vids"][kx] is None or rng.random() < (0.25 if mode == "release" else 0.8):
                    continue
                base = os.path.join("work", (n["recipe"] if kind == "src" else n["pname"]).replace("::", os.sep), kind)
                if n["recipe"] == "":
                    continue
                dg = vid_of(n["vids"][kx]).hex()
                bn_ops.append([base, dg, kind == "src"])
                d = bob.state.BobState().getByNameDirectory(base, dg, kind == "src")
                cand.append((os.path.join(d, "workspace"), kind, n["vids"][kx]))
    # 2. workspaces on disk and their stored states
    ds_specs = []       # insertion order of BobState dirStates
    fs = []
    seen = set()
    for path, kind, tag in cand:
        if path in seen or path.startswith("/"):
            continue
        seen.add(path)
        r = rng.random()
        exists = r < 0.8
        if exists:
            os.makedirs(path, exist_ok=True)
            with open(os.path.join(path, "content.txt"), "w") as f:
                f.write(str(tag))
            fs.append(path)
        r = rng.random()
        other = gen_tag(rng, KINDS.index(kind))
        if r < 0.12:
            spec = None                                  # no stored state
        elif kind == "src":
            spec = ["src-scm" if rng.random() < 0.4 else "src", tag if rng.random() < 0.7 else other]
        elif kind == "build":
            spec = ["build", tag if rng.random() < 0.5 else other, path]
            if rng.random() < 0.004:
                spec = ["build-empty"]
        else:
            spec = ["pkg", tag if rng.random() < 0.5 else other]
        if rng.random() < 0.035 and kind != "src":       # state of the wrong kind stored for the path
            spec = rng.choice([["pkg", other], ["build", other], ["src", other]])
        if spec is not None:
            bob.state.BobState().setDirectoryState(path, state_obj(spec))
            ds_specs.append([path, spec])
    # a stray directory bob never knew and a state without directory
    os.makedirs("dev/dist/stray/1/workspace", exist_ok=True)
    fs.append("dev/dist/stray/1/workspace")
    bob.state.finalize()
    # 3. the SCM-status oracle (external): ask the real function before cleaning
    expendable = []
    srcish = {path for path, spec in ds_specs if spec[0] in ("src", "src-scm")}
    srcish |= {os.path.join(d, "workspace") for d, is_src in bob.state.BobState().getAllNameDirectores() if is_src}
    for path in sorted(srcish):
        if os.path.exists(path):
            with contextlib.redirect_stdout(io.StringIO()):
                if clean.checkRegularSource(path, False):
                    expendable.append(path)
    bob.state.finalize()
    before_db = read_devdb()
    before_fs = sorted(p for p in fs if os.path.exists(p))
    before_tree = sorted(listing("."))
    # 4. bob clean
    argv = ["--" + mode]
    if flags["src"]:
        argv.append("-s")
    if flags["force"]:
        argv.append("-f")
    if flags["dry"]:
        argv.append("--dry-run")
    if flags["verbose"]:
        argv.append("-v")
    FakeRecipeSet.current = final
    orig = clean.RecipeSet
    clean.RecipeSet = FakeRecipeSet
    out = io.StringIO()
    status = "ok"
    try:
        with contextlib.redirect_stdout(out):
            clean.doClean(argv, core.REPO)
    except (KeyError, IndexError, TypeError, AttributeError) as e:
        status = "internal"
    except AssertionError:
        status = "assert"
    except Exception as e:
        status = "error:" + type(e).__name__
    finally:
        clean.RecipeSet = orig
        FakeRecipeSet.current = None
        gc.collect()
    # 5. observe
    after_fs = sorted(p for p in fs if os.path.exists(p))
    after_tree = sorted(listing("."))
    st = bob.state.BobState()
    after_ds = [(p, st.getDirectoryState(p, False)) for p in st.getDirectories()]
    bob.state.finalize()
    after_db = read_devdb()
    rm = [l[3:] for l in out.getvalue().split("\n") if l.startswith("rm ")]
    return {"status": status, "argv": argv, "bn_ops": bn_ops, "ds_specs": ds_specs, "fs": before_fs, "expendable": expendable,
            "before_db": before_db, "after_db": after_db, "after_fs": after_fs, "after_ds": after_ds, "rm": rm,
            "before_tree": before_tree, "after_tree": after_tree, "cand": cand}


def listing(root):
    out = []
    for dp, dn, fn in os.walk(root):
        for f in fn:
            if f.startswith(".bob-"):
                continue
            out.append(os.path.join(dp, f))
        for d in dn:
            out.append(os.path.join(dp, d) + "/")
    return out


PRE_CLEAN = PRE_DEV + """
Definition mk_exp (l : list str) (d : str) : bool := mem_str d l.
Definition strs_sub (a b : list str) : bool := forallb (fun x => mem_str x b) a.
Definition strs_same (a b : list str) : bool := strs_sub a b && strs_sub b a.
Definition ds_sub (a b : dirstates) : bool :=
  forallb (fun e => match lookup b (fst e) with Some s => dstate_eqb s (snd e) | None => false end) a.
Definition ds_same (a b : dirstates) : bool := Nat.eqb (length a) (length b) && ds_sub a b && ds_sub b a.
Record cwant := { w_rm : option (list str); w_fs : list str; w_ds : dirstates; w_db : option ostate }.
Definition cres_ok (r : cres) (w : cwant) : bool :=
  match w_rm w with Some l => eqb_list str_eqb (c_del r) l | None => true end
  && strs_same (c_fs r) (w_fs w) && ds_same (c_ds r) (w_ds w).
Inductive cin :=
| CDev (f : cflags) (s : ostate) (ck : str) (root : pkg) (bn : list bnop) (ds : dirstates) (fs : list str) (ex : list str)
| CRel (f : cflags) (root : pkg) (bn : list bnop) (ds : dirstates) (fs : list str) (ex : list str).
Definition clean_ok (i : cin) (w : option cwant) : bool :=
  match i with
  | CDev f s ck root bn ds fs ex =>
      match clean_develop (mk_exp ex) f s ck root (fst (bn_run [] bn)) ds fs, w with
      | Some (s', r), Some w' => cres_ok r w' && ost_same (Some s') (w_db w')
      | None, None => true
      | _, _ => false
      end
  | CRel f root bn ds fs ex =>
      match clean_release (mk_exp ex) f root (fst (bn_run [] bn)) ds fs, w with
      | Some r, Some w' => cres_ok r w'
      | None, None => true
      | _, _ => false
      end
  end.
"""


def coq_strs(xs):
    return L.lst([L.s(x) for x in xs]) if xs else "(@nil str)"


def clean_case_terms(case, ob):
    f = case["flags"]
    fl = "{| cf_src := %s; cf_force := %s; cf_dry := %s |}" % (L.B(f["src"]), L.B(f["force"]), L.B(f["dry"]))
    final = case["history"][-1]
    bn = L.lst([L.tup(L.s(b), L.s(g), L.B(s)) for b, g, s in ob["bn_ops"]]) if ob["bn_ops"] else "(@nil bnop)"
    ds = L.lst([L.pair(L.s(p), coq_dstate(spec)) for p, spec in ob["ds_specs"]]) if ob["ds_specs"] else "(@nil (str * dstate))"
    if case["mode"] == "develop":
        cin = "(CDev %s %s %s %s %s %s %s %s)" % (fl, coq_ostate(*ob["before_db"]), L.by(final["ck"].encode()), coq_pkg_tree(final),
                                                 bn, ds, coq_strs(ob["fs"]), coq_strs(ob["expendable"]))
    else:
        cin = "(CRel %s %s %s %s %s %s)" % (fl, coq_pkg_tree(final), bn, ds, coq_strs(ob["fs"]), coq_strs(ob["expendable"]))
    if ob["status"] != "ok":
        return cin, "(@None cwant)"
    rm_known = f["dry"] or f["verbose"]
    ads = L.lst([L.pair(L.s(p), classify_state(s)) for p, s in ob["after_ds"]]) if ob["after_ds"] else "(@nil (str * dstate))"
    want = "(Some {| w_rm := %s; w_fs := %s; w_ds := %s; w_db := %s |})" % (
        ("(Some %s)" % coq_strs(ob["rm"])) if rm_known else "(@None (list str))", coq_strs(ob["after_fs"]), ads,
        "(Some %s)" % coq_ostate(*ob["after_db"]) if case["mode"] == "develop" else "(@None ostate)")
    return cin, want


def clean_oracle_checks(ctx, case, ob):
    """the property statement for `bob clean`, evaluated on the observed run without the model"""
    f = case["flags"]
    final = case["history"][-1]
    deleted = sorted(set(ob["fs"]) - set(ob["after_fs"]))
    if ob["status"] != "ok":
        # collectPaths indexing a state of the wrong kind: only reachable with states bob itself never writes
        return
    if f["dry"] and (ob["before_tree"] != ob["after_tree"]):
        ctx.violation("clean-dry-run-deletes", "bob clean --dry-run changed the workspace", case)
        return
    kind_of = {}
    for p, kind, tag in ob["cand"]:
        kind_of.setdefault(p, set()).add(kind)
    specs = dict((p, s) for p, s in ob["ds_specs"])
    for d in deleted:
        # a source workspace = a directory that was assigned to a checkout step (not: whatever state is recorded)
        # (a directory shared by steps of different kinds -- equal Variant-Ids across kinds -- is outside the statement)
        if kind_of.get(d) == {"src"}:
            if not f["src"]:
                ctx.violation("clean-deletes-source-without-s", "source workspace %s deleted without -s" % d, case)
                return
            if not f["force"] and d not in ob["expendable"]:
                ctx.violation("clean-deletes-unexpendable-source", "source workspace %s with unknown SCM state deleted without --force" % d, case)
                return
    # deleted only what is not the up-to-date directory of a current package: recompute the current paths
    # through the (real) query interface of the oracle / by-name table
    cur = current_paths(case, ob)
    for d in deleted:
        if d in cur:
            n, kx = cur[d]
            sp = specs.get(d)
            tag = n["vids"][kx]
            uptodate = sp is None or kx == 0 or (sp[0] in ("build", "pkg") and sp[1] == tag and (sp[0] == "build") == (kx == 1))
            if uptodate:
                ctx.violation("clean-deletes-uptodate-result", "%s belongs to current package %s (%s) and was deleted" % (d, n["pname"], KINDS[kx]), case)
                return
    if any(not t.startswith(("./dev/", "./work/")) for t in set(ob["before_tree"]) - set(ob["after_tree"])):
        ctx.violation("clean-deletes-outside-workspaces", "bob clean removed files outside dev/ and work/", case)
    if "dev/dist/stray/1/workspace" in deleted:
        ctx.violation("clean-deletes-unknown-directory", "a directory bob has no record of was deleted", case)
    if case["mode"] == "develop" and any(d.startswith("work/") for d in deleted):
        ctx.violation("clean-develop-deletes-release-dir", "bob clean --develop deleted a release directory", case)
    if case["mode"] == "release" and any(d.startswith("dev/") for d in deleted):
        ctx.violation("clean-release-deletes-develop-dir", "bob clean --release deleted a develop directory", case)


def current_paths(case, ob):
    """workspace path -> (node, kind index) for every valid step of the final project state, read from the
    directory tables the implementation left behind"""
    final = case["history"][-1]
    cur = {}
    if case["mode"] == "develop":
        dirs = dict(ob["after_db"][1])
        for i in reachable(final):
            n = final["nodes"][str(i)]
            for kx in range(3):
                if n["vids"][kx] is not None:
                    d = dirs.get(key_of(n, kx))
                    if d is not None:
                        cur.setdefault(os.path.join(d, "workspace"), (n, kx))
    else:
        table = {}
        for b, g, s in ob["bn_ops"]:
            pass
        import bob.state
        st = bob.state.BobState()
        try:
            for i in reachable(final):
                n = final["nodes"][str(i)]
                for kx in range(3):
                    if n["vids"][kx] is not None:
                        d = st.getExistingByNameDirectory(vid_of(n["vids"][kx]).hex())
                        if d is not None:
                            cur.setdefault(os.path.join(d, "workspace"), (n, kx))
        finally:
            bob.state.finalize()
    return cur


def run_clean_case(ctx, case):
    d = core.scratch_dir("c16cl")
    try:
        with in_dir(d):
            try:
                ob = fabricate_and_clean(case)
                if case["mode"] == "release":
                    ob["cur"] = None
                clean_oracle_checks(ctx, case, ob)
            finally:
                fresh_state()
    finally:
        shutil.rmtree(d, ignore_errors=True)
    return ob


def shrink_clean_case(case, sig, budget=60):
    left = [budget]

    def fails(c):
        if left[0] <= 0:
            return False
        left[0] -= 1
        col = _Collect()
        try:
            run_clean_case(col, c)
        except Exception:
            return False
        return any(v[0] == sig for v in col.violations)
    changed = True
    while changed and left[0] > 0:
        changed = False
        h = case["history"]
        for i in range(len(h) - 1):
            cand = dict(case, history=h[:i] + h[i + 1:])
            if fails(cand):
                case, changed = cand, True
                break
        if changed:
            continue
        ids = sorted({int(k) for p in h for k in p["nodes"] if k != "0"})
        for nid in ids:
            cand = dict(case, history=[prune_project(p, nid) for p in h])
            if fails(cand):
                case, changed = cand, True
                break
    return case


def part_clean(ctx, extra):
    rng = ctx.rng
    n = ctx.n(160, 1500)
    cases, meta = [], []
    todo = [c for c in extra if c.get("part") == "clean"] + [gen_clean_case(rng) for _ in range(n)]
    reported = set()
    for case in todo:
        col = _Collect()
        ob = run_clean_case(col, case)
        for sig, what in col.violations:
            ctx.count("clean:violation:" + sig)
            if sig not in reported:
                reported.add(sig)
                ctx.violation(sig, what, shrink_clean_case(case, sig))
        ctx.evaluated()
        deleted = sorted(set(ob["fs"]) - set(ob["after_fs"]))
        ctx.count("clean:%s:%s" % (case["mode"], ob["status"]))
        ctx.count("clean:deleted-dirs", len(deleted))
        ctx.count("clean:kept-dirs", len(ob["after_fs"]))
        ctx.count("clean:flags:" + "".join(k[0] for k in ("src", "force", "dry") if case["flags"][k]))
        if deleted or ob["rm"]:
            ctx.nontrivial(("clean", json.dumps(case, sort_keys=True)))
        cases.append(clean_case_terms(case, ob))
        meta.append(case)
        if deleted and len(ctx.cov["samples"]) < 5:
            ctx.sample({"part": "clean", "argv": ob["argv"], "existing": ob["fs"], "deleted": deleted})
    bad, log = coq.run_cases(ctx, ["BobV.C16.Model"], "(fun i => i)", "clean_ok", cases, preamble=PRE_CLEAN, tag="clean", shard=25)
    if bad is None:
        ctx.tie_broken("C16 clean model evaluation failed", log)
        return
    ctx.validated(len(cases) - len(bad))
    for i in bad[:5]:
        ctx.tie_broken("clean-correspondence", meta[i])


# ------------------------------------------------------------------ part prepare: _preparePackageStep
PRE_PREP = _pre_vids() + """
Definition prep_ok (i : there (list str) * option dstate * str) (w : list str * option dstate) : bool :=
  let '(t, old, vid) := i in
  let r := package_prepare (list str) [] t old vid in
  eqb_list str_eqb (fst r) (fst w) && dstate_opt_eqb (snd r) (snd w).
"""


def part_prepare(ctx, extra):
    import bob.state
    from bob.builder import LocalBuilder
    rng = ctx.rng
    n = ctx.n(150, 1500)
    cases, meta = [], []
    for ci in range(n):
        there = rng.choice(["none", "dir", "dir", "dir", "link", "file"])
        tag = rng.choice(["p0", "p1", "p2"])
        old = rng.choice([None, ["pkg", tag], ["pkg", tag], ["pkg", rng.choice(["p0", "p1", "p2"])], ["build", tag], ["src", tag]])
        files = sorted(set(rng.choice(["a", "b", "c"]) for _ in range(rng.randint(0, 2)))) if there == "dir" else []
        case = {"part": "prepare", "there": there, "old": old, "tag": tag, "files": files}
        d = core.scratch_dir("c16pp")
        try:
            with in_dir(d):
                fresh_state()
                try:
                    path = "dev/dist/p/1/workspace"
                    os.makedirs(os.path.dirname(path))
                    if there == "dir":
                        os.makedirs(path)
                        for f in files:
                            open(os.path.join(path, f), "w").close()
                    elif there == "link":
                        os.symlink("/nonexistent/shared/workspace", path)
                    elif there == "file":
                        open(path, "w").close()
                    if old is not None:
                        bob.state.BobState().setDirectoryState(path, state_obj(old))
                        bob.state.BobState().setInputHashes(path, [b"x"])
                    proj = {"root": 0, "ck": "x", "nodes": {"0": {"recipe": "p", "pname": "p", "vids": [None, None, tag], "deps": []}}}
                    step = DPackage(proj, 0, [lambda s, props: path]).getPackageStep()
                    status = "ok"
                    try:
                        with contextlib.redirect_stdout(io.StringIO()), contextlib.redirect_stderr(io.StringIO()):
                            LocalBuilder._preparePackageStep(None, step)
                    except Exception as e:
                        status = "error:" + type(e).__name__
                    # the directory _constructDir of _cookPackageStep will find / create
                    # (a link / file left there is replaced by a new empty directory in _constructDir)
                    after = sorted(os.listdir(path)) if os.path.isdir(path) and not os.path.islink(path) else []
                    st = bob.state.BobState().getDirectoryState(path, False)
                    stale_inputs = bob.state.BobState().getInputHashes(path)
                finally:
                    fresh_state()
        finally:
            shutil.rmtree(d, ignore_errors=True)
        ctx.evaluated()
        ctx.count("prepare:%s:%s" % (there, "none" if old is None else ("same" if old == ["pkg", tag] else "other")))
        ctx.nontrivial(("prepare", json.dumps(case)))
        if status != "ok":
            ctx.violation("prepare-raises", "_preparePackageStep raised %s" % status, case)
            continue
        # property: a package directory whose stored state is not this variant starts empty
        same = (old == ["pkg", tag])
        if not same and after:
            ctx.violation("package-dir-reused-without-prune", "package workspace kept %r although its stored state %r is not variant %s" % (after, old, tag), case)
        if not same and stale_inputs is not None and there != "none" or (there == "none" and stale_inputs is not None):
            ctx.violation("package-dir-stale-state", "input hashes of the previous occupant survive", case)
        t = {"none": "(@NoDir (list str))", "dir": "(IsDir %s)" % coq_strs(files), "link": "(@IsLinkOrFile (list str))",
             "file": "(@IsLinkOrFile (list str))"}[there]
        oldc = "(@None dstate)" if old is None else "(Some %s)" % coq_dstate(old)
        stc = "(@None dstate)" if st is None else "(Some %s)" % classify_state(st)
        cases.append(("(%s, %s, %s)" % (t, oldc, cvid(vid_of(tag))), "(%s, %s)" % (coq_strs(after), stc)))
        meta.append(case)
    bad, log = coq.run_cases(ctx, ["BobV.C16.Model"], "(fun i => i)", "prep_ok", cases, preamble=PRE_PREP, tag="prep", shard=200)
    if bad is None:
        ctx.tie_broken("C16 prepare model evaluation failed", log)
        return
    ctx.validated(len(cases) - len(bad))
    for i in bad[:5]:
        ctx.tie_broken("prepare-correspondence", meta[i])


# ------------------------------------------------------------------ main
def load_corpus():
    out = []
    for p in sorted(glob.glob(os.path.join(core.VERIF, "corpus", "C16", "*.json"))):
        with open(p) as f:
            c = json.load(f)
        out.append(c.get("case", c))
    return out


def run(ctx):
    ctx.rule = ("dev: histories of 3-8 (thorough 12) project states (variants appear/disappear/re-appear/are edited, "
                "multiPackage twins, identical packages of other recipes, repeated cache keys), distinct by the resulting "
                "dirs table; byname: op sequences over bases/digests with reloads, non-trivial with >= 2 digests; clean: "
                "fabricated workspaces (existing/missing dirs, matching/stale/missing/mistyped states) x flags, non-trivial "
                "when something is deleted or listed; prepare: what-is-there x stored state; e2e: generated recipe "
                "projects with edit histories and dev/build/clean invocations")
    ctx.assumptions += [
        "recipe parsing / variant-id computation are not modelled: packages enter as (id, recipe name, package name, step variant ids, deps)",
        "Step.getWorkspacePath calls the formatter only for valid steps (duck-typed in the in-process parts, real in the e2e part)",
        "sqlite3 (table with primary key) and pickle persistence are modelled as association lists",
        "SCM status (checkRegularSource) is an oracle: section variable `expendable` in the model, the real function's answer in the correspondence",
        "workspace directories are not nested in one another (flat set of existing workspace paths in the clean model)",
        "`bob clean --attic/--shared` are outside this property (C15/C12)",
        "builder prune decision: only lines 1381-1392 / 1423-1448 are modelled; the script is a section variable",
    ]
    ctx.trusted_base += ["duck-typed Package/Step objects and the RecipeSet stand-in of harness/props/c16.py"]
    ctx.note("proved (unbounded, Coq): injectivity and stability of the develop dirs table over all histories (hypothesis: no two "
             "base directories differ only by a trailing slash), termination of the numbering loop, injectivity/stability of "
             "release by-name directories over all call sequences (hypothesis: base-directory and digest name spaces disjoint), "
             "prune decision of build/package directories, delete-set theorems of bob clean (only unused, keeps up-to-date results "
             "of all reachable packages given consistent package ids, dry-run no-op, sources only with -s and force/expendable)")
    ctx.note("only exercised by the correspondence: that the model predicts the code (visit order, keep rule, numbering, by-name "
             "table, collectPaths, delete set, state cleanup, prune), SCM status, sqlite/pickle persistence, recipe parsing")
    ctx.note("observation (not part of the property statement): steps of different kinds with equal Variant-Id (a checkout-less "
             "package whose buildScript equals a sibling multiPackage's checkoutScript) share one develop directory and "
             "`bob clean` then raises KeyError: 0 in collectPaths (model: own_paths = None)")
    if ctx.replay:
        return replay(ctx)
    extra = load_corpus()
    import time
    started = e2e_start(ctx, extra)
    try:
        for name, fn in (("dev", part_dev), ("byname", part_byname), ("clean", part_clean), ("prepare", part_prepare)):
            t0 = time.time()
            fn(ctx, extra)
            ctx.count("seconds:" + name, int(time.time() - t0))
    finally:
        t0 = time.time()
        part_e2e(ctx, extra, started)
        ctx.count("seconds:e2e-wait", int(time.time() - t0))


# ------------------------------------------------------------------ part e2e: real bob dev / build / clean
DUMP_HELPER = r"""
import json, sys, os, io, contextlib
from bob.input import RecipeSet
from bob.builder import LocalBuilder
sandbox = sys.argv[1] == "1"
recipes = RecipeSet()
recipes.defineHook('releaseNameFormatter', LocalBuilder.releaseNameFormatter)
recipes.defineHook('developNameFormatter', LocalBuilder.developNameFormatter)
recipes.defineHook('developNamePersister', None)
recipes.setConfigFiles([])
recipes.parse({})
packages = recipes.generatePackages(lambda s, p: "unused", sandbox)
ids, nodes = {}, {}
def walk(p):
    k = p._getId()
    if k in ids: return ids[k]
    ids[k] = n = len(ids)
    steps = [p.getCheckoutStep(), p.getBuildStep(), p.getPackageStep()]
    nodes[n] = {"recipe": p.getRecipe().getName(), "pname": p.getRecipe().getPackageName(),
                "vids": [s.getVariantId().hex() if s.isValid() else None for s in steps], "deps": []}
    nodes[n]["deps"] = [walk(d.getPackage()) for d in p.getDirectDepSteps()]
    return n
r = walk(packages.getRootPackage())
exp = []
if len(sys.argv) > 2:
    import bob.cmds.build.clean as clean
    from bob.state import BobState, finalize
    with contextlib.redirect_stdout(io.StringIO()):
        for d in json.loads(sys.argv[2]):
            if clean.checkRegularSource(d, False): exp.append(d)
    finalize()
print(json.dumps({"ck": packages.getCacheKey().hex(), "root": r, "nodes": nodes, "expendable": exp}))
"""


def e2e_ident(spec, name, memo=None):
    """identity of a package variant of the generated project (what its scripts and inputs are)"""
    memo = {} if memo is None else memo
    if name in memo:
        return memo[name]
    rname, _, suf = name.partition("-")
    r = spec["recipes"][rname]
    parts = [rname, str(r["co"]), r["bu"], r["pk"]]
    if r["multi"]:
        parts.append(r["multi"][suf])
    for d in r["deps"]:
        parts.append(e2e_ident(spec, d, memo))
    memo[name] = hashlib.sha1("|".join(parts).encode()).hexdigest()[:12]
    return memo[name]


def e2e_root_ident(spec):
    return hashlib.sha1("|".join(["root"] + [e2e_ident(spec, d) for d in spec["rootdeps"]]).encode()).hexdigest()[:12]


def e2e_reachable_idents(spec):
    out, todo, seen = {e2e_root_ident(spec)}, list(spec["rootdeps"]), set()
    while todo:
        n = todo.pop()
        if n in seen:
            continue
        seen.add(n)
        out.add(e2e_ident(spec, n))
        todo.extend(spec["recipes"][n.partition("-")[0]]["deps"])
    return sorted(out)


def e2e_pkgnames(spec, rname):
    r = spec["recipes"][rname]
    return [rname + "-" + suf for suf in sorted(r["multi"])] if r["multi"] else [rname]


def e2e_write(spec, proj, log):
    rd = os.path.join(proj, "recipes")
    shutil.rmtree(rd, ignore_errors=True)
    os.makedirs(rd)
    with open(os.path.join(proj, "config.yaml"), "w") as f:
        f.write('bobMinimumVersion: "0.25"\n')

    def scripts(ident, indent):
        pad = " " * indent
        return ("%sbuildScript: |\n%s    echo \"BUILD %s $PWD [$(ls -A | tr '\\n' ' ')]\" >> \"%s\"\n%s    touch m-%s\n"
                "%spackageScript: |\n%s    echo \"PACKAGE %s $PWD [$(ls -A | tr '\\n' ' ')]\" >> \"%s\"\n%s    touch m-%s\n") % (
                    pad, pad, ident, log, pad, ident, pad, pad, ident, log, pad, ident)
    with open(os.path.join(rd, "root.yaml"), "w") as f:
        f.write("root: True\n")
        if spec["rootdeps"]:
            f.write("depends:\n" + "".join("    - %s\n" % d for d in spec["rootdeps"]))
        f.write(scripts(e2e_root_ident(spec), 0))
    for rname, r in spec["recipes"].items():
        with open(os.path.join(rd, rname + ".yaml"), "w") as f:
            if r["co"] is not None:
                f.write("checkoutScript: |\n    echo %s > src.txt\n" % r["co"])
            if r["deps"]:
                f.write("depends:\n" + "".join("    - %s\n" % d for d in r["deps"]))
            if r["multi"]:
                f.write("multiPackage:\n")
                for suf in sorted(r["multi"]):
                    f.write("    %s:\n" % suf)
                    f.write(scripts(e2e_ident(spec, rname + "-" + suf), 8))
            else:
                f.write(scripts(e2e_ident(spec, rname), 0))


def e2e_gen_spec(rng):
    names = ["a", "b", "lib", "foo", "zed"]
    rng.shuffle(names)
    spec = {"recipes": {}, "rootdeps": []}
    for i, n in enumerate(names[:rng.randint(2, 4)]):
        multi = {}
        if rng.random() < 0.4:
            t = "m%d" % rng.randrange(3)
            multi = {"x": t, "y": t if rng.random() < 0.5 else "m%d" % rng.randrange(3)}    # twins or not
        spec["recipes"][n] = {"co": ("c%d" % rng.randrange(3)) if rng.random() < 0.7 else None,
                              "bu": "b%d" % rng.randrange(3), "pk": "p%d" % rng.randrange(3), "multi": multi, "deps": []}
    e2e_rewire(rng, spec)
    return spec


def e2e_rewire(rng, spec):
    order = sorted(spec["recipes"])
    for i, n in enumerate(order):
        later = [p for m in order[i + 1:] for p in e2e_pkgnames(spec, m)]
        spec["recipes"][n]["deps"] = [p for p in later if rng.random() < 0.35][:2]
    allp = [p for m in order for p in e2e_pkgnames(spec, m)]
    used = {d for r in spec["recipes"].values() for d in r["deps"]}
    spec["rootdeps"] = [p for p in allp if p not in used or rng.random() < 0.3]
    if not spec["rootdeps"]:
        spec["rootdeps"] = allp[:1]


def e2e_edit(rng, spec):
    spec = json.loads(json.dumps(spec))
    names = sorted(spec["recipes"])
    r = rng.random()
    n = rng.choice(names)
    rec = spec["recipes"][n]
    what = "edit"
    if r < 0.3:
        rec["bu"] = "b%d" % rng.randrange(6); what = "edit-build"
    elif r < 0.45:
        rec["pk"] = "p%d" % rng.randrange(6); what = "edit-package"
    elif r < 0.55 and rec["co"] is not None:
        rec["co"] = "c%d" % rng.randrange(6); what = "edit-checkout"
    elif r < 0.65 and rec["multi"]:
        suf = rng.choice(sorted(rec["multi"]))
        rec["multi"][suf] = "m%d" % rng.randrange(4); what = "edit-multi"
    elif r < 0.75 and len(names) > 2:
        del spec["recipes"][n]; what = "remove-recipe"
        e2e_rewire(rng, spec)
    elif r < 0.85 and len(names) < 5:
        new = rng.choice([x for x in ["a", "b", "lib", "foo", "zed", "q"] if x not in names])
        spec["recipes"][new] = {"co": "c0" if rng.random() < 0.6 else None, "bu": "b0", "pk": "p0", "multi": {}, "deps": []}
        what = "add-recipe"
        e2e_rewire(rng, spec)
    else:
        e2e_rewire(rng, spec); what = "rewire"
    return spec, what


def e2e_bob(proj, args, timeout=180):
    env = dict(os.environ)
    env["PYTHONPATH"] = os.path.join(core.REPO, "pym")
    env.pop("BOB_VERIF", None)
    r = subprocess.run([PY, os.path.join(core.REPO, "bob")] + args, cwd=proj, env=env, stdout=subprocess.PIPE,
                       stderr=subprocess.STDOUT, text=True, timeout=timeout)
    return r.returncode, r.stdout


def e2e_dump(proj, sandbox, exp_dirs=None):
    env = dict(os.environ)
    env["PYTHONPATH"] = os.path.join(core.REPO, "pym")
    args = [PY, "-c", DUMP_HELPER, "1" if sandbox else "0"]
    if exp_dirs is not None:
        args.append(json.dumps(exp_dirs))
    r = subprocess.run(args, cwd=proj, env=env, stdout=subprocess.PIPE, stderr=subprocess.PIPE, text=True, timeout=180)
    if r.returncode != 0:
        raise RuntimeError("dump helper failed: " + r.stderr[-800:])
    d = json.loads(r.stdout.strip().split("\n")[-1])
    for n in d["nodes"].values():
        n["vids"] = [None if v is None else bytes.fromhex(v) for v in n["vids"]]
    return d


def e2e_state(proj):
    """persisted bob state of the project: by-name table, directory states, develop dirs table, workspaces on disk"""
    st = {"bn": [], "ds": [], "db": (None, [])}
    p = os.path.join(proj, ".bob-state.pickle")
    if os.path.exists(p):
        with open(p, "rb") as f:
            raw = pickle.load(f)
        st["bn"] = list(raw.get("byNameDirs", {}).items())
        st["ds"] = list(raw.get("dirStates", {}).items())
    st["db"] = read_devdb(os.path.join(proj, ".bob-dev-dirs.sqlite3"))
    cands = [d for d, _ in st["ds"]] + [os.path.join(v[0], "workspace") for k, v in st["bn"] if isinstance(v, tuple)]
    st["fs"] = sorted({d for d in cands if os.path.exists(os.path.join(proj, d))})
    ws = []
    for top in ("dev", "work"):
        for dp, dn, fn in os.walk(os.path.join(proj, top)):
            if os.path.basename(dp) == "workspace":
                ws.append(os.path.relpath(dp, proj))
                dn[:] = []
    st["workspaces"] = sorted(ws)
    return st


def coq_tree_e2e(d):
    nodes = d["nodes"]
    order, seen = [], set()

    def topo(i):
        if i in seen:
            return
        seen.add(i)
        for x in nodes[str(i)]["deps"]:
            topo(x)
        order.append(i)
    topo(d["root"])
    out = []
    for i in order:
        n = nodes[str(i)]
        out.append("let n%d := Pkg %d %s %s %s %s %s %s in" % (
            i, i, L.s(n["recipe"]), L.s(n["pname"]), *["None" if v is None else "(Some %s)" % L.by(v) for v in n["vids"]],
            L.lst(["n%d" % x for x in n["deps"]]) if n["deps"] else "(@nil pkg)"))
    return "(" + " ".join(out) + " n%d)" % d["root"]


def coq_bnmap(items):
    out = []
    for k, v in items:
        if isinstance(v, tuple):
            out.append(L.pair(L.s(k), "(BDir %s %s)" % (L.s(v[0]), L.B(bool(v[1])))))
        else:
            out.append(L.pair(L.s(k), "(BCnt %d)" % v))
    return L.lst(out) if out else "(@nil (str * bnval))"


def coq_ds_raw(items):
    return L.lst([L.pair(L.s(p), classify_state(s)) for p, s in items]) if items else "(@nil (str * dstate))"


PRE_E2E = PRE_CLEAN + """
Inductive ein :=
| EDev (s : ostate) (ck : str) (root : pkg)
| ECleanDev (f : cflags) (s : ostate) (ck : str) (root : pkg) (bn : bnmap) (ds : dirstates) (fs : list str) (ex : list str)
| ECleanRel (f : cflags) (root : pkg) (bn : bnmap) (ds : dirstates) (fs : list str) (ex : list str).
Inductive ewant := WDev (s : ostate) | WClean (w : cwant).
Definition e2e_ok (i : ein) (w : ewant) : bool :=
  match i, w with
  | EDev s ck root, WDev s' => ost_same (prime s ck root) (Some s')
  | ECleanDev f s ck root bn ds fs ex, WClean w' =>
      match clean_develop (mk_exp ex) f s ck root bn ds fs with
      | Some (s', r) => cres_ok r w' && ost_same (Some s') (w_db w')
      | None => false
      end
  | ECleanRel f root bn ds fs ex, WClean w' =>
      match clean_release (mk_exp ex) f root bn ds fs with
      | Some r => cres_ok r w'
      | None => false
      end
  | _, _ => false
  end.
"""


def e2e_project(seed, nops, tier):
    """run one generated project history; returns records (no ctx access: runs in a worker thread)"""
    import random
    rng = random.Random(seed)
    proj = core.scratch_dir("c16e2e")
    rec = {"seed": seed, "ops": [], "violations": [], "cases": [], "counts": {}, "errors": []}

    def count(k, n=1):
        rec["counts"][k] = rec["counts"].get(k, 0) + n
    try:
        log = os.path.join(proj, "steps.log")
        spec = e2e_gen_spec(rng)
        e2e_write(spec, proj, log)
        clean_since = {"develop": None, "release": None}   # True = mode was built and nothing edited since
        plan = ["dev"]
        for _ in range(nops - 1):
            plan.append(rng.choices(["edit", "dev", "build", "clean", "dev-force"], [0.3, 0.24, 0.12, 0.28, 0.06])[0])
        history = []
        i = 0
        while i < len(plan):
            op = plan[i]
            i += 1
            if op == "edit":
                spec, what = e2e_edit(rng, spec)
                e2e_write(spec, proj, log)
                clean_since = {"develop": False if clean_since["develop"] is not None else None,
                               "release": False if clean_since["release"] is not None else None}
                history.append(what)
                count("e2e:op:" + what)
                continue
            if op in ("dev", "build", "dev-force"):
                mode = "release" if op == "build" else "develop"
                before = e2e_state(proj)
                open(log, "w").close()
                rc, out = e2e_bob(proj, ["build", "root"] if op == "build" else (["dev", "root"] if op == "dev" else ["dev", "-f", "root"]))
                history.append(op)
                count("e2e:op:" + op)
                if rc != 0:
                    rec["errors"].append({"op": op, "history": list(history), "out": out[-1500:]})
                    break
                after = e2e_state(proj)
                lines = [l for l in open(log).read().split("\n") if l]
                # prune oracle: a build / package script may only find the marker of its own variant
                for l in lines:
                    kind, ident, pwd, found = l.split(" ", 3)
                    marks = [x for x in found.strip("[]").split() if x.startswith("m-")]
                    count("e2e:steps-run")
                    if marks:
                        count("e2e:incremental-rebuild" if marks == ["m-" + ident] else "e2e:foreign-content")
                    if any(m != "m-" + ident for m in marks):
                        rec["violations"].append(("dir-reused-without-prune",
                                                  "%s step of variant %s started in %s which still held %s" % (kind, ident, pwd, marks),
                                                  {"part": "e2e", "seed": seed, "nops": nops, "history": list(history)}))
                # ... and afterwards every package of the current recipes has a build and a package directory that
                # holds its own result and nothing of another variant (a stale directory must not be used as is)
                where = {"part": "e2e", "seed": seed, "nops": nops, "history": list(history)}
                marks = {}
                for ws in after["workspaces"]:
                    if ws.startswith("dev/" if mode == "develop" else "work/"):
                        marks[ws] = sorted(f for f in os.listdir(os.path.join(proj, ws)) if f.startswith("m-"))
                for ws, ms in marks.items():
                    if len(ms) > 1:
                        rec["violations"].append(("dir-reused-without-prune", "%s holds results of several variants: %r" % (ws, ms), where))
                for ident in e2e_reachable_idents(spec):
                    for lbl in ("/build/", "/dist/"):
                        if not any(lbl in ws and ("m-" + ident) in ms for ws, ms in marks.items()):
                            rec["violations"].append(("dir-reused-without-prune",
                                                      "after `bob %s` no %s directory holds the result of variant %s (a stale directory was used)" % (op, lbl.strip("/"), ident),
                                                      where))
                if mode == "develop":
                    dirs = {}
                    for k, d in after["db"][1]:
                        if d in dirs:
                            rec["violations"].append(("dev-dir-shared-by-different-keys", "directory %s assigned twice" % d,
                                                      {"part": "e2e", "seed": seed, "nops": nops, "history": list(history)}))
                        dirs[d] = k
                    old = dict(before["db"][1])
                    for k, d in after["db"][1]:
                        if k in old and old[k] != d and os.path.dirname(old[k]) == os.path.dirname(d):
                            rec["violations"].append(("dev-dir-changed-for-existing-variant", "%r: %s -> %s" % (k, old[k], d),
                                                      {"part": "e2e", "seed": seed, "nops": nops, "history": list(history)}))
                    count("e2e:dev-kept", sum(1 for k, d in after["db"][1] if old.get(k) == d))
                    count("e2e:dev-new", sum(1 for k, d in after["db"][1] if k not in old))
                    tree = e2e_dump(proj, False)
                    rec["cases"].append(("(EDev %s %s %s)" % (coq_ostate(*before["db"]), L.by(bytes.fromhex(tree["ck"])), coq_tree_e2e(tree)),
                                         "(WDev %s)" % coq_ostate(*after["db"]), {"op": "dev", "history": list(history)}))
                else:
                    bn = [v[0] for k, v in after["bn"] if isinstance(v, tuple)]
                    if len(bn) != len(set(bn)):
                        rec["violations"].append(("release-dir-shared-by-different-variants", "by-name directory assigned twice",
                                                  {"part": "e2e", "seed": seed, "nops": nops, "history": list(history)}))
                    oldbn = dict((k, v) for k, v in before["bn"] if isinstance(v, tuple))
                    for k, v in after["bn"]:
                        if isinstance(v, tuple) and k in oldbn and oldbn[k][0] != v[0]:
                            rec["violations"].append(("release-dir-changed-for-existing-variant", "%s: %s -> %s" % (k, oldbn[k][0], v[0]),
                                                      {"part": "e2e", "seed": seed, "nops": nops, "history": list(history)}))
                # nothing to do directly after a clean that followed an up-to-date build of this mode
                if clean_since[mode] == "cleaned" and lines and op != "dev-force":
                    rec["violations"].append(("clean-deletes-uptodate-result",
                                              "after `bob clean` an unchanged project re-ran steps: %r" % lines[:3],
                                              {"part": "e2e", "seed": seed, "nops": nops, "history": list(history)}))
                clean_since[mode] = True
                continue
            # ---- clean
            mode = rng.choice(["develop", "develop", "release"])
            flags = {"src": rng.random() < 0.5, "force": rng.random() < 0.3, "dry": rng.random() < 0.3, "verbose": rng.random() < 0.6}
            argv = ["clean", "--" + mode] + (["-s"] if flags["src"] else []) + (["-f"] if flags["force"] else []) + \
                   (["--dry-run"] if flags["dry"] else []) + (["-v"] if flags["verbose"] else [])
            before = e2e_state(proj)
            srcdirs = sorted({d for d, s in before["ds"] if isinstance(s, dict)} |
                             {os.path.join(v[0], "workspace") for k, v in before["bn"] if isinstance(v, tuple) and v[1]})
            srcdirs = [d for d in srcdirs if os.path.exists(os.path.join(proj, d))]
            tree = e2e_dump(proj, mode == "release", srcdirs)
            before = e2e_state(proj)
            tree_before = sorted(listing(proj))
            rc, out = e2e_bob(proj, argv)
            history.append(" ".join(argv))
            count("e2e:op:clean-" + mode)
            if rc != 0:
                rec["errors"].append({"op": argv, "history": list(history), "out": out[-1500:]})
                break
            after = e2e_state(proj)
            tree_after = sorted(listing(proj))
            deleted = sorted(set(before["workspaces"]) - set(after["workspaces"]))
            count("e2e:clean-deleted", len(deleted))
            count("e2e:clean-kept", len(after["workspaces"]))
            rm = [l[3:] for l in out.split("\n") if l.startswith("rm ")]
            where = {"part": "e2e", "seed": seed, "nops": nops, "history": list(history)}
            if flags["dry"] and tree_before != tree_after:
                rec["violations"].append(("clean-dry-run-deletes", "bob clean --dry-run changed the workspace", where))
            if not flags["src"] and any("/src/" in d for d in deleted):
                rec["violations"].append(("clean-deletes-source-without-s", "source workspace deleted without -s: %r" % deleted, where))
            if any(d.startswith("work/") for d in deleted) and mode == "develop":
                rec["violations"].append(("clean-develop-deletes-release-dir", "%r" % deleted, where))
            if any(d.startswith("dev/") for d in deleted) and mode == "release":
                rec["violations"].append(("clean-release-deletes-develop-dir", "%r" % deleted, where))
            if not flags["dry"] and clean_since[mode] is True:
                clean_since[mode] = "cleaned"
                if plan[i:i + 1] != ["dev" if mode == "develop" else "build"] and rng.random() < 0.7:
                    plan.insert(i, "dev" if mode == "develop" else "build")
            # model
            fl = "{| cf_src := %s; cf_force := %s; cf_dry := %s |}" % (L.B(flags["src"]), L.B(flags["force"]), L.B(flags["dry"]))
            want = "(WClean {| w_rm := %s; w_fs := %s; w_ds := %s; w_db := %s |})" % (
                ("(Some %s)" % coq_strs(rm)) if (flags["dry"] or flags["verbose"]) else "(@None (list str))",
                coq_strs([d for d in before["fs"] if os.path.exists(os.path.join(proj, d))]), coq_ds_raw(after["ds"]),
                "(Some %s)" % coq_ostate(*after["db"]) if mode == "develop" else "(@None ostate)")
            if mode == "develop":
                cin = "(ECleanDev %s %s %s %s %s %s %s %s)" % (fl, coq_ostate(*before["db"]), L.by(bytes.fromhex(tree["ck"])), coq_tree_e2e(tree),
                                                              coq_bnmap(before["bn"]), coq_ds_raw(before["ds"]), coq_strs(before["fs"]),
                                                              coq_strs(tree["expendable"]))
            else:
                cin = "(ECleanRel %s %s %s %s %s %s)" % (fl, coq_tree_e2e(tree), coq_bnmap(before["bn"]), coq_ds_raw(before["ds"]),
                                                        coq_strs(before["fs"]), coq_strs(tree["expendable"]))
            rec["cases"].append((cin, want, {"op": argv, "history": list(history), "deleted": deleted}))
        rec["history"] = history
    except subprocess.TimeoutExpired as e:
        # an overloaded machine (a Bob invocation did not finish in time) is not a statement about the code: the
        # history ends here, what was compared so far stays
        rec["timeout"] = str(e)[:200]
    except Exception as e:
        import traceback
        rec["errors"].append({"exception": traceback.format_exc()[-2000:]})
    finally:
        shutil.rmtree(proj, ignore_errors=True)
    return rec


def e2e_start(ctx, extra):
    """launch the subprocess scenarios in worker threads (they only use absolute paths); the in-process parts run
    in the meantime"""
    nproj = ctx.n(7, 40)
    nops = ctx.n(10, 14)
    seeds = [c["seed"] for c in extra if c.get("part") == "e2e"] + [ctx.rng.randrange(1 << 30) for _ in range(nproj)]
    ex = ThreadPoolExecutor(max_workers=4)
    return ex, [ex.submit(e2e_project, sd, nops, ctx.tier) for sd in seeds]


def part_e2e(ctx, extra, started=None):
    ex, futs = started if started is not None else e2e_start(ctx, extra)
    recs = [f.result() for f in futs]
    ex.shutdown()
    nops = ctx.n(10, 14)
    cases, meta = [], []
    for rec in recs:
        for k, v in rec["counts"].items():
            ctx.count(k, v)
        if rec.get("timeout"):
            ctx.count("e2e:history-cut-short-by-a-bob-timeout(machine overload)")
            ctx.note("e2e seed %s: %s" % (rec["seed"], rec["timeout"]))
        for e in rec["errors"]:
            ctx.tie_broken("e2e-run-failed", {"part": "e2e", "seed": rec["seed"], "detail": e})
        for sig, what, where in rec["violations"]:
            ctx.violation(sig, what, where)
        for cin, want, m in rec["cases"]:
            ctx.evaluated()
            ctx.nontrivial(("e2e", rec["seed"], len(cases)))
            cases.append((cin, want))
            meta.append(dict(m, part="e2e", seed=rec["seed"], nops=nops))
        if rec.get("history"):
            ctx.sample({"part": "e2e", "seed": rec["seed"], "history": rec["history"]}, limit=8)
    bad, log = coq.run_cases(ctx, ["BobV.C16.Model"], "(fun i => i)", "e2e_ok", cases, preamble=PRE_E2E, tag="e2e", shard=12)
    if bad is None:
        ctx.tie_broken("C16 e2e model evaluation failed", log)
        return
    ctx.validated(len(cases) - len(bad))
    # A divergence between model and implementation is deterministic. Re-run the project of a mismatching case once in
    # a fresh scratch directory; only a mismatch that shows up again is reported (a transient one is counted and noted).
    for seed in sorted({meta[i]["seed"] for i in bad})[:3]:
        first = [meta[i] for i in bad if meta[i]["seed"] == seed][0]
        rec2 = e2e_project(seed, nops, ctx.tier)
        cases2 = [(a, b) for a, b, m in rec2["cases"]]
        bad2, log2 = coq.run_cases(ctx, ["BobV.C16.Model"], "(fun i => i)", "e2e_ok", cases2, preamble=PRE_E2E, tag="e2er", shard=12)
        if bad2 is None or bad2 or rec2["errors"]:
            ctx.tie_broken("e2e-correspondence", dict(first, rerun_mismatches=(bad2 or [])[:5], rerun_errors=rec2["errors"][:2]))
        else:
            ctx.count("e2e:mismatch-not-reproduced")
            ctx.note("e2e seed %d: a model/implementation mismatch at %r did not reproduce on an identical re-run" % (seed, first.get("op")))


def replay(ctx):
    with open(ctx.replay) as f:
        d = json.load(f)
    c = d.get("case", d)
    part = c.get("part")
    if part == "dev":
        snaps = run_dev_history(c["history"])
        ctx.evaluated(len(snaps))
        for s in snaps:
            print(s[0], s[2])
        dev_oracle_checks(ctx, c["history"], snaps)
        if not dev_model_agrees(c["history"]):
            ctx.tie_broken("dev-oracle-correspondence", c)
    elif part == "clean":
        ob = run_clean_case(ctx, c)
        ctx.evaluated()
        print(json.dumps({k: ob[k] for k in ("status", "argv", "fs", "after_fs", "rm")}, indent=1))
    elif part == "byname":
        part_byname_replay(ctx, c)
    elif part == "e2e":
        rec = e2e_project(c["seed"], c.get("nops", 10), "quick")
        ctx.evaluated()
        print(json.dumps({"history": rec.get("history"), "errors": rec["errors"]}, indent=1)[:4000])
        for sig, what, where in rec["violations"]:
            print("violation:", sig, what)
            ctx.violation(sig, what, where)
    else:
        print("replay of part %r: re-run ./check C16 quick with the recorded seed" % part)


def part_byname_replay(ctx, c):
    import bob.state
    d = core.scratch_dir("c16bn")
    try:
        with in_dir(d):
            fresh_state()
            try:
                seen = {}
                for op in c["ops"]:
                    if op[0] == "get":
                        r = bob.state.BobState().getByNameDirectory(op[1], op[2], op[3])
                        print(op, "->", r)
                        for g, x in seen.items():
                            if x == r and g != op[2]:
                                ctx.violation("release-dir-shared-by-different-variants", "directory %s given to two digests" % r, c)
                        if op[2] in seen and seen[op[2]] != r:
                            ctx.violation("release-dir-changed-for-existing-variant", "digest moved", c)
                        seen[op[2]] = r
                    elif op[0] == "reload":
                        bob.state.finalize()
            finally:
                fresh_state()
    finally:
        shutil.rmtree(d, ignore_errors=True)
    ctx.evaluated()
