"""C07 constants translator: reads pym/bob/builder.py, pym/bob/utils.py and
pym/bob/cmds/build/build.py of the *current* repository and emits
coq/Gen/ConstsC07.v:

  DL_TABLE         download mode x archive.canDownload() -> (downloadDepth, downloadDepthForce)
                   obtained by symbolically executing the body of
                   LocalBuilder.__setDownloadMode (a tiny fail-closed evaluator
                   for exactly the statement shapes that occur there),
  DL_DEFAULT_*     the initial values from LocalBuilder.__init__,
  DL_MODES         the mode names accepted by the command line,
  PLATFORM_TAGS    every value getPlatformTag() can return.

Fail-closed (TieError) when the source no longer has the expected shape."""
import ast
from vlib.gen_consts import parse, find_def, coq_str, coq_strs, TieError

NAME = "ConstsC07"


class _Ret(Exception):
    pass


def _self_attr(node):
    """self.__x  -> '__x' ; anything else -> None"""
    if isinstance(node, ast.Attribute) and isinstance(node.value, ast.Name) and node.value.id == "self":
        return node.attr
    return None


def _eval_expr(n, env):
    if isinstance(n, ast.Constant):
        return n.value
    if isinstance(n, ast.Name):
        if n.id in env:
            return env[n.id]
        raise TieError("__setDownloadMode: unknown name %s" % n.id)
    if isinstance(n, ast.Tuple) or isinstance(n, ast.List):
        return tuple(_eval_expr(e, env) for e in n.elts)
    if isinstance(n, ast.Compare) and len(n.ops) == 1:
        l = _eval_expr(n.left, env)
        r = _eval_expr(n.comparators[0], env)
        op = n.ops[0]
        if isinstance(op, ast.In):
            return l in r
        if isinstance(op, ast.Eq):
            return l == r
        if isinstance(op, ast.NotEq):
            return l != r
        raise TieError("__setDownloadMode: unsupported comparison %s" % ast.dump(op))
    if isinstance(n, ast.Call):
        f = n.func
        # self.__archive.canDownload()
        if isinstance(f, ast.Attribute) and f.attr == "canDownload" and _self_attr(f.value) == "__archive" and not n.args:
            return env["@can"]
        # mode.startswith('packages=')
        if isinstance(f, ast.Attribute) and f.attr == "startswith" and isinstance(f.value, ast.Name) \
                and f.value.id == "mode" and len(n.args) == 1:
            return env["mode"].startswith(_eval_expr(n.args[0], env))
        raise TieError("__setDownloadMode: unsupported call %s" % ast.unparse(n))
    raise TieError("__setDownloadMode: unsupported expression %s" % ast.unparse(n))


def _exec(stmts, env):
    for s in stmts:
        if isinstance(s, ast.Assign) and len(s.targets) == 1 and _self_attr(s.targets[0]):
            a = _self_attr(s.targets[0])
            if a in ("__downloadDepth", "__downloadDepthForce"):
                v = _eval_expr(s.value, env)
                if not isinstance(v, int):
                    raise TieError("__setDownloadMode: %s assigned a non-integer" % a)
                env["@" + a] = v
            elif a == "__downloadPackages":
                env["@packages"] = True
            else:
                raise TieError("__setDownloadMode: assignment to unexpected attribute %s" % a)
        elif isinstance(s, ast.If):
            if _eval_expr(s.test, env):
                _exec(s.body, env)
            else:
                _exec(s.orelse, env)
        elif isinstance(s, ast.Try):
            # try: self.__downloadPackages = re.compile(...)  except re.error: raise
            _exec(s.body, env)
        elif isinstance(s, ast.Assert):
            if not _eval_expr(s.test, env):
                raise TieError("__setDownloadMode: assertion fails for mode %r" % env["mode"])
        elif isinstance(s, ast.Expr) and isinstance(s.value, ast.Constant):
            pass
        else:
            raise TieError("__setDownloadMode: unsupported statement %s" % ast.unparse(s)[:80])


def facts():
    t = parse("pym/bob/builder.py")
    init = find_def(t, "LocalBuilder.__init__")
    defaults = {}
    for n in ast.walk(init):
        if isinstance(n, ast.Assign) and len(n.targets) == 1 and _self_attr(n.targets[0]) in (
                "__downloadDepth", "__downloadDepthForce", "__uploadDepth"):
            if not (isinstance(n.value, ast.Constant) and isinstance(n.value.value, int)):
                raise TieError("LocalBuilder.__init__: %s is not an integer literal" % _self_attr(n.targets[0]))
            defaults[_self_attr(n.targets[0])] = n.value.value
    if set(defaults) != {"__downloadDepth", "__downloadDepthForce", "__uploadDepth"}:
        raise TieError("LocalBuilder.__init__: download/upload depth defaults not found: %r" % sorted(defaults))
    f = find_def(t, "LocalBuilder.__setDownloadMode")
    if [a.arg for a in f.args.args] != ["self", "mode"]:
        raise TieError("__setDownloadMode signature changed")
    # the mode names the command line accepts
    b = parse("pym/bob/cmds/build/build.py")
    g = find_def(b, "commonBuildDevelop")
    modes = None
    for n in ast.walk(g):
        if isinstance(n, ast.FunctionDef) and n.name == "_downloadArgument":
            lists = [x for x in ast.walk(n) if isinstance(x, ast.List) and x.elts and all(isinstance(e, ast.Constant) for e in x.elts)]
            if len(lists) != 1 or "packages=" not in ast.unparse(n):
                raise TieError("_downloadArgument changed shape")
            modes = [e.value for e in lists[0].elts]
    if not modes:
        raise TieError("_downloadArgument not found")
    table = []
    for mode in modes + ["packages=x"]:
        for can in (False, True):
            env = {"mode": mode, "@can": can, "@packages": False,
                   "@__downloadDepth": defaults["__downloadDepth"],
                   "@__downloadDepthForce": defaults["__downloadDepthForce"]}
            _exec(f.body, env)
            table.append((mode.split("=")[0], can, env["@__downloadDepth"], env["@__downloadDepthForce"], env["@packages"]))
    # upload depth of the local upload mode
    u = find_def(t, "LocalBuilder.setLocalUploadMode")
    ups = [n.value.value for n in ast.walk(u) if isinstance(n, ast.Assign) and _self_attr(n.targets[0]) == "__uploadDepth"
           and isinstance(n.value, ast.Constant)]
    if len(ups) != 1:
        raise TieError("setLocalUploadMode: upload depth literal not found")
    # platform tags
    ut = parse("pym/bob/utils.py")
    p = find_def(ut, "getPlatformTag")
    consts = sorted({n.value for n in ast.walk(p) if isinstance(n, ast.Constant) and isinstance(n.value, bytes)})
    if consts != [b"", b"l", b"m", b"w"]:
        raise TieError("getPlatformTag: byte literals changed: %r" % consts)
    src = ast.unparse(p)
    if "ret += b'l'" not in src:
        raise TieError("getPlatformTag: symlink suffix no longer appended")
    tags = [b"", b"w", b"wl", b"m", b"ml"]
    return {"table": table, "defaults": defaults, "modes": modes, "upload": ups[0], "tags": tags}


def extract(out):
    f = facts()
    out.append("(* consts_c07: LocalBuilder.__setDownloadMode / __init__ / setLocalUploadMode, getPlatformTag *)")
    rows = ["(%s, %s, %d, %d, %s)" % (coq_str(m), "true" if c else "false", d, fd, "true" if p else "false")
            for (m, c, d, fd, p) in f["table"]]
    out.append("Definition DL_TABLE : list (list N * bool * N * N * bool) := [%s]." % "; ".join(rows))
    out.append("Definition DL_DEFAULT_DEPTH : N := %d." % f["defaults"]["__downloadDepth"])
    out.append("Definition DL_DEFAULT_FORCE : N := %d." % f["defaults"]["__downloadDepthForce"])
    out.append("Definition UPLOAD_DEPTH_LOCAL : N := %d." % f["upload"])
    out.append("Definition DL_MODES : list (list N) := %s." % coq_strs(f["modes"]))
    out.append("Definition PLATFORM_TAGS : list (list N) := [%s]." % "; ".join(
        "[" + ";".join(str(b) for b in t) + "]" if t else "(@nil N)" for t in f["tags"]))
