"""C14 — Audit trails are complete and truthful.

Correspondence (model coq/C14/Model.v evaluated with vm_compute + executable
SHA-1 vs. the implementation of the *current* repository):
  1. digest_data vs bob.audit.digestData on generated JSON-like values;
  2. generate_file vs the real LocalBuilder._generateAudit driven in-process
     with synthetic step objects over random dependency DAGs (artifact id and
     the exact order of the reference list), validate / referenced_build_ids vs
     Audit.__validate / getReferencedBuildIds on the resulting (and on
     mutilated) trails;
  3. real `bob dev` builds of generated projects (fresh, incremental, upload +
     partial download into a second checkout, shared packages, sandbox): every
     audit.json.gz next to a visited workspace, inside every uploaded artifact
     and in the share store; artifact ids recomputed by the model, generate_file
     re-run for trails written by the last invocation.
Oracle (independent of the model): Audit.SCHEMA, an own closure walk, field by
field comparison with the live step ids / fresh hashDirectory / recipe data.
"""
import asyncio, contextlib, copy, glob, gzip, hashlib, io, json, os, re, shutil, subprocess, sys, tarfile, time
from concurrent.futures import ThreadPoolExecutor
from vlib import coq, coqlit as L, proj, core

PROPERTY_FILES = ["C14/Properties.v"]
EXTRA_TARGETS = ["C14/Sha1Fast.vo"]
REQ = ["BobV.Common.Sha1", "BobV.Ids.Model", "BobV.C14.Model", "BobV.C14.Sha1Fast"]
SHA = "sha1f"          # Common/Sha1.v ported to primitive integers (cross-checked there); only used to run the model
PRE = "From Coq Require Import ZArith.\n"

# ------------------------------------------------------------------ Coq literals

def val(v):
    if isinstance(v, bool): return "(VBool %s)" % L.B(v)
    if isinstance(v, str): return "(VStr %s)" % L.s(v)
    if isinstance(v, dict): return "(VMap %s)" % L.lst([L.pair(L.s(k), val(x)) for k, x in v.items()])
    if isinstance(v, (list, tuple)): return "(VList %s)" % L.lst([val(x) for x in v])
    if isinstance(v, int): return "(VInt %s)" % L.Z(v)
    if isinstance(v, bytes): return "(VBytes %s)" % L.by(v)
    if v is None: return "VNone"
    raise TypeError(repr(v))


def smap(d):
    return "(%s : list (str * str))" % L.lst([L.pair(L.s(k), L.s(v)) for k, v in d.items()])


def hx(s):
    return L.by(bytes.fromhex(s))


KNOWN_KEYS = {"variant-id", "build-id", "result-hash", "artifact-id", "meta", "build", "env", "metaEnv", "files",
              "scms", "recipes", "layers", "dependencies"}


def art(rec, with_id=True):
    """JSON record -> artifact literal (typed as Artifact.SCHEMA says)"""
    if set(rec) - KNOWN_KEYS or set(rec["dependencies"]) - {"args", "tools", "sandbox"}:
        raise ValueError("unknown keys")
    dep = rec["dependencies"]
    f = [
        "a_vid := %s" % hx(rec["variant-id"]), "a_bid := %s" % hx(rec["build-id"]),
        "a_rhash := %s" % hx(rec["result-hash"]), "a_meta := %s" % smap(rec["meta"]),
        "a_build := %s" % smap(rec["build"]), "a_env := %s" % L.s(rec["env"]),
        "a_metaenv := %s" % (("(Some %s)" % smap(rec["metaEnv"])) if "metaEnv" in rec else "None"),
        "a_files := %s" % (("(Some %s)" % smap(rec["files"])) if "files" in rec else "None"),
        "a_scms := (%s : list value)" % L.lst([val(x) for x in rec["scms"]]),
        "a_recipes := %s" % (("(Some %s)" % val(rec["recipes"])) if "recipes" in rec else "None"),
        "a_layers := %s" % (("(Some (%s : list (str * value)))" % L.lst([L.pair(L.s(k), val(v)) for k, v in rec["layers"].items()]))
                            if "layers" in rec else "None"),
        "a_args := %s" % (("(Some (%s : list bytes))" % L.lst([hx(x) for x in dep["args"]])) if "args" in dep else "None"),
        "a_tools := %s" % (("(Some (%s : list (str * bytes)))" % L.lst([L.pair(L.s(k), hx(v)) for k, v in dep["tools"].items()]))
                           if "tools" in dep else "None"),
        "a_sandbox := %s" % (("(Some %s)" % hx(dep["sandbox"])) if "sandbox" in dep else "None"),
        "a_id := %s" % (("(Some %s)" % hx(rec["artifact-id"])) if (with_id and "artifact-id" in rec) else "None"),
    ]
    return "{| " + "; ".join(f) + " |}"


class Registry:
    """records defined once in the preamble and referred to by name"""
    def __init__(self):
        self.names = {}
        self.defs = []

    def rec(self, r):
        key = hashlib.sha1(json.dumps(r, sort_keys=True).encode()).hexdigest()
        if key not in self.names:
            nm = "r_%d" % len(self.names)
            self.names[key] = nm
            self.defs.append("Definition %s : artifact := %s.\n" % (nm, art(r)))
        return self.names[key]

    def afile(self, tree):
        return "(%s, (%s : list artifact))" % (self.rec(tree["artifact"]), L.lst([self.rec(r) for r in tree["references"]]))

    def preamble(self):
        return PRE + "".join(self.defs)


SUMM = ("Definition summ (o : option afile) : option (bytes * list bytes) :=\n"
        "  match o with Some f => Some (match a_id (fst f) with Some i => i | None => [] end,\n"
        "     flat_map (fun r => match a_id r with Some i => [i] | None => [] end) (snd f)) | None => None end.\n"
        "Definition eq_summ := eqb_option (eqb_prod eqb_str (eqb_list eqb_str)).\n"
        "Definition seteq (a b : list bytes) := forallb (fun x => mem x b) a && forallb (fun x => mem x a) b.\n"
        "Definition verdict (f : afile) : bool * option (list bytes) :=\n"
        "  match load f with Some au => (match validate au with VOk => true | _ => false end, referenced_build_ids 4000 au)\n"
        "  | None => (false, None) end.\n"
        "Definition eq_verdict (a b : bool * option (list bytes)) := Bool.eqb (fst a) (fst b) && eqb_option seteq (snd a) (snd b).\n")

# ------------------------------------------------------------------ oracle (independent of the model)

def refs_of(rec):
    d = rec["dependencies"]
    out = list(d.get("args", []))
    if "sandbox" in d: out.append(d["sandbox"])
    out.extend(d.get("tools", {}).values())
    return out


def closure_missing(tree):
    """own closure walk: ids reachable from the artifact that have no record"""
    have = {r["artifact-id"]: r for r in tree["references"]}
    seen, todo, missing = set(), list(refs_of(tree["artifact"])), []
    while todo:
        i = todo.pop()
        if i in seen: continue
        seen.add(i)
        r = have.get(i)
        if r is None:
            missing.append(i)
            continue
        todo.extend(refs_of(r))
    return sorted(missing)


def schema_error(tree):
    from bob.audit import Audit
    import schema
    try:
        Audit.SCHEMA.validate(tree)
        return None
    except schema.SchemaError as e:
        return str(e)[:300]


def canonical_hex(rec):
    ids = [rec["variant-id"], rec["build-id"], rec["result-hash"], rec.get("artifact-id", "")] + refs_of(rec)
    return all(i == i.lower() and len(i) % 2 == 0 for i in ids)


def impl_id(rec):
    """artifact id of a record as the implementation's digest computes it"""
    from bob.audit import digestData
    h = hashlib.sha1()
    digestData({k: v for k, v in rec.items() if k != "artifact-id"}, h)
    return h.hexdigest()


def read_trail(path):
    with gzip.open(path, "rb") as f:
        return json.load(io.TextIOWrapper(f, encoding="utf8"))


class Obs:
    """what one worker found; merged into ctx by the main thread"""
    def __init__(self):
        self.violations = []     # (signature, what, replay)
        self.counts = {}
        self.records = {}        # artifact-id -> record (for the model recomputation)
        self.gen_cases = []      # (gen_in description dict) for generate_file
        self.trails = 0
        self.nontrivial = []
        self.notes = []
        self.samples = []
        self.ties = []

    def count(self, k, n=1):
        self.counts[k] = self.counts.get(k, 0) + n

    def viol(self, sig, what, replay):
        self.violations.append((sig, what, replay))


def check_tree(obs, tree, where, replay):
    """structure: schema, closure, canonical ids, id of every record is what the implementation's digest gives"""
    e = schema_error(tree)
    if e:
        obs.viol("trail-violates-schema", "%s: audit trail does not conform to Audit.SCHEMA: %s" % (where, e), replay)
        return False
    miss = closure_missing(tree)
    if miss:
        obs.viol("trail-not-closed", "%s: audit trail misses the records of %d referenced artifacts (first %s)"
                 % (where, len(miss), miss[0]), replay)
    ok = not miss
    for r in [tree["artifact"]] + tree["references"]:
        if not canonical_hex(r):
            obs.viol("trail-noncanonical-hex", "%s: ids are not lower-case hex" % where, replay)
            ok = False
        if impl_id(r) != r["artifact-id"]:
            obs.viol("artifact-id-not-function-of-record",
                     "%s: recorded artifact-id %s is not the digest of the record (%s)" % (where, r["artifact-id"], impl_id(r)),
                     dict(replay, record=r))
            ok = False
        obs.records.setdefault(r["artifact-id"], r)
    ids = [r["artifact-id"] for r in tree["references"]]
    if len(set(ids)) != len(ids):
        obs.viol("trail-duplicate-reference", "%s: reference list holds an artifact id twice" % where, replay)
        ok = False
    obs.trails += 1
    return ok


def check_deps(obs, tree, want_args, want_tools, want_sandbox, where, replay, by_content):
    """completeness: the dependencies name exactly the valid arguments, the tools and the sandbox, and the
    referenced records are the records of those steps (variant-id, and result-hash = their content now)"""
    a = tree["artifact"]
    have = {r["artifact-id"]: r for r in tree["references"]}
    dep = a["dependencies"]
    ok = True

    def cmp(kind, rid, want):
        r = have.get(rid)
        if r is None:
            return False   # reported by the closure check
        if by_content:
            good = r["variant-id"] == want["vid"] and (want["hash"] is None or r["result-hash"] == want["hash"])
        else:
            good = rid == want["aid"]
        if not good:
            obs.viol("trail-dependency-record-wrong:%s" % kind,
                     "%s: the %s record %s (variant-id %s result-hash %s) is not the trail of the dependency %s"
                     % (where, kind, rid, r["variant-id"], r["result-hash"], want), replay)
        return good

    args = dep.get("args", [])
    if len(args) != len(want_args):
        obs.viol("trail-arguments-incomplete", "%s: %d arguments recorded, the step has %d valid arguments"
                 % (where, len(args), len(want_args)), replay)
        ok = False
    else:
        for rid, w in zip(args, want_args):
            ok &= cmp("argument", rid, w)
    tools = dep.get("tools", {})
    if sorted(tools) != sorted(want_tools):
        obs.viol("trail-tools-incomplete", "%s: tools recorded %s, used %s" % (where, sorted(tools), sorted(want_tools)), replay)
        ok = False
    else:
        for n, rid in tools.items():
            ok &= cmp("tool", rid, want_tools[n])
    if ("sandbox" in dep) != (want_sandbox is not None):
        obs.viol("trail-sandbox-missing", "%s: sandbox recorded: %s, used: %s" % (where, "sandbox" in dep, want_sandbox is not None), replay)
        ok = False
    elif want_sandbox is not None:
        ok &= cmp("sandbox", dep["sandbox"], want_sandbox)
    return ok


# ------------------------------------------------------------------ phase 1: digest of values

NASTY_STR = ["", "a", "abc", "é", "€uro", "\U0001F600", "a\x00b", "\x7f\x80\xff", "߿ࠀ￿\U00010000\U0010ffff",
             "artifact-id", "Z", "aa", "a" * 300, "\n\t\"\\", "ß", "퟿"]


def gen_value(rng, depth=0):
    k = rng.random()
    if depth > 3: k = rng.random() * 0.55
    if k < 0.25: return rng.choice(NASTY_STR) if rng.random() < 0.7 else "".join(chr(rng.choice([rng.randrange(32, 127), rng.randrange(128, 0x800), rng.randrange(0x800, 0xd800), rng.randrange(0x10000, 0x110000)])) for _ in range(rng.randrange(0, 9)))
    if k < 0.35: return rng.choice([0, 1, -1, 255, 256, 2**31, 2**32, 2**63 - 1, -2**63, -256, rng.randrange(-2**63, 2**63)])
    if k < 0.43: return rng.random() < 0.5
    if k < 0.48: return None
    if k < 0.55: return bytes(rng.randrange(256) for _ in range(rng.choice([0, 1, 2, 20, 300])))
    if k < 0.78:
        return [gen_value(rng, depth + 1) for _ in range(rng.choice([0, 1, 2, 3, 5]))]
    d = {}
    for _ in range(rng.choice([0, 1, 2, 3, 6])):
        key = rng.choice(NASTY_STR) if rng.random() < 0.6 else "k%d" % rng.randrange(30)
        d[key] = gen_value(rng, depth + 1)
    return d


def kind_of(v):
    return type(v).__name__


def phase_values(ctx, n):
    from bob.audit import digestData
    cases, raw = [], []
    for i in range(n):
        v = gen_value(ctx.rng)
        if i < 8:
            v = [{"b": True, "a": 1}, {"x": [True, 1, False, 0]}, {"é": "é", "e": "e", "f": "", "": "f"},
                 [None, b"", "", [], {}], {"a": {"a": {"a": {"a": []}}}}, -2**63, "\U0010ffff", {"k": b"\x00" * 256}][i]
        h = hashlib.sha1()
        digestData(v, h)
        cases.append((val(v), L.by(h.digest())))
        raw.append(v)
        ctx.evaluated()
        ctx.count("value:" + kind_of(v))
        ctx.nontrivial(("value", repr(v)[:200]))
    bad, log = coq.run_cases(ctx, REQ, "(fun v => %s (digest_data v))" % SHA, "eqb_str", cases, preamble=PRE, tag="c14v", shard=60)
    if bad is None:
        ctx.tie_broken("digest_data-model-not-evaluable", log[-1500:])
    elif bad:
        ctx.tie_broken("digest_data-disagrees-with-digestData",
                       {"n": len(bad), "first": repr(raw[bad[0]])[:500]})
    else:
        ctx.validated(len(cases))
    # the property on the implementation: equal dicts (any insertion order) -> equal digest; True/1 aside, unequal -> unequal
    for i in range(n):
        v = gen_value(ctx.rng)
        if not isinstance(v, dict) or len(v) < 2:
            continue
        items = list(v.items())
        ctx.rng.shuffle(items)
        h1, h2 = hashlib.sha1(), hashlib.sha1()
        digestData(v, h1)
        digestData(dict(items), h2)
        ctx.evaluated()
        if h1.digest() != h2.digest():
            ctx.violation("artifact-id-depends-on-insertion-order", "digestData differs for the same dict in another insertion order",
                          {"kind": "value-order", "value": repr(v)})


# ------------------------------------------------------------------ phase 2: the real _generateAudit on synthetic steps

class _Lang:
    class index:
        value = "bash"


class FScmAudit:
    def __init__(self, d): self.d = d
    def dump(self): return copy.deepcopy(self.d)


class FRecipeSet:
    def __init__(self, audits): self.audits = audits
    async def getScmAudit(self): return self.audits


class FRecipe:
    scriptLanguage = _Lang
    def __init__(self, name, rs): self.name, self.rs = name, rs
    def getName(self): return self.name
    def getRecipeSet(self): return self.rs


class FPackage:
    def __init__(self, recipe, stack, metaEnv): self.recipe, self.stack, self.metaEnv = recipe, stack, metaEnv
    def getRecipe(self): return self.recipe
    def getStack(self): return self.stack
    def getName(self): return self.stack[-1]
    def getMetaEnv(self): return self.metaEnv


class FScm:
    def __init__(self, spec): self.spec = spec
    def getAuditSpec(self): return self.spec


class FTool:
    def __init__(self, step): self.step = step
    def getStep(self): return self.step


class FStep:
    def __init__(self, **kw): self.__dict__.update(kw)
    def getWorkspacePath(self): return self.ws
    def getVariantId(self): return self.vid
    def getPackage(self): return self.pkg
    def getLabel(self): return self.label
    def getAuditFileNames(self): return self.auditFiles
    def getTools(self): return {n: FTool(s) for n, s in self.tools.items()}
    def getSandbox(self): return FTool(self.sandbox) if self.sandbox is not None else None
    def getArguments(self): return self.args
    def isValid(self): return self.valid
    def isCheckoutStep(self): return self.label == "src"
    def getScmList(self): return [FScm(s) for s in self.scms]


META_VALS = ["MIT", "GPL-2.0", "é€", "", "x y", "a\nb", "\U0001F600", "q\"'"]


def synth_dag(ctx, obs, rng, base, reg, index):
    """drive LocalBuilder._generateAudit over a random DAG of synthetic steps"""
    from bob.builder import LocalBuilder
    from bob.utils import hashDirectory
    n = rng.randint(3, 7)
    meta = {} if rng.random() < 0.5 else {"ticket": "T-%d" % rng.randrange(100), "bob": "overridden?", "who": rng.choice(META_VALS)}
    builder = LocalBuilder(0, False, False, False, False, set(), "", False, True)
    builder.setAuditMeta(meta)
    recipes_audit = rng.choice([{}, {"": FScmAudit({"type": "git", "dir": ".", "remotes": {}, "commit": "c" * 40,
                                                   "description": "c-dirty", "dirty": True, "submodules": False})},
                                {"": FScmAudit({"type": "git", "dir": ".", "remotes": {"origin": "u"}, "commit": "d" * 40,
                                                "description": "d", "dirty": False}),
                                 "lay/er": FScmAudit({"type": "git", "dir": ".", "remotes": {}, "commit": "e" * 40,
                                                      "description": "e", "dirty": False}), "unman": None}])
    rs = FRecipeSet(recipes_audit)
    steps = []
    invalid = FStep(ws="/invalid/exec/path/of/x", vid=b"\0" * 20, pkg=FPackage(FRecipe("inv", rs), ["inv"], {}), label="build",
                    auditFiles={}, tools={}, sandbox=None, args=[], valid=False, scms=[])
    made = 0

    def trail_of(st):
        return os.path.join(os.path.dirname(st.ws), "audit.json.gz")

    def make(st, executed=True, tag="gen"):
        """one call of the real _generateAudit + expectations"""
        nonlocal made
        made += 1
        os.makedirs(st.ws, exist_ok=True)
        with open(os.path.join(st.ws, "out.txt"), "w") as f:
            f.write("content %d %d %d\n" % (index, st.num, made if rng.random() < 0.3 else 0))
        env_txt = "declare -x N=\"%d\"\ndeclare -x V=\"%s\"\n" % (st.num, rng.choice(META_VALS))
        with open(os.path.join(st.ws, "..", "env"), "w", encoding="utf8") as f:
            f.write(env_txt)
        for var, (fn, enc) in st.auditFiles.items():
            with open(os.path.join(st.ws, fn), "w", encoding="utf8") as f:
                f.write("file %s é\n" % var)
        rhash = hashDirectory(st.ws)
        bid = rhash if st.label == "src" else hashlib.sha1(b"bid%d.%d.%d" % (index, st.num, made)).digest()
        # dependency trails as they are on disk now
        def cur(s):
            p = trail_of(s)
            return read_trail(p) if os.path.exists(p) else None
        tools_now = {nm: cur(s) for nm, s in st.tools.items()}
        sb_now = cur(st.sandbox) if st.sandbox is not None else None
        args_now = [(a.valid, cur(a) if a.valid else None) for a in st.args]
        out = io.StringIO()
        with contextlib.redirect_stdout(out), contextlib.redirect_stderr(out):
            try:
                ret = asyncio.run(builder._generateAudit(st, 0, rhash, bid, executed))
                err = None
            except Exception as e:   # BuildError etc.
                ret, err = None, "%s: %s" % (type(e).__name__, e)
        ctx.evaluated()
        obs.count("synth:%s:%s" % (st.label, tag))
        path = trail_of(st)
        replay = {"kind": "synthetic-generate", "dag": index, "step": st.num, "label": st.label, "executed": executed,
                  "tools": sorted(st.tools), "sandbox": st.sandbox is not None and st.sandbox.num,
                  "args": [(a.num if a.valid else None) for a in st.args]}
        deps_readable = (not executed) or (all(t is not None for t in tools_now.values()) and
                                           (st.sandbox is None or sb_now is not None) and all(t is not None for v, t in args_now if v))
        tree = read_trail(path) if os.path.exists(path) else None
        if err is not None and deps_readable:
            obs.viol("generate-audit-raises", "_generateAudit raised %s although all dependency trails are readable" % err, replay)
            return
        if tree is None:
            if deps_readable:
                obs.viol("built-step-without-trail", "_generateAudit wrote no trail although all dependency trails are readable (%s)"
                         % out.getvalue().strip()[-200:], replay)
            else:
                obs.count("synth:unreadable-dependency->no-trail")
            expected = "(@None (bytes * list bytes))"
        else:
            if ret != path:
                obs.viol("generate-audit-return", "_generateAudit returned %r, trail is at %r" % (ret, path), replay)
            if not deps_readable:
                obs.viol("trail-written-with-unreadable-dependency", "a trail was written although a dependency trail is missing", replay)
            a = tree["artifact"]
            okk = check_tree(obs, tree, "synthetic step %d/%d" % (index, st.num), replay)
            # truthfulness of the ids and names
            want_meta = dict(meta)
            from bob import BOB_VERSION
            want_meta.update({"bob": BOB_VERSION, "recipe": st.pkg.recipe.name, "package": "/".join(st.pkg.stack),
                              "step": st.label, "language": "bash"})
            exp = {"variant-id": st.vid.hex(), "build-id": bid.hex(), "result-hash": rhash.hex(), "meta": want_meta,
                   "env": env_txt if executed else ""}
            for k, v in exp.items():
                if a.get(k) != v:
                    obs.viol("trail-field-wrong:%s" % k, "synthetic step: recorded %s is %r, actual %r" % (k, a.get(k), v), replay)
            if a.get("metaEnv", {}) != st.pkg.metaEnv:
                obs.viol("trail-field-wrong:metaEnv", "recorded metaEnv %r, package has %r" % (a.get("metaEnv"), st.pkg.metaEnv), replay)
            want_files = {var: "file %s é\n" % var for var in st.auditFiles}
            if a.get("files", {}) != want_files:
                obs.viol("trail-field-wrong:files", "recorded files %r, expected %r" % (a.get("files"), want_files), replay)
            want_rec = recipes_audit.get("")
            if (a.get("recipes") if want_rec else "recipes" not in a) != (want_rec.d if want_rec else True):
                obs.viol("trail-field-wrong:recipes", "recipes record %r" % (a.get("recipes"),), replay)
            want_scms = [{"type": "import", "dir": d, "digest": {"algorithm": "sha1", "value": hashDirectory(os.path.join(st.ws, d)).hex()},
                          "url": x["url"]} for (t, d, x) in st.scms] if st.label == "src" else []
            if a["scms"] != want_scms:
                obs.viol("trail-field-wrong:scms", "recorded scms %r, the checkout is %r" % (a["scms"], want_scms), replay)
            if executed:
                def want(t):
                    return {"aid": t["artifact"]["artifact-id"]}
                check_deps(obs, tree, [want(t) for v, t in args_now if v], {nm: want(t) for nm, t in tools_now.items()},
                           want(sb_now) if st.sandbox is not None else None, "synthetic step %d/%d" % (index, st.num), replay, False)
                # transitive completeness: everything the dependency trails hold is here, unchanged
                have = {r["artifact-id"]: r for r in tree["references"]}
                for t in [t for v, t in args_now if v] + list(tools_now.values()) + ([sb_now] if st.sandbox is not None else []):
                    for r in [t["artifact"]] + t["references"]:
                        if have.get(r["artifact-id"]) != r:
                            obs.viol("trail-drops-transitive-record", "record %s of a dependency trail is not in the references" % r["artifact-id"], replay)
                            break
            elif a["dependencies"] != {} or tree["references"]:
                obs.viol("trail-deps-of-unexecuted-step", "a trail generated without executing lists dependencies", replay)
            obs.nontrivial.append(("synth", index, st.num, made, len(tree["references"])))
            expected = "(Some (%s, (%s : list bytes)))" % (hx(a["artifact-id"]), L.lst([hx(r["artifact-id"]) for r in tree["references"]]))
            build_info = a["build"]
        if tree is None:
            # any build info will do: the model must say "no trail" as well
            build_info = {"sysname": "x"}
        # ---- the same call on the model
        def of(t):
            return "(@None afile)" if t is None else "(Some %s)" % reg.afile(t)
        g = ("{| g_vid := %s; g_bid := %s; g_rhash := %s; g_build := %s; g_meta := %s; g_metaenv := %s; g_recipes := %s; "
             "g_layers := (%s : list (str * value)); g_files := %s; g_executed := %s; g_env := %s; "
             "g_tools := (%s : list (str * option afile)); g_sandbox := %s; g_args := (%s : list (bool * option afile)); "
             "g_scms := (%s : list value) |}") % (
            L.by(st.vid), L.by(bid), L.by(rhash), smap(build_info),
            smap(_meta_list(meta, st)),
            smap(st.pkg.metaEnv),
            ("(Some %s)" % val(recipes_audit[""].d)) if recipes_audit.get("") else "None",
            L.lst([L.pair(L.s(k), val(v.d if v else None)) for k, v in recipes_audit.items() if k != ""]),
            smap({var: "file %s é\n" % var for var in st.auditFiles}),
            L.B(executed), L.s(env_txt),
            L.lst([L.pair(L.s(nm), of(t)) for nm, t in tools_now.items()]),
            ("(Some %s)" % of(sb_now)) if st.sandbox is not None else "None",
            L.lst([L.pair(L.B(v), of(t)) for v, t in args_now]),
            L.lst([val(x) for x in (tree["artifact"]["scms"] if tree else [])]))
        obs.gen_cases.append((g, expected, replay))
        return tree

    for i in range(n):
        label = rng.choice(["src", "build", "dist", "dist"]) if i else "src"
        earlier = [s for s in steps]
        args, tools, sandbox = [], {}, None
        if label != "src" or rng.random() < 0.3:
            for s in rng.sample(earlier, min(len(earlier), rng.choice([0, 1, 1, 2, 3]))):
                args.append(s)
            if args and rng.random() < 0.3:
                args.append(rng.choice(args))            # the same argument twice
            if rng.random() < 0.4:
                args.insert(rng.randrange(len(args) + 1), invalid)
            dists = [s for s in earlier if s.label == "dist"]
            for s in rng.sample(dists, min(len(dists), rng.choice([0, 0, 1, 2]))):
                tools[rng.choice(["z-tool", "a-tool", "é-tool", "tool%d" % s.num])] = s
            if dists and rng.random() < 0.3:
                sandbox = rng.choice(dists)
        ws = os.path.join(base, "d%d" % index, label, "s%d" % i, "workspace")
        st = FStep(ws=ws, num=i, vid=hashlib.sha1(b"vid%d.%d" % (index, i)).digest(),
                   pkg=FPackage(FRecipe("rec%d" % i, rs), ["root", "p%d" % i] if i else ["root"],
                                {} if rng.random() < 0.5 else {"LICENSE": rng.choice(META_VALS), "URL": "http://x/é"}),
                   label=label, auditFiles=({} if rng.random() < 0.7 else {"CFG": ("cfg.txt", "utf8")}),
                   tools=tools, sandbox=sandbox, args=args, valid=True,
                   scms=([("import", ".", {"url": "src/x%d" % i})] if label == "src" and rng.random() < 0.7 else []))
        make(st, executed=(label != "src" or rng.random() < 0.8))
        steps.append(st)
    # rebuild something in the middle, then one (not every) of its users: two generations of one step meet further up
    if len(steps) > 2:
        mid = rng.choice(steps[:-1])
        make(mid, tag="regen")
        users = [s for s in steps if mid in s.args or mid in s.tools.values() or s.sandbox is mid]
        if users:
            make(rng.choice(users), tag="regen-user")
        make(steps[-1], tag="regen-top")
    # a dependency whose trail is gone
    if rng.random() < 0.35 and len(steps) > 1:
        victim = rng.choice([s for s in steps if s.args and any(a.valid for a in s.args)] or [None])
        if victim is not None:
            dep = [a for a in victim.args if a.valid][0]
            p = trail_of(dep)
            if os.path.exists(p):
                os.unlink(p)
                for q in glob.glob(p + ".pickle"): os.unlink(q)
                make(victim, tag="missing-dep")
    return [trail_of(s) for s in steps]


def _meta_list(meta, st):
    from bob import BOB_VERSION
    return dict(list(meta.items()) + [("bob", BOB_VERSION), ("recipe", st.pkg.recipe.name), ("package", "/".join(st.pkg.stack)),
                                      ("step", st.label), ("language", "bash")])


def impl_verdict(path_or_tree, tmpdir, k):
    """Audit.__validate and getReferencedBuildIds of the implementation on a trail"""
    from bob.audit import Audit
    from bob.errors import BobError
    if isinstance(path_or_tree, dict):
        p = os.path.join(tmpdir, "mut%d.json.gz" % k)
        with gzip.open(p, "wb") as f:
            f.write(json.dumps(path_or_tree).encode("utf8"))
    else:
        p = path_or_tree
    try:
        with gzip.open(p, "rb") as f:
            au = Audit.fromByteStream(f, p)
    except BobError:
        return None
    try:
        au._Audit__validate()
        ok = True
    except BobError:
        ok = False
    try:
        rbi = [b.hex() for b in au.getReferencedBuildIds()]
    except KeyError:
        rbi = None
    return ok, rbi


def phase_synth(ctx, obs, n_dags, base):
    reg = Registry()
    vcases, vraw = [], []
    k = 0
    for index in range(n_dags):
        trails = synth_dag(ctx, obs, ctx.rng, base, reg, index)
        for p in trails:
            if not os.path.exists(p):
                continue
            tree = read_trail(p)
            variants = [("intact", tree)]
            if tree["references"]:
                t2 = copy.deepcopy(tree)
                del t2["references"][ctx.rng.randrange(len(t2["references"]))]
                variants.append(("record-dropped", t2))
            if ctx.rng.random() < 0.2:
                t3 = copy.deepcopy(tree)
                t3["artifact"]["dependencies"].setdefault("args", []).append("ab" * 20)
                variants.append(("dangling-argument", t3))
            for tag, t in variants:
                k += 1
                iv = impl_verdict(t, base, k)
                if iv is None:
                    continue
                ok, rbi = iv
                ctx.evaluated()
                obs.count("validate:%s:%s" % (tag, "ok" if ok else "incomplete"))
                # oracle for the closure walk itself
                if ok != (not closure_missing(t)):
                    obs.viol("validate-wrong-verdict", "Audit.__validate says %s, own closure walk finds missing %s"
                             % (ok, closure_missing(t)[:2]), {"kind": "validate", "tree": t})
                exp = "(%s, %s)" % (L.B(ok), "(@None (list bytes))" if rbi is None else "(Some (%s : list bytes))" % L.lst([hx(b) for b in rbi]))
                vcases.append((reg.afile(t), exp))
                vraw.append((tag, t["artifact"]["artifact-id"]))
    return reg, vcases, vraw


# ------------------------------------------------------------------ phase 3: real builds

LIVE_SRC = r'''
import sys, os, json, asyncio
os.chdir(sys.argv[1])
sandbox = "--sandbox" in sys.argv
from bob.input import RecipeSet
from bob.builder import LocalBuilder
from bob.cmds.build.state import DevelopDirOracle
from bob.cmds.build.build import ExecutableStep, LazyIR
from bob.utils import hashDirectory, getPlatformTag
from bob.state import BobState
recipes = RecipeSet()
recipes.defineHook('releaseNameFormatter', LocalBuilder.releaseNameFormatter)
recipes.defineHook('developNameFormatter', LocalBuilder.developNameFormatter)
recipes.defineHook('developNamePersister', None)
recipes.parse({})
fmt = recipes.getHook('developNameFormatter')
pers = DevelopDirOracle(fmt, recipes.getHook('developNamePersister'))
fmt = LocalBuilder.makeRunnable(pers.getFormatter())
packages = recipes.generatePackages(fmt, sandbox, False)
pers.prime(packages)
hx = lambda b: b.hex() if b is not None else None
fresh = {}
def fresh_hash(ws):
    if ws not in fresh:
        fresh[ws] = hashDirectory(ws) if os.path.isdir(ws) else None
    return fresh[ws]
memo = {}
async def calc(steps):
    ret = []
    for st in steps:
        ws = st.getWorkspacePath()
        if st.isCheckoutStep():
            ret.append(fresh_hash(ws) or b"\0"*20)
            continue
        if ws not in memo:
            memo[ws] = await st.getDigestCoro(calc, fingerprint=b"", platform=getPlatformTag(), relaxTools=True)
        ret.append(memo[ws])
    return ret
rel = {}
def reliable(st):
    """all checkouts below this step are there, so that the build-id can be recomputed from fresh hashes"""
    ws = st.getWorkspacePath()
    if ws not in rel:
        rel[ws] = True
        if st.isCheckoutStep() and fresh_hash(ws) is None:
            rel[ws] = False
        else:
            rel[ws] = all(reliable(d) for d in st.getAllDepSteps() if d.isValid())
    return rel[ws]
out = {}
def info(st):
    d = {"label": st.getLabel(), "valid": st.isValid()}
    if not st.isValid(): return d
    ws = st.getWorkspacePath()
    d.update(ws=ws, vid=hx(st.getVariantId()), fresh=hx(fresh_hash(ws)), fingerprinted=st._isFingerprinted(),
             args=[[a.getWorkspacePath(), a.isValid()] for a in st.getArguments()],
             tools={n: t.getStep().getWorkspacePath() for n, t in st.getTools().items()},
             sandbox=(st.getSandbox().getStep().getWorkspacePath() if st.getSandbox() is not None else None),
             shared=bool(st.isShared()) if st.isPackageStep() else False)
    rh = BobState().getResultHash(ws)
    d["state"] = hx(rh) if isinstance(rh, bytes) else (None if rh is None else "stamp")
    [bid] = asyncio.run(calc([ExecutableStep.fromStep(st, LazyIR)]))
    d["bid"] = hx(bid)
    d["bid_ok"] = reliable(st)
    if st.isCheckoutStep():
        d["scm"] = [s.getProperties(False) for s in st.getScmList()]
    return d
def walk(pkg):
    key = "/".join(pkg.getStack())
    if key in out: return
    out[key] = {"recipe": pkg.getRecipe().getName(), "metaEnv": dict(pkg.getMetaEnv()),
                "steps": [info(pkg.getCheckoutStep()), info(pkg.getBuildStep()), info(pkg.getPackageStep())]}
    for d in pkg.getAllDepSteps():
        walk(d.getPackage())
for d in packages.getRootPackage().getDirectDepSteps():
    walk(d.getPackage())
json.dump({"packages": out}, sys.stdout)
from bob.state import finalize
finalize()      # releases .bob-state.lock
'''


def live(path, sandbox=False):
    r = subprocess.run(["/venv/bin/python", "-c", LIVE_SRC, path] + (["--sandbox"] if sandbox else []),
                       env=proj.bob_env(), stdout=subprocess.PIPE, stderr=subprocess.PIPE, text=True, timeout=300)
    if r.returncode != 0:
        return {"error": (r.stderr or r.stdout)[-1500:]}
    return json.loads(r.stdout)


def fresh_hash(path):
    """uncached hashDirectory of the current repository's bob.utils in this process"""
    from bob.utils import hashDirectory
    return hashDirectory(path).hex()



HOOK_SRC = r"""
import os
if os.environ.get("BOBV_TRACE") and os.environ.get("BOB_VERIF"):
    try:
        import datetime
        import bob.builder as B, bob.state as S
        _log = open(os.environ["BOBV_TRACE"], "a")
        def _w(*a):
            _log.write(" ".join(str(x) for x in a) + "\n"); _log.flush()
        _ga = B.LocalBuilder._generateAudit
        async def ga(self, step, depth, resultHash, buildId, executed=True):
            _w("audit", step.getWorkspacePath(), resultHash.hex(), buildId.hex(), int(executed))
            return await _ga(self, step, depth, resultHash, buildId, executed)
        B.LocalBuilder._generateAudit = ga
        _rs = B.LocalBuilder._runShell
        async def rs(self, step, *a, **k):
            _w("run", step.getWorkspacePath())
            return await _rs(self, step, *a, **k)
        B.LocalBuilder._runShell = rs
        _hw = B.hashWorkspace
        def hw(step):
            r = _hw(step)
            _w("hash", step.getWorkspacePath(), r.hex())
            return r
        B.hashWorkspace = hw
        _sr = S._BobState.setResultHash
        def sr(self, path, h):
            _w("result", path, h.hex() if isinstance(h, bytes) else "stamp")
            return _sr(self, path, h)
        S._BobState.setResultHash = sr
    except Exception as e:      # never break the build because of the tracer
        import sys
        sys.stderr.write("bobv trace hook failed: %r\n" % (e,))
"""

OPNAMES = ("Definition opname (o : op) : N := match o with OStamp => 0 | OStampIfSet => 1 | ORun _ => 2 | OHash => 3 "
           "| ORemoveAudit => 4 | OWriteAudit _ _ => 5 | OSetResult => 6 end.\n"
           "Definition dd (co : bool) : decl := {| d_path := 1; d_checkout := co; d_base := {| g_vid := []; g_bid := []; g_rhash := []; "
           "g_build := []; g_meta := []; g_metaenv := []; g_recipes := None; g_layers := []; g_files := []; g_executed := true; "
           "g_env := []; g_tools := []; g_sandbox := None; g_args := []; g_scms := [] |}; d_tools := []; d_sandbox := None; d_args := [] |}.\n")
OPSTR = {0: "stamp", 1: "stamp?", 2: "run", 3: "hash", 4: "audit", 5: "audit+", 6: "result"}


def model_orders(ctx):
    """the micro-op lists of the builder model for a step whose script runs: (checkout, build/package), and
    the digest constants the compiled model really uses (guards against a stale coq/Gen/ConstsC14.vo: the
    Gen directory is shared by concurrently running checks)"""
    terms = ["map opname (cook_ops init (dd true) true false [] [])", "map opname (cook_ops init (dd false) true false [] [])",
             "[tag_map; tag_str; tag_list; tag_int; tag_bool; tag_bytes; tag_none] ++ dd_order"]
    res, out = coq.eval_terms(ctx, REQ + ["BobV.C14.Builder", "BobV.Gen.ConstsC14"], terms, preamble=OPNAMES)
    if res is None or len(res) != 3:
        return None, None
    import re
    lists = []
    for r in res:
        lists.append([int(x) for x in re.findall(r"\d+", r.split(":")[0])])
    return [[OPSTR[n] for n in l] for l in lists[:2]], lists[2]


def constants_now():
    from props import consts_c14
    f = consts_c14.facts()
    return [f["tags"][k] for k in ("dict", "str", "list", "int", "bool", "bytes", "None")] + [consts_c14.TY[t] for t in f["order"]]


def check_trace(obs, path, orders, where):
    """the recorded micro-operations of one bob invocation, per workspace in which a script ran"""
    if not os.path.exists(path):
        return
    per = {}
    for line in open(path):
        f = line.split()
        if len(f) >= 2:
            per.setdefault(f[1], []).append(f)
    os.unlink(path)
    for ws, evs in per.items():
        if not any(e[0] == "run" for e in evs):
            continue
        # from the last stamp before the first run (if any) to the end; extra hashes before the run (change detection) dropped
        first_run = next(i for i, e in enumerate(evs) if e[0] == "run")
        start = first_run
        for i in range(first_run - 1, -1, -1):
            if evs[i][0] == "result" and evs[i][2] == "stamp":
                start = i
                break
        seq = evs[start:]
        names = []
        for e in seq:
            if e[0] == "result":
                names.append("stamp" if e[2] == "stamp" else "result")
            elif e[0] == "audit":
                names += ["audit", "audit+"]
            elif e[0] == "hash" and names and names[-1] == "hash":
                continue
            else:
                names.append(e[0])
        kind = "src" if "/src/" in ws else "other"
        obs.count("trace:%s:%s" % (kind, ",".join(names)))
        if orders is not None:
            want = orders[0] if kind == "src" else orders[1]
            alts = [want, [n for n in want if n != "stamp?"]] if "stamp?" in want else [want]
            alts = [[("stamp" if n == "stamp?" else n) for n in a] for a in alts]
            # a failed step stops early: any prefix ending before "result" is a legal trace of the model, too
            if not any(names == a or (names == a[:len(names)] and "result" not in names) for a in alts):
                obs.ties.append(("builder-micro-op-order-differs-from-model", {"workspace": ws, "observed": names, "model": want, "where": where}))
        hs = [e[2] for e in seq if e[0] == "hash"]
        au = [e for e in seq if e[0] == "audit"]
        rs = [e[2] for e in seq if e[0] == "result" and e[2] != "stamp"]
        if au and rs and hs and not (au[-1][2] == rs[-1] == hs[-1]):
            obs.viol("trail-result-hash-is-not-the-stored-hash",
                     "%s %s: _generateAudit got result hash %s, hashWorkspace after the run gave %s, BobState stores %s"
                     % (where, ws, au[-1][2], hs[-1], rs[-1]), {"kind": "trace", "workspace": ws, "events": [" ".join(e) for e in seq]})


ORDERS = None


class Project:
    """one scratch checkout of a generated project + what we have seen of it"""
    def __init__(self, desc, path, sandbox=False, git=False):
        self.desc, self.path, self.sandbox, self.git = desc, path, sandbox, git
        self.seen_ids = {}          # trail path -> artifact-id at the last observation
        self.stacks = {}            # (ws, label) -> stacks ever seen
        self.metaenvs = {}          # (ws, label) -> metaEnv dicts ever seen (json)
        os.makedirs(path, exist_ok=True)
        self.write()

    def write(self):
        proj.write_project(self.desc, self.path)
        if self.git:
            sh = lambda *a: subprocess.run(a, cwd=self.path, stdout=subprocess.DEVNULL, stderr=subprocess.DEVNULL,
                                           env=dict(proj.bob_env(), GIT_AUTHOR_NAME="v", GIT_AUTHOR_EMAIL="v@v", GIT_COMMITTER_NAME="v",
                                                    GIT_COMMITTER_EMAIL="v@v", GIT_CONFIG_GLOBAL="/dev/null"))
            if not os.path.exists(os.path.join(self.path, ".git")):
                sh("git", "init", "-q")
                with open(os.path.join(self.path, ".gitignore"), "w") as f:
                    f.write("dev/\n.bob-*\n")
            sh("git", "add", "-A")
            sh("git", "commit", "-q", "-m", "x")

    def bob(self, args, obs=None, where=""):
        hook = os.path.join(os.path.dirname(self.path), "hook")
        if not os.path.exists(hook):
            os.makedirs(hook, exist_ok=True)
            with open(os.path.join(hook, "sitecustomize.py"), "w") as f:
                f.write(HOOK_SRC)
        trace = os.path.join(hook, "trace.%s.log" % os.path.basename(self.path))
        env = {"PYTHONPATH": hook + os.pathsep + os.path.join(core.REPO, "pym"), "BOBV_TRACE": trace}
        r = proj.run_bob(self.path, args + (["--sandbox"] if self.sandbox else []), env=env, timeout=600)
        if obs is not None:
            check_trace(obs, trace, ORDERS, where)
        elif os.path.exists(trace):
            os.unlink(trace)
        return r


def observe(obs, pr, tag, scen, arch=None):
    """check every trail next to a workspace that the project's steps map to"""
    lv = live(pr.path, pr.sandbox)
    if "error" in lv:
        obs.ties.append(("live-ids-helper-failed", lv["error"]))
        return
    steps = {}          # (ws,label) -> info (first), stacks
    for key, pk in lv["packages"].items():
        for st in pk["steps"]:
            if not st["valid"]:
                continue
            k = (st["ws"], st["label"])
            pr.stacks.setdefault(k, set()).add(key)
            pr.metaenvs.setdefault(k, set()).add(json.dumps(pk["metaEnv"], sort_keys=True))
            if k not in steps:
                steps[k] = dict(st, recipe=pk["recipe"], metaEnv=pk["metaEnv"])
    byws = {ws: s for (ws, lab), s in steps.items()}
    git_head = None
    if pr.git:
        r = subprocess.run(["git", "rev-parse", "HEAD"], cwd=pr.path, stdout=subprocess.PIPE, text=True)
        git_head = r.stdout.strip()
    new_ids = {}
    for (ws, label), st in sorted(steps.items()):
        absws = os.path.join(pr.path, ws)
        if not os.path.lexists(absws) or st["state"] in (None,):
            obs.count("real:%s:step-not-visited" % scen)
            continue
        tpath = os.path.join(os.path.dirname(absws), "audit.json.gz")
        where = "%s %s [%s %s]" % (ws, label, scen, tag)
        replay = {"kind": "real-build", "scenario": scen, "after": tag, "desc": pr.desc, "workspace": ws, "sandbox": pr.sandbox}
        if st["state"] == "stamp":
            obs.count("real:%s:step-failed-or-running" % scen)
            continue
        if not os.path.exists(tpath):
            obs.viol("built-step-without-trail", "%s: the step has a result hash but no audit.json.gz" % where, replay)
            continue
        tree = read_trail(tpath)
        obs.count("real:%s:%s:trail" % (scen, label))
        check_tree(obs, tree, where, replay)
        a = tree["artifact"]
        new_ids[tpath] = a["artifact-id"]
        regenerated = pr.seen_ids.get(tpath) != a["artifact-id"]
        obs.count("real:%s:%s" % (scen, "written-by-last-invocation" if regenerated else "kept-from-earlier"))
        fresh = st["fresh"]
        if a["variant-id"] != st["vid"]:
            obs.viol("trail-field-wrong:variant-id", "%s: recorded variant-id %s, the step has %s" % (where, a["variant-id"], st["vid"]), replay)
        if a["result-hash"] == fresh and st["state"] != fresh and os.path.islink(absws):
            # the workspace is a link into the share store: the loser of an installation race links the winner's package and
            # keeps the hash of its own discarded build in the project state; the trail (the store's) describes what is there
            obs.count("real:%s:state-hash-of-discarded-build-kept-for-shared-link" % scen)
        elif a["result-hash"] != fresh or st["state"] != fresh:
            obs.viol("trail-field-wrong:result-hash", "%s: recorded result-hash %s, state %s, hashDirectory(workspace) now %s"
                     % (where, a["result-hash"], st["state"], fresh), replay)
        if not st.get("bid_ok", True):
            obs.count("real:build-id-not-recomputable(sources not checked out)")
        elif not st["fingerprinted"] and a["build-id"] != (fresh if label == "src" else st["bid"]):
            obs.viol("trail-field-wrong:build-id", "%s: recorded build-id %s, live build-id %s" % (where, a["build-id"], st["bid"]), replay)
        envp = os.path.join(os.path.dirname(absws), "env")
        downloaded_or_shared = os.path.islink(absws) or os.path.islink(tpath) or not os.path.exists(envp)
        m = a["meta"]
        if m.get("recipe") != st["recipe"] or m.get("step") != label or m.get("language") != "bash":
            obs.viol("trail-field-wrong:meta", "%s: recorded meta %r, step is %s/%s" % (where, m, st["recipe"], label), replay)
        stacks = pr.stacks[(ws, label)] if not regenerated else {k for k, pk in lv["packages"].items()
                                                                 for s in pk["steps"] if s["valid"] and s["ws"] == ws and s["label"] == label}
        if downloaded_or_shared:
            # written by the build that produced the artifact (another checkout): its package stack and meta variables are its own
            obs.count("real:%s:trail-of-another-build(meta not compared)" % scen)
        elif m.get("package") not in stacks:
            obs.viol("trail-field-wrong:package", "%s: recorded package %r is none of the packages of this step %s"
                     % (where, m.get("package"), sorted(stacks)), replay)
        me = json.dumps(a.get("metaEnv", {}), sort_keys=True)
        if downloaded_or_shared:
            pass
        elif regenerated and me != json.dumps(st["metaEnv"], sort_keys=True):
            obs.viol("trail-field-wrong:metaEnv", "%s: recorded metaEnv %s, package has %s" % (where, me, st["metaEnv"]), replay)
        elif not regenerated and me not in pr.metaenvs[(ws, label)]:
            obs.viol("trail-field-wrong:metaEnv", "%s: recorded metaEnv %s was never the package's" % (where, me), replay)
        elif not regenerated and me != json.dumps(st["metaEnv"], sort_keys=True):
            obs.count("real:stale-metaEnv-of-skipped-step")
        # env file
        if regenerated and not downloaded_or_shared and (a["dependencies"] or label != "src"):
            try:
                if open(envp, encoding="utf8").read() != a["env"]:
                    obs.viol("trail-field-wrong:env", "%s: recorded env differs from the env file of the step" % where, replay)
            except OSError:
                pass
        # recipes record
        if pr.git and regenerated and not downloaded_or_shared:
            rc = a.get("recipes")
            if not rc or rc.get("commit") != git_head or rc.get("dirty") is not False:
                obs.viol("trail-field-wrong:recipes", "%s: recipes record %r, HEAD is %s (clean)" % (where, rc, git_head), replay)
        elif not pr.git and "recipes" in a:
            obs.viol("trail-field-wrong:recipes", "%s: recipes record for a project that is no repository" % where, replay)
        # scm records
        if label == "src":
            want = [{"type": "import", "dir": s["dir"], "digest": {"algorithm": "sha1", "value": fresh_hash(os.path.join(absws, s["dir"]))},
                     "url": s["url"]} for s in st.get("scm", []) if s["scm"] == "import"]
            if [s for s in a["scms"] if s.get("type") == "import"] != want:
                obs.viol("trail-field-wrong:scms", "%s: recorded scms %r, the checkout is %r" % (where, a["scms"], want), replay)
        # dependencies
        def want_of(w):
            s = byws.get(w)
            return {"vid": s["vid"], "hash": s["fresh"]} if s else {"vid": None, "hash": None}
        wa = [want_of(w) for w, v in st["args"] if v]
        wt = {n: want_of(w) for n, w in st["tools"].items()}
        wsb = want_of(st["sandbox"]) if st["sandbox"] else None
        if label == "src" and a["dependencies"] == {} and (wa or wt or wsb):
            obs.count("real:checkout-trail-without-deps(regenerated-unexecuted)")
        else:
            check_deps(obs, tree, wa, wt, wsb, where, replay, True)
        obs.nontrivial.append(("real", scen, tag, ws, label, a["artifact-id"]))
        # generate_file for trails of this invocation whose dependency trails are all on disk
        if regenerated and not downloaded_or_shared and len(obs.gen_cases) < 400:
            deps = {}
            okd = True
            for w in [w for w, v in st["args"] if v] + list(st["tools"].values()) + ([st["sandbox"]] if st["sandbox"] else []):
                p = os.path.join(os.path.dirname(os.path.join(pr.path, w)), "audit.json.gz")
                if os.path.exists(p):
                    deps[w] = read_trail(p)
                else:
                    okd = False
            executed = not (label == "src" and a["dependencies"] == {} and a["env"] == "" and (wa or wt or wsb))
            if okd:
                obs.gen_cases.append({"tree": tree, "args": [(v, deps.get(w)) for w, v in st["args"]],
                                      "tools": {n: deps[w] for n, w in st["tools"].items()},
                                      "sandbox": deps[st["sandbox"]] if st["sandbox"] else None, "executed": executed,
                                      "where": where})
        # shared packages: the trail next to the workspace is the store's
        if os.path.islink(absws):
            store = os.path.dirname(os.readlink(absws))
            sp = os.path.join(store, "audit.json.gz")
            obs.count("real:%s:shared-workspace" % scen)
            if not os.path.exists(sp) or read_trail(sp) != tree:
                obs.viol("shared-trail-is-not-store-trail", "%s: trail next to the shared workspace differs from %s" % (where, sp), replay)
    pr.seen_ids.update(new_ids)
    for p in list(pr.seen_ids):
        if p not in new_ids and not os.path.exists(p):
            del pr.seen_ids[p]
    # artifacts
    if arch:
        byid = {}
        for (ws, label), st in steps.items():
            if label == "dist" and st.get("bid"):
                byid.setdefault(st["bid"], []).append(st)
        for tgz in sorted(glob.glob(os.path.join(arch, "*", "*", "*-1.tgz"))):
            rel = os.path.relpath(tgz, arch).split(os.sep)
            bid = rel[0] + rel[1] + rel[2][:-len("-1.tgz")]
            replay = {"kind": "real-build", "scenario": scen, "after": tag, "desc": pr.desc, "artifact": bid}
            tmp = core.scratch_dir("c14x")
            try:
                with tarfile.open(tgz, "r:*") as tf:
                    tf.extractall(tmp)
                ap = os.path.join(tmp, "meta", "audit.json.gz")
                if not os.path.exists(ap):
                    obs.viol("artifact-without-trail", "uploaded artifact %s has no meta/audit.json.gz" % bid, replay)
                    continue
                tree = read_trail(ap)
                obs.count("real:%s:artifact-trail" % scen)
                check_tree(obs, tree, "artifact %s" % bid, replay)
                a = tree["artifact"]
                if a["build-id"] != bid:
                    obs.viol("trail-field-wrong:build-id", "artifact stored under %s records build-id %s" % (bid, a["build-id"]), replay)
                h = fresh_hash(os.path.join(tmp, "content"))
                if a["result-hash"] != h:
                    obs.viol("trail-field-wrong:result-hash", "artifact %s: recorded result-hash %s, content hashes to %s" % (bid, a["result-hash"], h), replay)
                if a["meta"].get("step") != "dist":
                    obs.viol("trail-field-wrong:meta", "artifact %s is recorded as step %r" % (bid, a["meta"].get("step")), replay)
                obs.nontrivial.append(("artifact", bid, a["artifact-id"]))
            finally:
                shutil.rmtree(tmp, ignore_errors=True)


def pick_edit(rng, desc):
    d = copy.deepcopy(desc)
    names = sorted(d["recipes"])
    for _ in range(20):
        kind = rng.choice(["script", "env", "source", "meta", "pkgscript", "global"])
        r = d["recipes"][rng.choice(names)]
        if kind == "script" and "buildScript" in r:
            r["buildScript"] += "echo edited-%d >> result-edit.txt\n" % rng.randrange(1000)
        elif kind == "pkgscript" and "packageScript" in r:
            r["packageScript"] += "# comment only %d\ntrue\n" % rng.randrange(1000)
        elif kind == "env" and r.get("environment"):
            k = sorted(r["environment"])[0]
            r["environment"][k] += "X"
        elif kind == "source" and "_sources" in r:
            r["_sources"]["file.txt"] += "edited\n"
        elif kind == "meta":
            r.setdefault("metaEnvironment", {})["NOTE"] = "edited%d" % rng.randrange(100)
        elif kind == "global":
            d["default"]["environment"]["GLOBAL1"] = d["default"]["environment"].get("GLOBAL1", "") + "G"
        else:
            continue
        return d, kind
    return d, "none"


def gen_desc(rng, n, want=()):
    """a project description with the wanted features (looked up in the description itself)"""
    best = None
    for _ in range(40):
        feats_in = {"fingerprint": False, "sandbox": "sandbox" in want}
        if "import" in want:
            feats_in["checkout"] = True
        if "tools" in want:
            feats_in["tools"] = True
        d = proj.Gen(rng, n_recipes=n, features=feats_in).project()
        rs = d["recipes"]
        feats = set()
        if any("packageScript" in r and "buildScript" not in r for r in rs.values()): feats.add("invalid-step")
        if any(k in r for r in rs.values() for k in ("buildTools", "buildToolsWeak", "packageTools")): feats.add("tools")
        if any("provideSandbox" in r for r in rs.values()): feats.add("sandbox")
        if any("checkoutSCM" in r for r in rs.values()): feats.add("import")
        if any(r.get("depends") for r in rs.values()): feats.add("deps")
        if any(r.get("metaEnvironment") for r in rs.values()): feats.add("metaenv")
        d["_feats"] = sorted(feats)
        if set(want) - {"checkout"} <= feats:
            return d
        if best is None or len(feats) > len(best["_feats"]):
            best = d
    return best


def strip(desc):
    """drop the feature list; make the generated scripts tolerate arguments that are invalid steps
    (their path does not exist), so that projects with script-less recipes build"""
    d = copy.deepcopy(desc)
    d.pop("_feats", None)
    for tab in (d["recipes"], d["classes"]):
        for r in tab.values():
            for k in ("buildScript", "packageScript", "checkoutScript"):
                if k in r:
                    r[k] = r[k].replace('do ( cd "$a" && find', 'do ( cd "$a" 2>/dev/null || exit 0 ; find')
                    r[k] = r[k].replace('cp -a "$1"/. . 2>/dev/null || true', 'if [ -d "$1" ] ; then cp -a "$1"/. . ; fi')
    return d


def scen_plain(obs, rng, base, want, deadline):
    d = strip(gen_desc(rng, rng.randint(3, 5), want))
    pr = Project(d, os.path.join(base, "p"), git=rng.random() < 0.5)
    rc, out = pr.bob(["dev", "r0"], obs, "plain fresh")
    obs.count("real:plain:build-rc-%d" % rc)
    if rc != 0:
        obs.notes.append("plain: generated project does not build: " + out[-300:])
        return
    observe(obs, pr, "fresh", "plain")
    for i in range(2 if THOROUGH else 1):
        if time.time() > deadline:
            return
        d2, kind = pick_edit(rng, pr.desc)
        pr.desc = d2
        pr.write()
        rc, out = pr.bob(["dev", "r0"], obs, "plain edit " + kind)
        obs.count("real:plain:edit:%s:rc-%d" % (kind, rc))
        if rc != 0:
            obs.notes.append("plain: rebuild after edit %s failed: %s" % (kind, out[-400:]))
            return
        observe(obs, pr, "edit-%s" % kind, "plain")
    if time.time() < deadline and (THOROUGH or rng.random() < 0.3):
        rc, out = pr.bob(["dev", "-f", "r0"], obs, "plain forced")
        if rc == 0:
            observe(obs, pr, "forced", "plain")


def scen_archive(obs, rng, base, want, deadline):
    d = strip(gen_desc(rng, rng.randint(3, 5), want))
    arch = os.path.join(base, "arch")
    d["default"]["archive"] = {"backend": "file", "path": arch, "flags": ["download", "upload"]}
    pr = Project(d, os.path.join(base, "p"))
    rc, out = pr.bob(["dev", "--upload", "r0"], obs, "archive upload")
    obs.count("real:archive:upload-rc-%d" % rc)
    if rc != 0:
        obs.notes.append("archive: project does not build: " + out[-300:])
        return
    observe(obs, pr, "uploaded", "archive", arch)
    if time.time() > deadline:
        return
    # a second checkout of an edited project: what still matches is downloaded, the rest is built on top
    d2, kind = pick_edit(rng, d)
    pr2 = Project(d2, os.path.join(base, "q"))
    rc, out = pr2.bob(["dev", "--download=yes", "--upload", "r0"], obs, "archive partial download")
    obs.count("real:archive:download(%s)-rc-%d" % (kind, rc))
    obs.count("real:archive:downloaded-packages", out.count("DOWNLOAD"))
    if rc != 0:
        obs.notes.append("archive: second checkout does not build: " + out[-300:])
        return
    observe(obs, pr2, "partial-download(%s)" % kind, "archive", arch)
    if time.time() < deadline and THOROUGH:
        # forced deep download in a third checkout: everything comes from the archive
        pr3 = Project(d2, os.path.join(base, "t"))
        rc, out = pr3.bob(["dev", "--download=forced-deps", "r0"])
        obs.count("real:archive:forced-deps-rc-%d" % rc)
        if rc == 0:
            observe(obs, pr3, "forced-deps", "archive")


def scen_shared(obs, rng, base, want, deadline):
    d = strip(gen_desc(rng, rng.randint(3, 5), want))
    d["default"]["share"] = {"path": os.path.join(base, "share")}
    k = 0
    for n, r in d["recipes"].items():
        if "packageScript" in r and n != "r0":
            r["shared"] = True
            k += 1
    pr = Project(d, os.path.join(base, "p"))
    rc, out = pr.bob(["dev", "r0"], obs, "shared install")
    obs.count("real:shared:install-rc-%d" % rc)
    if rc != 0:
        obs.notes.append("shared: project does not build: " + out[-300:])
        return
    observe(obs, pr, "installed", "shared")
    for sp in glob.glob(os.path.join(base, "share", "*", "*", "*", "audit.json.gz")):
        tree = read_trail(sp)
        check_tree(obs, tree, "share store " + os.path.relpath(sp, base), {"kind": "real-build", "scenario": "shared", "desc": d})
        pkgj = json.load(open(os.path.join(os.path.dirname(sp), "pkg.json")))
        h = fresh_hash(os.path.join(os.path.dirname(sp), "workspace"))
        obs.count("real:shared:store-trail")
        if tree["artifact"]["result-hash"] != h or pkgj.get("hash") != h:
            obs.viol("trail-field-wrong:result-hash", "share store %s: trail %s, pkg.json %s, content %s"
                     % (sp, tree["artifact"]["result-hash"], pkgj.get("hash"), h), {"kind": "real-build", "scenario": "shared", "desc": d})
    if time.time() > deadline:
        return
    pr2 = Project(d, os.path.join(base, "q"))
    rc, out = pr2.bob(["dev", "r0"])
    obs.count("real:shared:use-rc-%d" % rc)
    if rc == 0:
        observe(obs, pr2, "used", "shared")


def shared_race(obs, base, d, tag="race"):
    """build two checkouts of one project concurrently; the shared packages of `d` carry a rendezvous in their package
    scripts so that both invocations have produced their own (not reproducible) result before either installs it"""
    prs = [Project(d, os.path.join(base, nm)) for nm in ("p", "q")]
    with ThreadPoolExecutor(max_workers=2) as tp:
        futs = [tp.submit(pr.bob, ["dev", "r0"]) for pr in prs]
        res = [f.result() for f in futs]
    for pr, (rc, out) in zip(prs, res):
        obs.count("real:shared-race:rc-%d" % rc)
        if rc != 0:
            obs.notes.append("shared-race: build failed: " + out[-300:])
        else:
            observe(obs, pr, tag, "shared-race")
    links = [os.path.realpath(l) for pr in prs for l in glob.glob(os.path.join(pr.path, "dev", "dist", "*", "*", "workspace")) if os.path.islink(l)]
    obs.count("real:shared-race:%s" % ("both-use-one-store-entry" if len(links) != len(set(links)) else "no-common-store-entry"))


def scen_shared_race(obs, rng, base, want, deadline):
    """seed C14-3: the trail next to a shared workspace must describe the content that is there also for the loser of an
    installation race (its own build result is discarded, the winner's is linked)"""
    n = None
    for attempt in range(8):
        d = strip(gen_desc(rng, rng.randint(3, 4), want))
        d["default"]["share"] = {"path": os.path.join(base, "share")}
        cands = [c for c, r in d["recipes"].items() if "packageScript" in r and c != "r0"]
        rng.shuffle(cands)
        for c in cands:             # a package of the root's tree that may be shared (deterministic)
            d2 = copy.deepcopy(d)
            d2["recipes"][c]["shared"] = True
            probe = Project(d2, os.path.join(base, "probe"))
            rc, out = probe.bob(["ls", "-r", "r0"])
            shutil.rmtree(probe.path, ignore_errors=True)
            if rc == 0 and any(l.strip().split("/")[-1].split()[-1:] == [c] for l in out.split("\n") if l.strip()):
                n = c
                break
        if n is not None or time.time() > deadline - 20:
            break
    if n is None:
        obs.count("real:shared-race:no-candidate")
        return
    bar = os.path.join(base, "barrier-" + n)
    os.makedirs(bar)
    r = d["recipes"][n]
    r["shared"] = True
    r["packageScript"] += ('echo "$$-$RANDOM-$(date +%%N)" > not-reproducible.txt\n: > %s/$$\n'
                           'i=0; while [ "$(ls %s | wc -l)" -lt 2 ] && [ $i -lt 300 ]; do sleep 0.05; i=$((i+1)); done\n' % (bar, bar))
    shared_race(obs, base, d)


def scen_sandbox(obs, rng, base, want, deadline):
    d = strip(gen_desc(rng, 3, ("sandbox",)))
    pr = Project(d, os.path.join(base, "p"), sandbox=True)
    rc, out = pr.bob(["dev", "r0"], obs, "sandbox")
    obs.count("real:sandbox:rc-%d" % rc)
    if rc != 0:
        obs.notes.append("sandbox: build failed (sandbox unusable here?): " + out[-300:])
        return
    observe(obs, pr, "fresh", "sandbox")


THOROUGH = False
SCENARIOS = {"plain": scen_plain, "archive": scen_archive, "shared": scen_shared, "sandbox": scen_sandbox,
             "shared-race": scen_shared_race}


def run_scenario(job):
    name, seed, want, deadline = job
    import random
    obs = Obs()
    base = core.scratch_dir("c14r")
    t0 = time.time()
    try:
        SCENARIOS[name](obs, random.Random(seed), base, want, deadline)
    except subprocess.TimeoutExpired:
        obs.notes.append("%s: a bob invocation timed out" % name)
    except Exception as e:
        import traceback
        obs.ties.append(("scenario-crashed:%s" % name, traceback.format_exc()[-1500:]))
    finally:
        shutil.rmtree(base, ignore_errors=True)
    obs.counts["time:%s" % name] = obs.counts.get("time:%s" % name, 0) + int(time.time() - t0)
    return obs


def gen_case_literals(reg, c):
    """a real trail + dependency trails -> (gen_in literal, expected summary)"""
    a = c["tree"]["artifact"]
    of = lambda t: "(@None afile)" if t is None else "(Some %s)" % reg.afile(t)
    g = ("{| g_vid := %s; g_bid := %s; g_rhash := %s; g_build := %s; g_meta := %s; g_metaenv := %s; g_recipes := %s; "
         "g_layers := (%s : list (str * value)); g_files := %s; g_executed := %s; g_env := %s; "
         "g_tools := (%s : list (str * option afile)); g_sandbox := %s; g_args := (%s : list (bool * option afile)); "
         "g_scms := (%s : list value) |}") % (
        hx(a["variant-id"]), hx(a["build-id"]), hx(a["result-hash"]), smap(a["build"]), smap(a["meta"]), smap(a.get("metaEnv", {})),
        ("(Some %s)" % val(a["recipes"])) if "recipes" in a else "None",
        L.lst([L.pair(L.s(k), val(v)) for k, v in a.get("layers", {}).items()]), smap(a.get("files", {})),
        L.B(c["executed"]), L.s(a["env"]),
        L.lst([L.pair(L.s(n), of(t)) for n, t in c["tools"].items()]),
        ("(Some %s)" % of(c["sandbox"])) if c["sandbox"] is not None else "None",
        L.lst([L.pair(L.B(v), of(t)) for v, t in c["args"]]),
        L.lst([val(x) for x in a["scms"]]))
    exp = "(Some (%s, (%s : list bytes)))" % (hx(a["artifact-id"]), L.lst([hx(r["artifact-id"]) for r in c["tree"]["references"]]))
    return g, exp


# ------------------------------------------------------------------ corpus

def run_corpus(ctx, obs):
    """golden records written by the pinned implementation: ids of existing trails must stay reproducible"""
    cases = []
    for p in sorted(glob.glob(os.path.join(core.VERIF, "corpus", "C14", "*.json"))):
        c = json.load(open(p))
        if c.get("kind") == "golden-trail":
            tree = c["tree"]
            ctx.evaluated()
            ctx.count("corpus:golden-trail")
            if c["validates"]:
                check_tree(obs, tree, "corpus " + os.path.basename(p), {"kind": "corpus", "file": os.path.basename(p)})
            else:
                for r in [tree["artifact"]] + tree["references"]:
                    if impl_id(r) != r["artifact-id"]:
                        obs.viol("artifact-id-not-function-of-record", "corpus %s: recorded artifact-id %s is not the digest of the record"
                                 % (os.path.basename(p), r["artifact-id"]), {"kind": "corpus", "file": os.path.basename(p)})
            for r in [tree["artifact"]] + tree["references"]:
                cases.append((art(r, False), hx(r["artifact-id"])))
            iv = impl_verdict(tree, ctx.scratch, 100000 + len(cases))
            if iv is not None and iv[0] != c["validates"]:
                obs.viol("validate-wrong-verdict", "corpus %s: Audit.__validate says %s" % (os.path.basename(p), iv[0]),
                         {"kind": "corpus", "file": os.path.basename(p)})
    if cases:
        bad, log = coq.run_cases(ctx, REQ, "(fun a => artifact_id %s a)" % SHA, "eqb_str", cases, preamble=PRE, tag="c14c", shard=20)
        if bad is None:
            ctx.tie_broken("artifact_id-model-not-evaluable(corpus)", log[-1500:])
        elif bad:
            ctx.tie_broken("artifact_id-model-disagrees-on-corpus", {"n": len(bad)})
        else:
            ctx.validated(len(cases))


# ------------------------------------------------------------------ main

def merge(ctx, obs):
    for sig, what, replay in obs.violations:
        ctx.violation(sig, what, replay)
    for k, v in obs.counts.items():
        ctx.count(k, v)
    for nt in obs.nontrivial:
        ctx.nontrivial(nt)
    for n in obs.notes:
        ctx.note(n)
    for name, detail in obs.ties:
        ctx.tie_broken(name, detail)


def run(ctx):
    ctx.rule = ("values: random JSON-like values (nested maps/lists, non-ASCII keys, int64 edges, bool, None, bytes); "
                "synthetic: random dependency DAGs of 3-7 steps (shared sub-dependencies, the same step as argument+tool, "
                "invalid arguments, two generations of one step, missing dependency trails) driven through the real "
                "LocalBuilder._generateAudit; real: generated recipe projects built with `bob dev` (fresh, edit+rebuild, forced, "
                "upload + partial download into a second checkout, shared packages, sandbox). A case is distinct by "
                "(scenario, invocation, workspace, step, artifact id).")
    ctx.assumptions += [
        "scripts, git, tar/gzip, json, the kernel and platform.uname/os-release are environment: the 'build', 'env' and 'scms' "
        "fields of a trail are inputs of the model (compared with the env file / fresh hashes by the oracle, not derived)",
        "SHA-1: theorems hold for every hash function (collision-extraction form); the run uses the executable SHA-1 of Common/Sha1.v",
        "the builder model (Builder.v) is hand-written from _cook*Step/_downloadPackage/_useSharedPackage; its micro-op order is tied "
        "only through the observable results of real builds (trail vs. state vs. fresh hash), not by tracing",
        "truthfulness theorem excludes share-install races with a different tree under the same build-id (C15) and manual edits of workspaces",
        "a trail that was kept (step skipped by the last invocation) documents the build that produced the content: its meta "
        "variables, package stack and recipe-repository record are compared with the project states seen since it was written "
        "(a metaEnvironment-only edit does not refresh it; counted as real:stale-metaEnv-of-skipped-step); trails written by the "
        "last invocation are compared exactly; variant-id, build-id, result-hash and dependencies are compared exactly for all",
        "checkout trails regenerated without running the script (forced / edited sources) list no dependencies (builder.py:739)",
        "live build-ids are computed by the helper with the real StepIR.getDigestCoro from fresh checkout hashes (build-id function itself: C03)",
    ]
    ctx.trusted_base += [
        "coq/C14/Sha1Fast.v: SHA-1 on primitive 63-bit integers, only used to run the model (cross-checked against Common/Sha1.v "
        "by a vm_compute Example; a wrong value would show up as a disagreement with the recorded ids)",
        "harness/props/consts_c14.py: tag table / branch order of digestData regenerated from audit.py",
        "live-ids helper (sub-process using RecipeSet, DevelopDirOracle, StepIR.getDigestCoro, hashDirectory of the current repository)",
    ]
    ctx.note("proved (unbounded): digest decodable => artifact ids injective up to an explicit collision, independent of key order; "
             "merge/addArg/addTool/setSandbox/save/load keep trails closed and the closure walk accepts them (with fuel bound), "
             "for all histories of the builder model; result hash set => content and recorded result-hash equal it; "
             "ids of a completed cook; failure before setResultHash forces a rerun; download check; shared trail = store trail")
    ctx.note("exercised only (correspondence/oracle): scm records, env file, platform fields, recipe repository record, "
             "the order of the real builder's micro-operations (through trail vs. state vs. fresh hash after real builds)")
    ctx.scratch = core.scratch_dir("c14")
    try:
        _run(ctx)
    finally:
        shutil.rmtree(ctx.scratch, ignore_errors=True)


def _run(ctx):
    import bob.audit
    obs = Obs()
    if ctx.replay:
        return replay_case(ctx, obs)
    ok, log = coq.build(["C14/Sha1Fast.vo"])
    if not ok:
        ctx.tie_broken("Sha1Fast-not-buildable", log[-1500:])
        return
    global ORDERS
    ORDERS, consts = model_orders(ctx)
    try:
        want = constants_now()
    except Exception:
        want = None        # translator failure is reported by the pipeline itself
    if want is not None and consts is not None and consts != want:
        # the compiled model was built from another repository's constants (a concurrent check of a mutant rewrote
        # the shared Gen file and restored it): rebuild from the current ones and redo the proof step
        path = os.path.join(core.VERIF, "coq", "Gen", "ConstsC14.v")
        os.utime(path, None)
        coq.check_proofs(ctx, PROPERTY_FILES, EXTRA_TARGETS)
        ORDERS, consts = model_orders(ctx)
        ctx.note("stale coq/Gen/ConstsC14.vo detected and rebuilt")
        if consts != want:
            ctx.tie_broken("model-built-from-other-constants", {"compiled": consts, "audit.py": want})
            return
    if ORDERS is None:
        ctx.tie_broken("builder-model-op-lists-not-evaluable", "cook_ops could not be evaluated")
    # real builds run in worker threads while the in-process phases and Coq run here
    global THOROUGH
    THOROUGH = ctx.tier == "thorough"
    budget = ctx.n(quick=80, thorough=1500)
    deadline = time.time() + budget
    jobs = []
    order = [("plain", ("invalid-step", "deps")), ("archive", ("deps",)), ("shared", ("deps",)), ("shared-race", ("deps",)),
             ("plain", ("tools", "import")),
             ("sandbox", ()), ("archive", ("tools",)), ("plain", ("metaenv",)), ("shared", ("tools",))]
    reps = ctx.n(quick=1, thorough=12)
    for rep in range(reps):
        for name, want in order:
            jobs.append((name, ctx.rng.randrange(1 << 30), want, deadline))
    pool = ThreadPoolExecutor(max_workers=int(os.environ.get("BOBV_C14_WORKERS", "4")))

    def guarded(job):
        # do not start a scenario that cannot finish in time
        if time.time() > job[3] - 25:
            o = Obs()
            o.count("real:%s:not-started(deadline)" % job[0])
            return o
        return run_scenario(job)
    futs = [pool.submit(guarded, j) for j in jobs]

    run_corpus(ctx, obs)
    merge(ctx, obs)
    phase_values(ctx, ctx.n(quick=60, thorough=2000))
    cpool = ThreadPoolExecutor(max_workers=3)
    big = ctx.tier == "thorough"

    def settle(fut, name, n, first):
        bad, log = fut.result()
        if bad is None:
            ctx.tie_broken(name + ":model-not-evaluable", log[-1500:])
        elif bad:
            ctx.tie_broken(name, {"n": len(bad), "of": n, "first": first(bad[0])})
        else:
            ctx.validated(n)
    synth_records = {}
    n_synth_trails = 0
    for batch in range(ctx.n(quick=1, thorough=8)):
        bobs = Obs()
        bdir = os.path.join(ctx.scratch, "b%d" % batch)
        os.makedirs(bdir)
        reg, vcases, vraw = phase_synth(ctx, bobs, ctx.n(quick=30, thorough=40), bdir)
        merge(ctx, bobs)
        synth_gen = bobs.gen_cases
        n_synth_trails += bobs.trails
        pre = reg.preamble() + SUMM
        f_gen = cpool.submit(coq.run_cases, ctx, REQ, "(fun g => summ (generate_file %s g))" % SHA, "eq_summ",
                             [(g, e) for g, e, _ in synth_gen], 100, "c14g", pre)
        f_ver = cpool.submit(coq.run_cases, ctx, REQ, "verdict", "eq_verdict", vcases, 200, "c14w", pre)
        srecs = [r for k, r in bobs.records.items() if k not in synth_records]
        f_sid = cpool.submit(coq.run_cases, ctx, REQ, "(fun a => artifact_id %s a)" % SHA, "eqb_str",
                             [(art(r, False), hx(r["artifact-id"])) for r in srecs], 150, "c14s", PRE)
        settle(f_gen, "generate_file-disagrees-with-_generateAudit(synthetic)", len(synth_gen), lambda i: synth_gen[i][2])
        settle(f_ver, "validate/referenced_build_ids-disagree-with-Audit", len(vcases), lambda i: vraw[i])
        settle(f_sid, "artifact_id-disagrees-with-recorded-id(synthetic)", len(srecs), lambda i: srecs[i])
        ctx.count("records:recomputed-by-model:synthetic", len(srecs))
        synth_records.update(bobs.records)
        shutil.rmtree(bdir, ignore_errors=True)
        if ctx.violations:
            break

    # ---- collect the real builds (with a failing input already in hand, scenarios that did not start yet are dropped)
    if ctx.violations:
        for f in futs:
            f.cancel()
    robs = [f.result() for f in futs if not f.cancelled()]
    pool.shutdown()
    real_records, real_gen, n_real_trails = {}, [], 0
    for o in robs:
        merge(ctx, o)
        real_records.update(o.records)
        real_gen.extend(o.gen_cases)
        n_real_trails += o.trails
        ctx.evaluated(o.trails)
    ctx.count("trails:real", n_real_trails)
    ctx.count("trails:synthetic", n_synth_trails)
    # ---- artifact ids recomputed by the model from the JSON records of real builds
    rr = sorted((r for k, r in real_records.items() if k not in synth_records), key=lambda r: r["artifact-id"])
    ctx.rng.shuffle(rr)
    rr = rr[:ctx.n(quick=32, thorough=1500)]
    ctx.count("records:recomputed-by-model:real", len(rr))
    ctx.count("records:real-distinct", len(real_records))
    f_rid = cpool.submit(coq.run_cases, ctx, REQ, "(fun a => artifact_id %s a)" % SHA, "eqb_str",
                         [(art(r, False), hx(r["artifact-id"])) for r in rr], 16 if not big else 25, "c14a", PRE)
    # ---- generate_file on trails written by real invocations (smallest dependency closures first)
    real_gen.sort(key=lambda c: len(c["tree"]["references"]))
    k = ctx.n(quick=9, thorough=150)
    rg = real_gen[:k // 3] + real_gen[len(real_gen) // 2:len(real_gen) // 2 + k // 3] + real_gen[-(k // 3):] if len(real_gen) > k else real_gen
    chunks = []
    for i in range(0, len(rg), 9):
        part = rg[i:i + 9]
        reg2 = Registry()      # one registry per chunk keeps the generated Coq files small
        gl = [gen_case_literals(reg2, c) for c in part]
        chunks.append((part, gl, cpool.submit(coq.run_cases, ctx, REQ, "(fun g => summ (generate_file %s g))" % SHA, "eq_summ", gl,
                                              5, "c14h%d" % i, reg2.preamble() + SUMM)))
    for part, gl, fut in chunks:
        settle(fut, "generate_file-disagrees-with-real-build", len(gl), lambda i, part=part: part[i]["where"])
        ctx.count("generate:real-trails-reproduced", len(gl))
    settle(f_rid, "artifact_id-disagrees-with-recorded-id(real)", len(rr), lambda i: rr[i])
    cpool.shutdown()
    ctx.sample({"trails_real": n_real_trails, "trails_synthetic": n_synth_trails,
                "records_recomputed": len(synth_records) + len(rr)})
    if n_real_trails == 0:
        ctx.tie_broken("no-real-build-observed", "no `bob dev` scenario finished within the time budget")


def replay_case(ctx, obs):
    c = json.load(open(ctx.replay))
    c = c.get("case", c)
    if c.get("kind") in ("synthetic-generate", "validate", "value-order", "corpus"):
        # these come from the deterministic in-process phases: re-run them with the recorded seed
        run_corpus(ctx, obs)
        phase_values(ctx, 60)
        bdir = os.path.join(ctx.scratch, "b0")
        os.makedirs(bdir)
        phase_synth(ctx, obs, 24, bdir)
        merge(ctx, obs)
        return
    if c.get("kind") == "real-build":
        import random
        base = core.scratch_dir("c14r")
        try:
            if c.get("scenario") == "shared-race":
                # the description names scratch paths of the recorded run (share store, rendezvous directory): re-home them
                txt = json.dumps(c["desc"])
                old_base = os.path.dirname(c["desc"]["default"]["share"]["path"])
                d = json.loads(txt.replace(old_base, base))
                for r in d["recipes"].values():
                    for bdir in re.findall(r": > (\S+)/\$\$", r.get("packageScript", "")):
                        os.makedirs(bdir, exist_ok=True)
                shared_race(obs, base, d, "replay")
            else:
                pr = Project(c["desc"], os.path.join(base, "p"), sandbox=c.get("sandbox", False))
                rc, out = pr.bob(["dev", "r0"])
                if rc == 0:
                    observe(obs, pr, "replay", c.get("scenario", "plain"))
        finally:
            shutil.rmtree(base, ignore_errors=True)
    elif "record" in c:
        r = c["record"]
        if impl_id(r) != r["artifact-id"]:
            obs.viol("artifact-id-not-function-of-record", "recorded id is not the digest of the record", c)
    merge(ctx, obs)
