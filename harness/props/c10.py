"""C10 — workspace state commits atomically and is single-writer.

Implementation side: the real bob.state._BobState, driven in a scratch
directory, with open/os.open/os.replace/os.fsync/os.unlink (and the
replacePath alias bob.state captured at import time) wrapped to log the
file-system operation trace.  Crash images are materialised from that trace
(every prefix; files written but not fsynced replaced by: the full content,
truncations, zero fill, bit flips, garbage) and a fresh real _BobState is
started on each image.

Model side (Coq, vm_compute):
  * run_case      — the whole history (API calls, finalize, second instances,
                    crashes that continue the history, side crash images) on the
                    symbolic instance of the protocol model; compared: outcome and
                    return value of every call, the operations every call issues,
                    the getters of the fresh instance after every (re)start
  * raw_start_view — __init__ at byte level on real crash images (Adler-32 of the
                    real torn bytes decides commit/discard)
  * seal          — the bytes __save writes = pickle payload ++ Adler-32 trailer

Oracle on the implementation (independent of the model): after every crash
image the fresh instance must start without error and its getters must show
one of the candidate snapshots (state of the last started/completed invocation
or a snapshot saved since); an intact uncommitted file must be recovered;
the committed file must be fsynced at every operation boundary; a second
instance must be refused and must not touch anything.
"""
import builtins, contextlib, glob, io, json, os, pickle, shutil, struct, sys, zlib
from vlib import coq, coqlit as L, core

PROPERTY_FILES = ["C10/Properties.v"]

# ---------------------------------------------------------------- pools
KEYS = ["a", "w/x", "dev/p/1", "b"]
DIGESTS = [b"\x01\x02", b"d2", b"\xffz"]
BASES = ["work/p", "work/q"]
ATTIC = ["at/1", "at/../at/1", "./at/2", "at/2"]
JENKINS = ["j1", "J2"]
JOBS = ["job-a", "job-b"]
VPOOL = [b"h1", b"\x00\x01\xfe" * 4, [b"i1", b"i2"], (b"x", None), {"k": b"v", "l": [1, 2]}, "text", b"", 7,
         {"k": b"w", "l": [1, 2]}, {"k": b"v", "l": [1, 2], "sub": b"d"}]
STORAGE = ["stor/1", "w/x", "a"]
_CONFIGS = None


def configs():
    global _CONFIGS
    if _CONFIGS is None:
        from bob.state import JenkinsConfig
        _CONFIGS = [JenkinsConfig("http://host/x"), JenkinsConfig("https://u:p@h2:8080/jenkins/")]
    return _CONFIGS


def canon(v):
    if isinstance(v, (bytes, str, int)) or v is None:
        return (type(v).__name__, v)
    if isinstance(v, list):
        return ("list", tuple(canon(x) for x in v))
    if isinstance(v, tuple):
        return ("tuple", tuple(canon(x) for x in v))
    if isinstance(v, dict):
        return ("dict", tuple(sorted((canon(k), canon(x)) for k, x in v.items())))
    return ("other", repr(v))


class Unmappable(Exception):
    pass


def klit(k):
    return L.by(k) if isinstance(k, bytes) else L.s(k)


def vlit(i):
    return "(@None (list N))" if i is None else "(Some [%d])" % (i + 1)


def val_back(r):
    if r is None:
        return "(@None (list N))"
    if isinstance(r, dict) and not r:
        return "(Some (@nil N))"
    c = canon(r)
    for i, v in enumerate(VPOOL):
        if canon(v) == c:
            return "(Some [%d])" % (i + 1)
    raise Unmappable("value %r" % (r,))


def path_back(r, sep_join):
    base, _, num = r.rpartition("/")
    if base not in BASES or not num.isdigit() or sep_join(base, num) != r:
        raise Unmappable("path %r" % (r,))
    return base, int(num)


# name -> (argspec, call, result kind).  argspec letters: K key, D digest, B base dir, b bool,
# V value index|None, S storage str|None, A attic key, J jenkins, O job, C config index
API = {
    "GetByNameDir": ("BDb", lambda s, b, d, f: s.getByNameDirectory(b, d, f), "path"),
    "GetExistingByNameDir": ("D", lambda s, d: s.getExistingByNameDirectory(d), "optpath"),
    "GetAllNameDirs": ("", lambda s: s.getAllNameDirectores(), "paths"),
    "GetResult": ("K", lambda s, k: s.getResultHash(k), "val"),
    "SetResult": ("KV", lambda s, k, v: s.setResultHash(k, v), "unit"),
    "GetInputs": ("K", lambda s, k: s.getInputHashes(k), "val"),
    "SetInputs": ("KV", lambda s, k, v: s.setInputHashes(k, v), "unit"),
    "DelInputs": ("K", lambda s, k: s.delInputHashes(k), "unit"),
    "GetLayers": ("", lambda s: s.getLayers(), "keys"),
    "HasLayer": ("K", lambda s, k: s.hasLayerState(k), "bool"),
    "GetLayer": ("K", lambda s, k: s.getLayerState(k), "val"),
    "SetLayer": ("KV", lambda s, k, v: s.setLayerState(k, v), "unit"),
    "DelLayer": ("K", lambda s, k: s.delLayerState(k), "unit"),
    "GetDirs": ("", lambda s: s.getDirectories(), "keys"),
    "HasDir": ("K", lambda s, k: s.hasDirectoryState(k), "bool"),
    "GetDir": ("K", lambda s, k: s.getDirectoryState(k, False), "val"),
    "SetDir": ("KV", lambda s, k, v: s.setDirectoryState(k, v), "unit"),
    "DelDir": ("K", lambda s, k: s.delDirectoryState(k), "unit"),
    "GetVariant": ("K", lambda s, k: s.getVariantId(k), "val"),
    "SetVariant": ("KV", lambda s, k, v: s.setVariantId(k, v), "unit"),
    "SetStorage": ("KS", lambda s, k, v: s.setStoragePath(k, v), "unit"),
    "GetStorage": ("K", lambda s, k: s.getStoragePath(k), "skey"),
    "ResetWs": ("KV", lambda s, k, v: s.resetWorkspaceState(k, v), "unit"),
    "SetAttic": ("AV", lambda s, k, v: s.setAtticDirectoryState(k, v), "unit"),
    "GetAttic": ("A", lambda s, k: s.getAtticDirectoryState(k), "val"),
    "DelAttic": ("A", lambda s, k: s.delAtticDirectoryState(k), "unit"),
    "GetAttics": ("", lambda s: s.getAtticDirectories(), "keys"),
    "GetAllJenkins": ("", lambda s: list(s.getAllJenkins()), "keys"),
    "AddJenkins": ("JC", lambda s, j, c: s.addJenkins(j, c), "unit"),
    "DelJenkins": ("J", lambda s, j: s.delJenkins(j), "unit"),
    "JenkinsByNameDir": ("JBD", lambda s, j, b, d: s.getJenkinsByNameDirectory(j, b, d), "jpath"),
    "GetJenkinsConfig": ("J", lambda s, j: s.getJenkinsConfig(j), "cfg"),
    "SetJenkinsConfig": ("JC", lambda s, j, c: s.setJenkinsConfig(j, c), "unit"),
    "JenkinsAllJobs": ("J", lambda s, j: s.getJenkinsAllJobs(j), "keys"),
    "AddJenkinsJob": ("JOV", lambda s, j, o, v: s.addJenkinsJob(j, o, v), "unit"),
    "DelJenkinsJob": ("JO", lambda s, j, o: s.delJenkinsJob(j, o), "unit"),
    "GetJenkinsJob": ("JO", lambda s, j, o: s.getJenkinsJobConfig(j, o), "val"),
    "SetJenkinsJob": ("JOV", lambda s, j, o, v: s.setJenkinsJobConfig(j, o, v), "unit"),
    "SetBuildState": ("V", lambda s, v: s.setBuildState(v), "unit"),
    "GetBuildState": ("", lambda s: s.getBuildState(), "val"),
}
_HELD = {}


def _resubmit(kind, s, k, v, setter):
    """The builder keeps ONE dict per checkout step (per layer, for the build state), changes it in place and hands
    the same object to the setter after every change (builder.py: oldCheckoutState). Do the same whenever the value
    handed over last time and the new one are both dicts: same identity, new content. Every such call must save."""
    import copy as _copy
    key = (id(s), kind, k)
    old = _HELD.get(key)
    if isinstance(old, dict) and isinstance(v, dict):
        old.clear()
        old.update(_copy.deepcopy(v))
        obj = old
    else:
        obj = _copy.deepcopy(v)
    _HELD[key] = obj
    setter(obj)


API["SetDir"] = ("KV", lambda s, k, v: _resubmit("dir", s, k, v, lambda o: s.setDirectoryState(k, o)), "unit")
API["SetLayer"] = ("KV", lambda s, k, v: _resubmit("layer", s, k, v, lambda o: s.setLayerState(k, o)), "unit")
API["SetBuildState"] = ("V", lambda s, v: _resubmit("build", s, None, v, lambda o: s.setBuildState(o)), "unit")
MUTATORS = [n for n, (_, _, k) in API.items() if k in ("unit", "path", "jpath")]
GETTERS = [n for n in API if n not in MUTATORS]


def py_args(spec, args):
    out = []
    for ch, a in zip(spec, args):
        if ch == "D":
            out.append(bytes.fromhex(a))
        elif ch == "V":
            out.append(None if a is None else VPOOL[a])
        elif ch == "C":
            out.append(configs()[a])
        else:
            out.append(a)
    return out


def coq_args(spec, args):
    out = []
    for ch, a in zip(spec, args):
        if ch == "D":
            out.append(L.by(bytes.fromhex(a)))
        elif ch in "VC":
            out.append(vlit(a))
        elif ch == "S":
            out.append("(@None (list N))" if a is None else "(Some %s)" % L.s(a))
        elif ch == "b":
            out.append(L.B(a))
        else:
            out.append(L.s(a))
    return out


def coq_cmd(c):
    if c[0] == "start":
        return "CStart"
    if c[0] == "finalize":
        return "CFinalize"
    if c[0] == "async":
        return "(CProc PAsync)"
    if c[0] == "sync":
        return "(CProc PSync)"
    spec = API[c[1]][0]
    a = coq_args(spec, c[2:])
    return "(CProc (PApi %s))" % (("(%s %s)" % (c[1], " ".join(a))) if a else c[1])


def coq_tev(e):
    if e[0] == "cmd":
        return "(TCmd %s)" % coq_cmd(e[1])
    return "(%s %s %d%%nat)" % ("TKill" if e[0] == "kill" else "TTear", coq_cmd(e[1]), e[2])


def ret_lit(kind, r):
    if kind == "unit":
        if r is not None:
            raise Unmappable("setter returned %r" % (r,))
        return "RUnit"
    if kind == "val":
        return "(RVal %s)" % val_back(r)
    if kind == "skey":
        return "(RVal (Some %s))" % L.s(r)
    if kind == "cfg":
        d = r.dump()
        for i, c in enumerate(configs()):
            if c.dump() == d:
                return "(RVal (Some [%d]))" % (i + 1)
        raise Unmappable("jenkins config %r" % (d,))
    if kind == "keys":
        return "(RKeys %s)" % L.lst(sorted(klit(k) for k in r))
    if kind == "bool":
        return "(RBool %s)" % L.B(bool(r))
    if kind in ("path", "jpath", "optpath"):
        if r is None and kind == "optpath":
            return "RNoPath"
        b, n = path_back(r, os.path.join if kind != "jpath" else (lambda x, y: "%s/%s" % (x, y)))
        return "(RPath %s %d)" % (L.s(b), n)
    if kind == "paths":
        out = []
        for p, src in r:
            b, n = path_back(p, os.path.join)
            out.append("(%s, %d, %s)" % (L.s(b), n, L.B(bool(src))))
        return "(RPaths %s)" % L.lst(sorted(out))
    raise AssertionError(kind)


def sweep_cmds():
    out = []
    for k in KEYS:
        for g in ("GetResult", "GetInputs", "GetVariant", "GetStorage", "GetDir", "HasDir", "GetLayer"):
            out.append(("api", g, k))
    out += [("api", "GetDirs"), ("api", "GetLayers"), ("api", "GetAttics"), ("api", "GetAllNameDirs"),
            ("api", "GetAllJenkins"), ("api", "GetBuildState")]
    for a in sorted(set(os.path.normpath(x) for x in ATTIC)):
        out.append(("api", "GetAttic", a))
    for d in DIGESTS:
        out.append(("api", "GetExistingByNameDir", d.hex()))
    for j in JENKINS:
        out += [("api", "GetJenkinsConfig", j), ("api", "JenkinsAllJobs", j)]
        for o in JOBS:
            out.append(("api", "GetJenkinsJob", j, o))
    return out


SWEEP = None

# ---------------------------------------------------------------- recorder
ROLE_ID = {"pickle": 0, "new": 1, "dirty": 2, "lock": 3}
KIND_ID = {"create_excl": 0, "write": 1, "fsync": 2, "rename": 3, "unlink": 4, "create": 5, "other": 6}


class _WFile:
    """proxy of a file object opened for writing.  The operation is logged at
    the position of the open (create/truncate) under the name the file had
    then; its content is filled in when the file is closed."""

    def __init__(self, rec, f, role, truncating):
        self._rec, self._f, self._role = rec, f, role
        self._buf = bytearray()
        self._entry = None
        self._fd = f.fileno()
        rec.fdrole[self._fd] = role
        if truncating:
            self._begin()

    def _begin(self):
        if self._entry is None and self._rec.ops is not None:
            self._entry = ["write", self._role, b""]
            self._rec.ops.append(self._entry)

    def write(self, data):
        self._begin()
        self._buf += bytes(data)
        if self._entry is not None:
            self._entry[2] = bytes(self._buf)
        return self._f.write(data)

    def close(self):
        if self._f.closed:
            return
        self._f.close()
        self._rec.fdrole.pop(self._fd, None)

    def __enter__(self):
        return self

    def __exit__(self, *a):
        self.close()
        return False

    def __getattr__(self, n):
        return getattr(self._f, n)


class Recorder:
    def __init__(self, names):
        self.names = names
        self.role = {v: k for k, v in names.items()}
        self.ops = None
        self.fdrole = {}
        self.installed = False

    def _role(self, p):
        try:
            p = os.fspath(p)
        except TypeError:
            return None
        if isinstance(p, bytes):
            p = os.fsdecode(p)
        d, b = os.path.split(p)
        if b in self.role and (d in ("", ".") or os.path.abspath(d) == os.getcwd()):
            return self.role[b]
        return None

    def install(self):
        import bob.state as S
        self.S = S
        self.real_open = builtins.open
        self.saved = {"open": builtins.open, "os.open": os.open, "replace": os.replace, "rename": os.rename,
                      "fsync": os.fsync, "fdatasync": os.fdatasync, "unlink": os.unlink, "remove": os.remove,
                      "S.replacePath": getattr(S, "replacePath", None)}
        sv = self.saved
        rec = self

        def r_open(file, mode="r", *a, **kw):
            role = rec._role(file) if rec.ops is not None and isinstance(file, (str, bytes, os.PathLike)) else None
            f = sv["open"](file, mode, *a, **kw)
            if role is None:
                return f
            if any(c in mode for c in "wax"):
                return _WFile(rec, f, role, True)
            if "+" in mode:
                return _WFile(rec, f, role, False)
            rec.fdrole[f.fileno()] = role
            return f

        def r_os_open(path, flags, *a, **kw):
            fd = sv["os.open"](path, flags, *a, **kw)
            role = rec._role(path) if rec.ops is not None else None
            if role is not None:
                rec.fdrole[fd] = role
                if flags & os.O_CREAT:
                    rec.ops.append(("create_excl" if flags & os.O_EXCL else "create", role))
            return fd

        def mk_rename(real):
            def r(a, b, *x, **kw):
                ra, rb = (rec._role(a), rec._role(b)) if rec.ops is not None else (None, None)
                res = real(a, b, *x, **kw)
                if ra is not None or rb is not None:
                    rec.ops.append(("rename", ra or "?", rb or "?"))
                return res
            return r

        def mk_sync(real):
            def r(fd):
                res = real(fd)
                if rec.ops is not None and fd in rec.fdrole:
                    rec.ops.append(("fsync", rec.fdrole[fd]))
                return res
            return r

        def mk_unlink(real):
            def r(p, *x, **kw):
                role = rec._role(p) if rec.ops is not None else None
                res = real(p, *x, **kw)
                if role is not None:
                    rec.ops.append(("unlink", role))
                return res
            return r

        builtins.open = r_open
        os.open = r_os_open
        os.replace = mk_rename(sv["replace"])
        os.rename = mk_rename(sv["rename"])
        os.fsync = mk_sync(sv["fsync"])
        os.fdatasync = mk_sync(sv["fdatasync"])
        os.unlink = mk_unlink(sv["unlink"])
        os.remove = mk_unlink(sv["remove"])
        if sv["S.replacePath"] is sv["replace"]:
            S.replacePath = os.replace
        self.installed = True

    def uninstall(self):
        if not self.installed:
            return
        sv = self.saved
        builtins.open = sv["open"]
        os.open = sv["os.open"]
        os.replace = sv["replace"]
        os.rename = sv["rename"]
        os.fsync = sv["fsync"]
        os.fdatasync = sv["fdatasync"]
        os.unlink = sv["unlink"]
        os.remove = sv["remove"]
        if sv["S.replacePath"] is not None:
            self.S.replacePath = sv["S.replacePath"]
        self.installed = False


# ---------------------------------------------------------------- python mirror of Fs.v (for crash images)
def fs_apply(fs, op):
    k = op[0]
    if k in ("create_excl", "create"):
        if op[1] not in fs:
            fs[op[1]] = (b"", False)
    elif k == "write":
        fs[op[1]] = (op[2], False)
    elif k == "fsync":
        if op[1] in fs:
            fs[op[1]] = (fs[op[1]][0], True)
    elif k == "rename":
        if op[1] in fs:
            fs[op[2]] = fs.pop(op[1])
    elif k == "unlink":
        fs.pop(op[1], None)


def adler_ok(b):
    return struct.pack("=L", zlib.adler32(b[:-4])) == b[-4:]


def tear(spec, w):
    """content found after the crash in a file whose written content was w"""
    t = spec[0]
    if t == "intact":
        return w
    if t == "trunc":
        return w[:spec[1]]
    if t == "zeros":
        return b"\0" * len(w)
    if t == "tailzero":
        return w[:spec[1]] + b"\0" * (len(w) - spec[1])
    if t == "flip":
        if not w:
            return b"\x55"
        i = spec[1] % len(w)
        return w[:i] + bytes([w[i] ^ (spec[2] or 1)]) + w[i + 1:]
    if t == "bytes":
        return bytes.fromhex(spec[1])
    raise AssertionError(spec)


def gen_tear(rng, w, allow_undetectable=False):
    n = len(w)
    r = rng.random()
    if allow_undetectable and r < 0.12:
        g = bytes(rng.randrange(256) for _ in range(rng.choice([0, 3, 17])))
        return ("bytes", (g + struct.pack("=L", zlib.adler32(g))).hex())
    c = rng.choice(["trunc", "trunc", "trunc", "zeros", "tailzero", "flip", "flip", "garbage", "empty"])
    if c == "trunc":
        return ("trunc", rng.choice([0, 1, 2, 3, 4, 5, n // 2, max(0, n - 5), max(0, n - 4), max(0, n - 1), rng.randrange(n + 1)]))
    if c == "zeros":
        return ("zeros",)
    if c == "tailzero":
        return ("tailzero", rng.choice([0, 4, n // 2, max(0, n - 4), max(0, n - 1)]))
    if c == "flip":
        return ("flip", rng.choice([0, n // 2, max(0, n - 4), max(0, n - 1), rng.randrange(max(1, n))]), rng.choice([1, 0x80, 0xff, rng.randrange(1, 256)]))
    if c == "empty":
        return ("trunc", 0)
    return ("bytes", bytes(rng.randrange(256) for _ in range(rng.choice([1, 4, 8, n or 1]))).hex())


def classify(spec, w):
    v = tear(spec, w)
    if v == w:
        return "intact"
    return "undetectable" if adler_ok(v) else "detectable"


def decodable(b, consts):
    try:
        d = pickle.loads(b)
        return isinstance(d, dict) and consts["MIN_VERSION"] <= d["version"] <= consts["CUR_VERSION"] \
            and all(k in d for k in ("byNameDirs", "results", "inputs"))
    except Exception:
        return False


# ---------------------------------------------------------------- driving the implementation
class Abort(Exception):
    pass


class Impl:
    def __init__(self, ctx, consts):
        self.ctx = ctx
        self.consts = consts
        self.names = {r: consts[r] for r in ("pickle", "new", "dirty", "lock")}
        self.rec = Recorder(self.names)
        self.dirs = []
        self.cwd0 = os.getcwd()
        self.violations = []

    def __enter__(self):
        self.main = core.scratch_dir("c10m")
        self.side = core.scratch_dir("c10s")
        self.dirs = [self.main, self.side]
        self.rec.install()
        return self

    def __exit__(self, *a):
        self.rec.uninstall()
        os.chdir(self.cwd0)
        for d in self.dirs:
            shutil.rmtree(d, ignore_errors=True)
        return False

    # -- directory <-> image
    def wipe(self, d):
        for n in os.listdir(d):
            p = os.path.join(d, n)
            if os.path.isdir(p):
                shutil.rmtree(p)
            else:
                os.unlink(p)

    def materialise(self, d, fs):
        self.wipe(d)
        for role, (data, _) in fs.items():
            with self.rec.real_open(os.path.join(d, self.names[role]), "wb") as f:
                f.write(data)

    def listing(self, d):
        out = {}
        for role, n in self.names.items():
            p = os.path.join(d, n)
            if os.path.exists(p):
                with self.rec.real_open(p, "rb") as f:
                    out[role] = f.read()
        extra = sorted(set(os.listdir(d)) - set(self.names.values()))
        return out, extra

    # -- calls
    def record(self, fn):
        ops = []
        self.rec.ops = ops
        err = io.StringIO()
        try:
            with contextlib.redirect_stderr(err):
                r = fn()
        finally:
            self.rec.ops = None
        return r, ops

    def call_api(self, st, c):
        spec, fn, kind = API[c[1]]
        try:
            r = fn(st, *py_args(spec, c[2:]))
        except KeyError:
            return "(VRet (PRet RKeyError))"
        return "(VRet (PRet %s))" % ret_lit(kind, r)

    def observe(self, st):
        return tuple(self.call_api(st, c) for c in SWEEP)

    def try_start(self):
        """returns (view, instance|None, exception name)"""
        from bob.state import _BobState
        from bob.errors import BobError
        lock = os.path.exists(self.names["lock"])
        try:
            st = _BobState()
        except BobError as e:
            if lock and "lock" in str(e).lower():
                return "VRefused", None, "ParseError"
            return "VLoadError", None, type(e).__name__
        except Exception as e:
            return "VLoadError", None, type(e).__name__
        return "VStarted", st, None


def shapes_of(ops, consts):
    out = []
    for op in ops:
        k = KIND_ID.get(op[0], 6)
        a = ROLE_ID.get(op[1], 9)
        if op[0] == "write":
            b = 1 if (adler_ok(op[2]) and len(op[2]) >= 4 and decodable(op[2], consts)) else 0
        elif op[0] == "rename":
            b = ROLE_ID.get(op[2], 9)
        else:
            b = 0
        out.append((k, a, b))
    return out


def shapes_lit(sh):
    return "[" + "; ".join("(%d, %d, %d)" % s for s in sh) + "]" if sh else "(@nil shape)"


def view_lit(v, sh):
    return "(%s, %s)" % (v, shapes_lit(sh))


class Runner:
    """runs one history on the implementation, applies the oracle, collects
    what the model is compared against"""

    def __init__(self, impl, rng, nsides, thorough=False):
        self.impl, self.rng, self.nsides, self.thorough = impl, rng, nsides, thorough
        self.ctx = impl.ctx
        self.found = []          # (signature, what, history that shows it | None = the main one)
        self.cur_history = None
        self.eff = []
        self.raw = []            # byte-level start cases
        self.seals = []          # written contents
        self.content_obs = {}    # written content -> getters of the instance that wrote it

    def viol(self, sig, what):
        self.found.append((sig, what, self.cur_history))

    def start_on_image(self, d, fs, cands, tag, cls, boundary):
        """materialise fs in d, start a fresh instance, sweep, finalize; oracle.
        returns (list of (view, shapes)), obs|None"""
        impl = self.impl
        impl.materialise(d, fs)
        os.chdir(d)
        before, _ = impl.listing(d)
        (view, st, exc), ops = impl.record(impl.try_start)
        steps = [(view, shapes_of(ops, impl.consts))]
        obs = None
        after_start, _ = impl.listing(d)
        if st is not None:
            try:
                obs = tuple(impl.call_api(st, c) for c in SWEEP)
                steps += [(o, []) for o in obs]
                (_, fops) = impl.record(st.finalize)
                steps.append(("VFinalized", shapes_of(fops, impl.consts)))
            except Unmappable as e:
                self.viol("recovered-state-not-a-candidate", "%s: getter of the restarted instance returned an unknown value: %s" % (tag, e))
                obs = None
                with contextlib.suppress(Exception):
                    impl.record(st.finalize)
        locked = "lock" in fs
        # "intact" is relative to the image; an uncommitted file torn by an earlier crash stays torn
        expect = None
        if "new" in fs:
            expect = self.content_obs.get(fs["new"][0])
        elif "pickle" in fs:
            expect = self.content_obs.get(fs["pickle"][0])
        else:
            expect = impl_init_obs(impl)
        if locked:
            if view != "VRefused":
                self.viol("second-instance-not-refused", "%s: lock file present but start gave %s" % (tag, view))
            elif ops or after_start != before:
                self.viol("refused-instance-touched-workspace", "%s: refused start issued %r" % (tag, ops))
        elif cls != "undetectable":
            if st is None:
                self.viol("start-after-crash-fails", "%s: start on the crash image gave %s (%s)" % (tag, view, exc))
            elif obs is not None:
                if obs not in cands:
                    self.viol("recovered-state-not-a-candidate", "%s: the restarted instance shows a state that is none of the %d candidate snapshots" % (tag, len(cands)))
                elif cls == "intact" and expect is not None and obs != expect:
                    self.viol("intact-uncommitted-state-lost", "%s: the newest completely written state file is intact but another snapshot was loaded" % tag)
        # byte-level case for the model
        tab = []
        for role in ("pickle", "new"):
            if role in fs:
                tab.append((fs[role][0], decodable(fs[role][0], impl.consts)))
        loaded = after_start.get("pickle")
        kind = {"VRefused": 0, "VLoadError": 1, "VStarted": 2}[view]
        fp = None if kind != 2 else ((len(loaded), zlib.adler32(loaded)) if loaded is not None else (0, 1))
        rfs = dict(fs)
        if "dirty" in rfs:        # never read by __init__; abbreviated to keep the Coq literal small
            rfs["dirty"] = (rfs["dirty"][0][:8], rfs["dirty"][1])
        self.raw.append({"fs": rfs, "tab": tab, "kind": kind, "fp": fp, "shapes": shapes_of(ops, impl.consts), "cls": cls})
        return steps, obs

    def run(self, events, want_sides=True):
        """returns dict(effective events, views, sides) or raises Abort"""
        impl, rng, ctx = self.impl, self.rng, self.ctx
        impl.wipe(impl.main)
        os.chdir(impl.main)
        live = None
        depth = 0
        sim = {}
        cands = [impl_init_obs(impl)]
        eff, views, recs = [], [], []
        self.eff = eff
        for ev in events:
            kind, c = ev[0], ev[1]
            # events that make no sense are dropped (keeps every sublist runnable: shrinking)
            if c[0] in ("api", "async", "sync", "finalize") and live is None:
                continue
            if c[0] == "sync" and depth == 0:
                continue
            os.chdir(impl.main)
            sim_before = dict(sim)
            cands_before = list(cands)
            obs_before = impl.observe(live) if (live is not None and c[0] == "finalize") else None
            second = None
            try:
                if c[0] == "start":
                    if live is not None:
                        (view, second, exc), ops = impl.record(impl.try_start)
                        if second is not None:
                            self.viol("second-instance-not-refused", "a second _BobState started while the first one is alive")
                            view = "VSecond"
                    else:
                        (view, live, exc), ops = impl.record(impl.try_start)
                        depth = 0
                elif c[0] == "finalize":
                    def fin():
                        try:
                            live.finalize()
                            return "VFinalized"
                        except AssertionError:
                            return "VAssertFail"
                    view, ops = impl.record(fin)
                    if view == "VFinalized":
                        live = None
                elif c[0] == "async":
                    _, ops = impl.record(live.setAsynchronous)
                    depth += 1
                    view = "(VRet PUnit)"
                elif c[0] == "sync":
                    _, ops = impl.record(live.setSynchronous)
                    depth -= 1
                    view = "(VRet PUnit)"
                else:
                    view, ops = impl.record(lambda: impl.call_api(live, c))
            except Unmappable as e:
                raise Abort("unmappable return value of %r: %s" % (c, e))
            saved = bool(ops) and ops[0][0] == "write" and c[0] in ("api", "sync")
            for op in ops:
                if op[0] == "write":
                    self.seals.append(op[2])
            saved_obs = impl.observe(live) if (saved and live is not None) else None
            if saved_obs is not None:
                self.content_obs[ops[0][2]] = saved_obs
            k = len(ops) if kind == "cmd" else min(ev[2], len(ops))
            shapes = shapes_of(ops, impl.consts)
            # committed file durable at every operation boundary
            tmp = dict(sim)
            for i, op in enumerate(ops[:k]):
                fs_apply(tmp, op)
                if "pickle" in tmp and not tmp["pickle"][1]:
                    self.viol("committed-file-not-durable", "after %r of %r the committed state file holds data that was never fsynced" % (op[:2], c[:2]))
            recs.append({"i": len(eff), "cmd": c, "ops": ops, "sim_before": sim_before, "cands_before": cands_before,
                         "saved_obs": saved_obs, "view": view, "shapes": shapes})
            if kind == "cmd":
                eff.append(("cmd", c))
                views.append((view, shapes))
                sim = tmp
                real, extra = impl.listing(impl.main)
                if {r: d for r, (d, _) in sim.items()} != real:
                    raise Abort("file-system effects outside the logged operations after %r: logged %r, directory has %r" % (
                        c, {r: len(d) for r, (d, _) in sim.items()}, {r: len(d) for r, d in real.items()}))
                if saved_obs is not None:
                    cands.append(saved_obs)
                if c[0] == "finalize" and view == "VAssertFail" and depth == 0:
                    self.viol("unsaved-changes-outside-async-section", "finalize() raised AssertionError although no asynchronous section is open")
                if live is not None and depth == 0 and c[0] in ("api", "sync") and c not in SWEEP_SET:
                    newest = sim.get("new", sim.get("pickle"))
                    expect = self.content_obs.get(newest[0]) if newest is not None else impl_init_obs(impl)
                    if expect is not None and impl.observe(live) != expect:
                        self.viol("memory-differs-from-disk-outside-async-section",
                                  "after %r the getters show a state that is not the newest state file on disk (a change was not saved)" % (c[:3],))
                if c[0] == "start" and view == "VStarted" and second is None:
                    obs = impl.observe(live)
                    if obs not in cands:
                        self.viol("recovered-state-not-a-candidate", "start #%d shows a state that is none of the %d candidate snapshots" % (len(eff), len(cands)))
                    cands = [obs]
                    # sweep as explicit events so that the model is compared too
                    for sc, o in zip(SWEEP, obs):
                        eff.append(("cmd", sc))
                        views.append((o, []))
                elif c[0] == "start" and view == "VLoadError":
                    self.viol("start-after-crash-fails", "start #%d failed (%s)" % (len(eff), exc))
                if c[0] == "finalize" and view == "VFinalized":
                    cands = [obs_before]
            else:
                # crash after k operations; the history continues on the image
                specs = ev[3] if len(ev) > 3 and ev[3] else {}
                eff_ev = [kind, c, ev[2], specs]
                for role, (data, synced) in list(tmp.items()):
                    if synced or role == "lock":
                        continue
                    if role in specs:
                        spec = tuple(specs[role])          # replayed / hand-written
                    elif kind == "kill":
                        spec = ("intact",)
                    else:
                        for _ in range(50):
                            spec = gen_tear(rng, data)
                            if classify(spec, data) == "detectable":
                                break
                        else:
                            spec = ("trunc", 0)
                        specs[role] = list(spec)
                    tmp[role] = (tear(spec, data), False)
                if not specs.get("_keep_lock"):
                    tmp.pop("lock", None)
                if saved_obs is not None and k >= 1:
                    cands.append(saved_obs)
                eff.append(tuple(eff_ev))
                views.append((view, shapes[:k]))
                sim = tmp
                impl.materialise(impl.main, sim)
                if second is not None:
                    with contextlib.suppress(Exception):
                        impl.record(second.finalize)
                live = None
                depth = 0
        # leave no instance behind
        if live is not None:
            with contextlib.suppress(Exception):
                while depth > 0:
                    live.setSynchronous()
                    depth -= 1
                impl.record(live.finalize)
        sides = []
        if want_sides and recs:
            cand = [r for r in recs if r["ops"]] or recs
            picks = cand if self.thorough and len(cand) <= self.nsides else [rng.choice(cand) for _ in range(self.nsides)]
            for r in picks:
                sides.append(self.side_image(r))
        return {"events": eff, "views": views, "sides": [s for s in sides if s is not None]}

    def side_image(self, r):
        """a crash image that branches off the main history at event r"""
        impl, rng = self.impl, self.rng
        ops = r["ops"]
        k = rng.randrange(len(ops) + 1) if ops else 0
        fs = dict(r["sim_before"])
        for op in ops[:k]:
            fs_apply(fs, op)
        cands = list(r["cands_before"])
        if r["saved_obs"] is not None and k >= 1:
            cands.append(r["saved_obs"])
        mode = rng.random()
        keep_lock = mode < 0.08 and "lock" in fs
        cls = "intact"
        specs = {}
        if mode < 0.45:
            kind = "kill"
        else:
            kind = "tear"
        for role, (data, synced) in list(fs.items()):
            if synced or role == "lock":
                continue
            if kind == "kill":
                continue
            if role == "new":
                spec = gen_tear(rng, data, allow_undetectable=True)
                c = classify(spec, data)
                if c == "intact":        # e.g. truncation to the full length: that is a kill
                    spec = ("trunc", max(0, len(data) - 1))
                    c = classify(spec, data)
                cls = c
            else:
                spec = gen_tear(rng, data)
                if role == "pickle" and classify(spec, data) != "intact":
                    cls = "detectable" if cls == "intact" else cls
            specs[role] = list(spec)
            fs[role] = (tear(spec, data), False)
        if keep_lock:
            specs["_keep_lock"] = True
        else:
            fs.pop("lock", None)
        self.cur_history = [e for e in self.eff[:r["i"]] if e[1] not in SWEEP_SET] + [(kind, r["cmd"], k, specs), ("cmd", ("start",)), ("cmd", ("finalize",))]
        tag = "crash after %d/%d operations of %r (%s, %s)" % (k, len(ops), r["cmd"][:2], kind, cls)
        self.ctx.count("image:%s:%s" % (kind if not keep_lock else "locked", cls))
        self.ctx.count("image-at:%s:k%d" % (r["cmd"][0] if r["cmd"][0] != "api" else "save" if ops else "call", k))
        boundary = (k == 0 or k == len(ops))
        steps, obs = self.start_on_image(impl.side, fs, cands, tag, cls, boundary)
        self.cur_history = None
        self.ctx.evaluated()
        has_new = "new" in fs
        self.ctx.nontrivial(("img", r["i"], k, kind, cls, has_new, "pickle" in fs, tuple(sorted((ro, len(d)) for ro, (d, _) in fs.items()))))
        if keep_lock or cls == "undetectable":
            return None          # not expressible in the symbolic instance (byte-level case only)
        tevs = [(kind, r["cmd"], k)] + [("cmd", ("start",))]
        if steps[0][0] == "VStarted":
            tevs += [("cmd", c) for c in SWEEP] + [("cmd", ("finalize",))]
        # the crashed command's own view (model: outcome of the full command, first k operations)
        return {"n": r["i"], "tevs": tevs, "steps": steps, "k": k, "first": (r["view"], r["shapes"][:k])}


_INIT_OBS = {}


def impl_init_obs(impl):
    """getters of an instance on an empty workspace"""
    if "o" not in _INIT_OBS:
        impl.wipe(impl.side)
        os.chdir(impl.side)
        (view, st, exc), _ = impl.record(impl.try_start)
        if st is None:
            raise Abort("cannot start on an empty directory: %s %s" % (view, exc))
        _INIT_OBS["o"] = impl.observe(st)
        impl.record(st.finalize)
        impl.wipe(impl.side)
        os.chdir(impl.main)
    return _INIT_OBS["o"]


# ---------------------------------------------------------------- generator
def gen_args(rng, spec):
    out = []
    for ch in spec:
        if ch == "K":
            out.append(rng.choice(KEYS))
        elif ch == "D":
            out.append(rng.choice(DIGESTS).hex())
        elif ch == "B":
            out.append(rng.choice(BASES))
        elif ch == "b":
            out.append(rng.random() < 0.5)
        elif ch == "V":
            out.append(None if rng.random() < 0.12 else rng.randrange(len(VPOOL)))
        elif ch == "S":
            out.append(None if rng.random() < 0.15 else rng.choice(STORAGE + KEYS))
        elif ch == "A":
            out.append(rng.choice(ATTIC))
        elif ch == "J":
            out.append(rng.choice(JENKINS))
        elif ch == "O":
            out.append(rng.choice(JOBS))
        elif ch == "C":
            out.append(rng.randrange(2))
    return out


CORE_MUT = ["SetResult", "SetInputs", "DelInputs", "SetDir", "DelDir", "SetVariant", "SetStorage", "ResetWs",
            "GetByNameDir", "SetAttic", "DelAttic", "SetLayer", "DelLayer", "SetBuildState"]
JENK_MUT = ["AddJenkins", "DelJenkins", "JenkinsByNameDir", "SetJenkinsConfig", "AddJenkinsJob", "DelJenkinsJob", "SetJenkinsJob"]


DICT_VALUES = [i for i, v in enumerate(VPOOL) if isinstance(v, dict)]
_LAST_DICT_SET = {}


def gen_call(rng, jenk):
    """one API call; after a setter that took a dict, the same setter is often called again for the same key with
    another dict (the builder's loop over the SCMs of a checkout: one dict object changed in place and re-submitted)"""
    last = _LAST_DICT_SET.get(id(rng))
    if last is not None and rng.random() < 0.6:
        n, key, v = last
        v2 = rng.choice([i for i in DICT_VALUES if i != v])
        _LAST_DICT_SET[id(rng)] = (n, key, v2)
        return ("api", n) + tuple(key) + (v2,)
    c = gen_call0(rng, jenk)
    if c[1] in ("SetDir", "SetLayer", "SetBuildState") and c[-1] in DICT_VALUES:
        _LAST_DICT_SET[id(rng)] = (c[1], c[2:-1], c[-1])
    else:
        _LAST_DICT_SET.pop(id(rng), None)
    return c


def gen_call0(rng, jenk):
    r = rng.random()
    if r < 0.70:
        n = rng.choice(CORE_MUT)
    elif r < 0.70 + (0.18 if jenk else 0.02):
        n = rng.choice(JENK_MUT)
    else:
        n = rng.choice(GETTERS)
    return ("api", n) + tuple(gen_args(rng, API[n][0]))


def gen_history(rng, long=False):
    ev = []
    jenk = rng.random() < 0.3
    ninv = rng.choice([1, 2, 2, 3, 4] + ([6] if long else []))
    for inv in range(ninv):
        if rng.random() < 0.12:
            ev.append((rng.choice(["kill", "tear"]), ("start",), rng.randrange(4), {}))   # crash inside the recovery itself
        ev.append(("cmd", ("start",)))
        depth = 0
        ncall = rng.choice([2, 5, 8, 12, 20] + ([40, 80] if long else []))
        for i in range(ncall):
            r = rng.random()
            if r < 0.07 and depth < 3:
                ev.append(("cmd", ("async",)))
                depth += 1
            elif r < 0.15 and depth > 0:
                ev.append(("cmd", ("sync",)))
                depth -= 1
            elif r < 0.18:
                ev.append(("cmd", ("start",)))          # second instance
            elif r < 0.19 and depth > 0:
                ev.append(("cmd", ("finalize",)))       # asserts
            else:
                ev.append(("cmd", gen_call(rng, jenk)))
        end = rng.random()
        if end < 0.25 and depth > 0:
            pass                                        # crash inside the asynchronous section
        else:
            while depth > 0:
                ev.append(("cmd", ("sync",)))
                depth -= 1
        if end < 0.45:
            ev.append(("cmd", ("finalize",)))
        elif end < 0.75:
            c = gen_call(rng, jenk)
            while c[1] not in MUTATORS:
                c = gen_call(rng, jenk)
            ev.append((rng.choice(["kill", "tear", "tear"]), c, rng.randrange(4), {}))
        else:
            ev.append((rng.choice(["kill", "tear", "tear"]), ("finalize",), rng.randrange(5), {}))
    if rng.random() < 0.8:
        ev.append(("cmd", ("start",)))
        ev.append(("cmd", ("finalize",)))
    return ev


# ---------------------------------------------------------------- Coq cases
def norm_preamble():
    pairs = ["(%s, %s)" % (L.s(a), L.s(os.path.normpath(a))) for a in ATTIC if os.path.normpath(a) != a]
    sw = "Definition SW : list tev := %s.\n" % L.lst([coq_tev(("cmd", c)) for c in SWEEP])
    return "Definition nrm : key -> key := norm_of [%s].\n" % "; ".join(pairs) + sw


def tev_list_lit(evs):
    """list tev literal; runs of the getter sweep are written as the shared definition SW"""
    sw = [("cmd", c) for c in SWEEP]
    n = len(sw)
    segs, cur, i = [], [], 0
    while i < len(evs):
        if n and [tuple(e[:2]) for e in evs[i:i + n]] == sw and all(e[0] == "cmd" for e in evs[i:i + n]):
            if cur:
                segs.append(L.lst(cur))
                cur = []
            segs.append("SW")
            i += n
        else:
            cur.append(coq_tev(evs[i]))
            i += 1
    if cur:
        segs.append(L.lst(cur))
    if not segs:
        return "(@nil tev)"
    return "(" + " ++ ".join(segs) + ")"


def case_lits(res):
    main = tev_list_lit(res["events"])
    sides = []
    es = []
    for s in res["sides"]:
        sides.append("(%d%%nat, %s)" % (s["n"], tev_list_lit(s["tevs"])))
        es.append(L.lst([view_lit(*s["first"])] + [view_lit(v, sh) for v, sh in s["steps"]]))
    main_views = [view_lit(v, sh) for v, sh in res["views"]]
    exp_main = L.lst(main_views) if main_views else "(@nil step_view)"
    inp = "(%s, %s)" % (main, L.lst(sides) if sides else "(@nil (nat * list tev))")
    exp = "(%s, %s)" % (exp_main, L.lst(es) if es else "(@nil (list step_view))")
    return inp, exp


def bl(b):
    """bytes -> list N literal; cons chain (the bracket notation is much slower in coqc for long lists)"""
    if not b:
        return "(@nil N)"
    return "(" + "::".join(str(x) for x in b) + "::nil)"


def raw_lits(c):
    """input (decodability table, image); every content is written once and shared by let"""
    fs = c["fs"]
    lets, nm = [], {}
    for role in ("pickle", "new", "dirty", "lock"):
        if role in fs:
            nm[role] = "x_" + role
            lets.append("let %s := %s in " % (nm[role], bl(fs[role][0])))

    def f(role):
        if role not in fs:
            return "None"
        return "(Some (@mkFile bytes %s %s))" % (nm[role], L.B(fs[role][1]))
    okmap = {b: ok for b, ok in c["tab"]}
    tab = ["(%s, %s)" % (nm[r], L.B(okmap[fs[r][0]])) for r in ("pickle", "new") if r in fs]
    tabl = L.lst(tab) if tab else "(@nil (bytes * bool))"
    inp = "(%s(%s, @mkFs bytes %s %s %s %s))" % ("".join(lets), tabl, f("pickle"), f("new"), f("dirty"), f("lock"))
    fp = "(@None (N * N))" if c["fp"] is None else "(Some (%d, %d))" % c["fp"]
    exp = "(%d, %s, %s)" % (c["kind"], fp, shapes_lit(c["shapes"]))
    return inp, exp


PRE_RAW = """
Definition fp_eqb (a b : option (N * N)) : bool :=
  match a, b with None, None => true | Some x, Some y => (fst x =? fst y) && (snd x =? snd y) | _, _ => false end.
Definition raw_eqb (a b : N * option (N * N) * list shape) : bool :=
  (fst (fst a) =? fst (fst b)) && fp_eqb (snd (fst a)) (snd (fst b)) && list_eqb shape_eqb (snd a) (snd b).
"""


# ---------------------------------------------------------------- shrinking
def shrink(impl, events, sig, budget=120):
    """greedy removal of events while the same violation class is still found"""
    def fails(evs):
        r = Runner(impl, __import__("random").Random(12345), nsides=0)
        try:
            r.run(evs, want_sides=False)
        except Exception:
            return False
        return any(f[0] == sig for f in r.found)
    if not fails(events):
        return events
    cur = list(events)
    chunk = max(1, len(cur) // 2)
    while chunk >= 1 and budget > 0:
        i = 0
        progressed = False
        while i < len(cur) and budget > 0:
            cand = cur[:i] + cur[i + chunk:]
            budget -= 1
            if cand and fails(cand):
                cur = cand
                progressed = True
            else:
                i += chunk
        if not progressed:
            chunk //= 2
    return cur


def to_json_events(evs):
    return [list(e[:1]) + [list(e[1])] + [x if not isinstance(x, tuple) else list(x) for x in e[2:]] for e in evs]


def from_json_events(evs):
    out = []
    for e in evs:
        c = tuple(e[1])
        if e[0] == "cmd":
            out.append(("cmd", c))
        else:
            out.append((e[0], c, int(e[2]), dict(e[3]) if len(e) > 3 and e[3] else {}))
    return out


# ---------------------------------------------------------------- main
def load_corpus():
    out = []
    for p in sorted(glob.glob(os.path.join(core.VERIF, "corpus", "C10", "*.json"))):
        with open(p) as f:
            d = json.load(f)
        out.append((os.path.basename(p), from_json_events(d["events"])))
    return out


def run(ctx):
    global SWEEP
    from props import consts_c10
    ctx.rule = ("histories of 1-6 invocations over all mutator families (values incl. None, nested asynchronous sections, "
                "second instances, finalize inside a section), ended by finalize or by a crash after k operations of a "
                "saving call / finalize / the recovery itself (SIGKILL = content kept, power loss = unsynced files torn), "
                "continued on the crash image; plus side crash images at sampled prefixes of the operation trace with "
                "truncation/zero-fill/bit-flip/garbage/undetectable variants of the uncommitted file. A case is non-trivial "
                "when a fresh instance was started on a crash image; distinct by (position, prefix length, tear class, files present)")
    ctx.assumptions += [
        "pickle is opaque: enc/dec with dec(seal(enc s)) = Some s (a pickle followed by the 4-byte trailer loads to the state that was dumped)",
        "kernel: rename/unlink/O_CREAT|O_EXCL are atomic; directory entries are durable in program order; fsync makes the file content durable",
        "a crash leaves any bytes in files written but not fsynced; theorems assume 'detectable': the uncommitted file is then what was written or fails Adler-32 (Example detectable_is_needed shows the assumption cannot be dropped)",
        "after a crash the lock file is removed by hand (the error message of Bob says so); os.open failing with another errno than EEXIST, unlink/rename errors, and states written by older Bob versions are not modelled",
        "little-endian host for struct.pack('=L'); setSynchronous is never called more often than setAsynchronous",
        "proved: the theorems of C10/Properties.v about the Gallina model; exercised only by the correspondence: that the model predicts bob.state (" + str(len(API)) + " API calls, start, finalize), Adler-32 model = zlib",
    ]
    try:
        consts = consts_c10.read_consts()
    except Exception as e:
        ctx.tie_broken("constants-translator", str(e))
        # the violation is reported whatever follows; go on with the constants of the last successful
        # translation to look for a concrete failing input
        try:
            consts = consts_c10.last_good()
            ctx.note("constants of the last successful translation are used to search for a failing input")
        except Exception:
            return
    if sys.byteorder != "little":
        ctx.note("big-endian host: the byte-level comparison of the trailer is skipped")
    SWEEP = sweep_cmds()
    SWEEP_SET.update(SWEEP)
    thorough = ctx.tier == "thorough"

    with Impl(ctx, consts) as impl:
        if ctx.replay:
            return replay(ctx, impl)
        n_hist = ctx.n(90, 400)
        n_sides = ctx.n(7, 14)
        n_raw = ctx.n(160, 1000)
        cases, metas, raws, seals = [], [], [], []
        reported = set()
        first_bad = None
        todo = [("corpus:" + n, evs) for n, evs in load_corpus()]
        todo += [("gen", None)] * n_hist
        for idx, (src, evs) in enumerate(todo):
            if evs is None:
                evs = gen_history(ctx.rng, long=thorough and idx % 7 == 0)
            r = Runner(impl, ctx.rng, n_sides, thorough)
            try:
                res = r.run(evs)
            except (Abort, Unmappable) as e:
                ctx.tie_broken("c10-impl-run", {"source": src, "why": str(e)[:1500], "events": to_json_events(evs)[:80]})
                continue
            ctx.evaluated()
            ctx.count("history:" + ("corpus" if src != "gen" else "generated"))
            for e in res["events"]:
                if e[0] != "cmd":
                    ctx.count("main-crash:%s:%s:k%d" % (e[0], e[1][0] if e[1][0] != "api" else "call", e[2]))
                    ctx.nontrivial(("main", idx, len(metas), e[0], e[1][:2], e[2]))
                elif e[1][0] == "api" and e[1] not in SWEEP_SET:
                    ctx.count("call:" + e[1][1])
            for sig, what, hist in r.found:
                if sig in reported:
                    continue          # one minimised witness per class
                reported.add(sig)
                report(ctx, impl, sig, what, hist if hist is not None else evs)
            cases.append(case_lits(res))
            metas.append({"source": src, "events": to_json_events(res["events"])[:120], "n_sides": len(res["sides"])})
            raws.extend(r.raw)
            seals.extend(r.seals)
            if len(ctx.cov["samples"]) < 4 and res["sides"]:
                ctx.sample({"history_events": len(res["events"]), "first_events": to_json_events(res["events"])[:6],
                            "side_images": len(res["sides"])})
            if ctx.violations:
                first_bad = idx if first_bad is None else first_bad
                if idx - first_bad >= 5:
                    break          # the implementation is broken; a few more histories for other classes, then stop
        os.chdir(impl.cwd0)

    # ---- model: histories on the symbolic instance
    pre = norm_preamble()
    bad, log = coq.run_cases(ctx, ["BobV.C10.Fs", "BobV.C10.Model"], "(fun i => run_case nrm (fst i) (snd i))", "case_eqb",
                             cases, preamble=pre, tag="hist", shard=18)
    if bad is None:
        ctx.tie_broken("C10 model evaluation failed (histories)", log)
    else:
        nside = sum(m["n_sides"] for i, m in enumerate(metas) if i not in set(bad))
        ctx.validated(len(cases) - len(bad) + nside)
        for i in bad[:5]:
            detail = dict(metas[i])
            got, _ = coq.eval_terms(ctx, ["BobV.C10.Fs", "BobV.C10.Model"],
                                    ["let i := %s in let e := %s in (map (fun p => step_view_eqb (fst p) (snd p)) (combine (fst (run_case nrm (fst i) (snd i))) (fst e)), map (fun q => map (fun p => step_view_eqb (fst p) (snd p)) (combine (fst q) (snd q))) (combine (snd (run_case nrm (fst i) (snd i))) (snd e)))" % cases[i]],
                                    preamble=pre)
            detail["agreement_per_step(main, sides)"] = (got[0] if got else "?")[:3000]
            ctx.tie_broken("history-correspondence", detail)
        if bad:
            ctx.count("history-model-mismatch", len(bad))

    # ---- model: byte-level start on real crash images
    if sys.byteorder == "little":
        seen = {}
        for c in raws:
            key = (c["cls"], c["kind"], "pickle" in c["fs"], "new" in c["fs"], "lock" in c["fs"], tuple(c["shapes"]))
            seen.setdefault(key, []).append(c)
        pick = []
        while len(pick) < n_raw and any(seen.values()):
            for key in list(seen):
                if seen[key] and len(pick) < n_raw:
                    pick.append(seen[key].pop())
        rcases = [raw_lits(c) for c in pick]
        bad, log = coq.run_cases(ctx, ["BobV.C10.Fs", "BobV.C10.Model"], "(fun i => raw_start_view (fst i) (snd i))", "raw_eqb",
                                 rcases, preamble=PRE_RAW, tag="raw", shard=25)
        if bad is None:
            ctx.tie_broken("C10 model evaluation failed (byte-level start)", log[:1500] + " ... " + log[-300:])
        else:
            ctx.validated(len(rcases) - len(bad))
            ctx.count("raw-start-cases", len(rcases))
            for i in bad[:5]:
                c = pick[i]
                ctx.tie_broken("raw-start-correspondence", {"files": {r: [d.hex(), s] for r, (d, s) in c["fs"].items()},
                                                            "impl": [c["kind"], c["fp"], c["shapes"]], "class": c["cls"]})
        # seal: what __save writes is payload ++ Adler-32 trailer
        uniq = sorted(set(seals), key=lambda b: (len(b), b))
        step = max(1, len(uniq) // ctx.n(24, 200))
        scases = [(bl(b[:-4]), bl(b)) for b in uniq[::step] if len(b) >= 4]
        bad, log = coq.run_cases(ctx, ["BobV.C10.Fs", "BobV.C10.Model"], "seal", "bytes_eqb", scases, tag="seal",
                                 shard=12)
        if bad is None:
            ctx.tie_broken("C10 model evaluation failed (seal)", log)
        else:
            ctx.validated(len(scases) - len(bad))
            ctx.count("seal-cases", len(scases))
            for i in bad[:3]:
                ctx.tie_broken("seal-correspondence", {"written": uniq[::step][i].hex()})


SWEEP_SET = set()


def report(ctx, impl, sig, what, evs):
    small = evs
    try:
        small = shrink(impl, evs, sig)
    except Exception:
        pass
    ctx.violation(sig, what, {"events": to_json_events(small), "original_length": len(evs),
                              "how": "python harness/run.py C10 --replay <this file>: the history is run on bob.state._BobState in a scratch directory; crash events materialise the image after k operations"})


def replay(ctx, impl):
    d = json.load(open(ctx.replay))
    c = d.get("case", d)
    evs = from_json_events(c["events"])
    r = Runner(impl, ctx.rng, nsides=0)
    res = r.run(evs, want_sides=False)
    ctx.evaluated()
    print("replayed %d events; violations found: %r" % (len(res["events"]), r.found))
    for sig, what, _ in r.found:
        ctx.violation(sig, what, {"events": to_json_events(evs)})
