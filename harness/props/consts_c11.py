"""Constants translator for C11: reads the ignore lists, the cache file
signature and the struct formats of DirHasher from the *current*
pym/bob/utils.py and writes coq/Gen/ConstsC11.v.  Fail-closed."""
import ast, re, struct, sys
from vlib.gen_consts import parse, find_def, TieError

NAME = "ConstsC11"


def _bytes_lit(b):
    return "[" + ";".join(str(x) for x in b) + "]" if b else "(@nil N)"


def _class_assign(cls, name):
    for n in cls.body:
        if isinstance(n, ast.Assign) and len(n.targets) == 1 and isinstance(n.targets[0], ast.Name) \
                and n.targets[0].id == name:
            return n.value
    raise TieError("%s.%s not found" % (cls.name, name))


def _fsencoded_set(node, what):
    """frozenset([os.fsencode("x"), ...]) -> [b"x", ...]"""
    if not (isinstance(node, ast.Call) and isinstance(node.func, ast.Name) and node.func.id in ("frozenset", "set")
            and len(node.args) == 1 and isinstance(node.args[0], (ast.List, ast.Tuple, ast.Set))):
        raise TieError("%s is no longer frozenset([...])" % what)
    out = []
    for e in node.args[0].elts:
        if isinstance(e, ast.Constant) and isinstance(e.value, bytes):
            out.append(e.value)
        elif (isinstance(e, ast.Call) and isinstance(e.func, ast.Attribute) and e.func.attr == "fsencode"
              and len(e.args) == 1 and isinstance(e.args[0], ast.Constant) and isinstance(e.args[0].value, str)):
            out.append(e.args[0].value.encode("utf-8"))
        else:
            raise TieError("%s: element is not os.fsencode(<literal>): %s" % (what, ast.dump(e)))
    return sorted(out)


def _struct_widths(fmt):
    if not fmt or fmt[0] not in "=<":
        raise TieError("struct format %r does not use standard sizes ('=' or '<')" % fmt)
    widths = []
    for cnt, ch in re.findall(r"(\d*)([a-zA-Z?])", fmt[1:]):
        if ch == "s":
            widths.append(int(cnt or "1"))
        else:
            for _ in range(int(cnt or "1")):
                widths.append(struct.calcsize("=" + ch))
    if sum(widths) != struct.calcsize(fmt):
        raise TieError("cannot account for struct format %r" % fmt)
    return widths


def _pack_formats(fn):
    """literal first arguments of struct.pack calls inside a function"""
    out = []
    for n in ast.walk(fn):
        if (isinstance(n, ast.Call) and isinstance(n.func, ast.Attribute) and n.func.attr == "pack"
                and n.args and isinstance(n.args[0], ast.Constant) and isinstance(n.args[0].value, str)):
            out.append(n.args[0].value)
    return out


def extract(out):
    t = parse("pym/bob/utils.py")
    dh = find_def(t, "DirHasher")
    fi = find_def(t, "DirHasher.FileIndex")
    dirs = _fsencoded_set(_class_assign(dh, "IGNORE_DIRS"), "DirHasher.IGNORE_DIRS")
    files = _fsencoded_set(_class_assign(dh, "IGNORE_FILES"), "DirHasher.IGNORE_FILES")
    sig = _class_assign(fi, "SIGNATURE")
    if not (isinstance(sig, ast.Constant) and isinstance(sig.value, bytes)):
        raise TieError("FileIndex.SIGNATURE is not a bytes literal")
    fmt = _class_assign(fi, "CACHE_ENTRY_FMT")
    if not (isinstance(fmt, ast.Constant) and isinstance(fmt.value, str)):
        raise TieError("FileIndex.CACHE_ENTRY_FMT is not a string literal")
    out.append("(* pym/bob/utils.py: DirHasher *)")
    out.append("Definition IGNORE_DIRS : list (list N) := [%s]." % "; ".join(_bytes_lit(b) for b in dirs))
    out.append("Definition IGNORE_FILES : list (list N) := [%s]." % "; ".join(_bytes_lit(b) for b in files))
    out.append("Definition SIGNATURE : list N := %s." % _bytes_lit(sig.value))
    out.append("Definition CACHE_ENTRY_FMT : list N := %s." % _bytes_lit(fmt.value.encode()))
    out.append("Definition CACHE_ENTRY_WIDTHS : list N := [%s]." % ";".join(map(str, _struct_widths(fmt.value))))
    # formats of the per-entry blob (mode) and of device numbers
    hd = None
    he = None
    for n in dh.body:
        if isinstance(n, ast.FunctionDef) and n.name.endswith("__hashDir"):
            hd = n
        if isinstance(n, ast.FunctionDef) and n.name.endswith("__hashEntry"):
            he = n
    if hd is None or he is None:
        raise TieError("DirHasher.__hashDir/__hashEntry not found")
    fd, fe = _pack_formats(hd), _pack_formats(he)
    if len(fd) != 1 or len(fe) != 1:
        raise TieError("expected one struct.pack in __hashDir and one in __hashEntry, got %r %r" % (fd, fe))
    out.append("Definition DIRENT_MODE_FMT : list N := %s." % _bytes_lit(fd[0].encode()))
    out.append("Definition DEV_FMT : list N := %s." % _bytes_lit(fe[0].encode()))
    out.append("Definition HOST_LITTLE_ENDIAN : bool := %s." % ("true" if sys.byteorder == "little" else "false"))
