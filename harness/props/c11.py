"""C11 — directory hashes are content exact and cache transparent.

Implementation side: bob.utils.hashDirectory (imported from the repository as
it is now) runs in a worker process in which hashlib.sha1, open() and
os.readlink are wrapped *before* bob is imported, so that the worker reports
the sequence of byte strings given to SHA-1 and the files/links that were read
(= cache misses).  The harness builds real trees under /var/tmp, applies
histories of modifications (and of manipulations of cache.bin that keep the
cache truthful), and after every step

  * runs hashDirectory(path, cache.bin) and hashDirectory(path)      [implementation]
  * takes its own lstat/scandir/read snapshot of the tree            [harness]
  * oracle (no model involved): cached digest == uncached digest; for pairs
    of states of the history: equal canonical serialisation <=> equal digest
  * Coq model (vm_compute): hash_dir, hashed_dir, hash_cached and
    hash_cached_traced on the snapshot + the bytes of the old cache.bin must
    give the same digests, the same sequence of hashed blobs, the same
    read/miss sequence and the same bytes of the new cache.bin.

SHA-1 in the model runs: H is instantiated with a table (blob -> real SHA-1
digest computed by hashlib) holding the blobs the implementation hashed in
that step; a blob the model wants to hash that is not in the table yields a
non-byte value and therefore a mismatch.
"""
import binascii, glob, hashlib, json, os, shutil, socket, stat, struct, subprocess, sys, time

PROPERTY_FILES = ["C11/Properties.v"]

IGN_DIRS = {b".git", b".svn", b".portage-cache"}
IGN_FILES = {b"BaseDirList.txt"}
SIG = b"BOB2"
FMT = "=qqQQLQ20sH"
ESZ = struct.calcsize(FMT)


# =========================================================================== worker (implementation side)
def worker_main():
    import builtins
    log = []
    state = {"root": None}
    real_sha1 = hashlib.sha1

    class RecSha1:
        def __init__(self, data=b"", **kw):
            self._h = real_sha1()
            self._buf = bytearray()
            if data:
                self.update(data)

        def update(self, data):
            self._h.update(data)
            self._buf += bytes(data)

        def digest(self):
            log.append(("h", bytes(self._buf)))
            return self._h.digest()

        def hexdigest(self):
            log.append(("h", bytes(self._buf)))
            return self._h.hexdigest()

        def copy(self):
            c = RecSha1()
            c._h = self._h.copy()
            c._buf = bytearray(self._buf)
            return c

        digest_size = 20
        block_size = 64
        name = "sha1"

    hashlib.sha1 = RecSha1

    def rel(path):
        root = state["root"]
        if root is None:
            return None
        try:
            p = os.fsencode(path)
        except TypeError:
            return None
        if p.startswith(root + b"/"):
            return p[len(root) + 1:]
        return None

    real_open = builtins.open

    def rec_open(file, mode="r", *a, **kw):
        if isinstance(file, (str, bytes)) and "r" in mode and "+" not in mode:
            r = rel(file)
            if r is not None:
                log.append(("r", r))
        return real_open(file, mode, *a, **kw)

    builtins.open = rec_open
    real_readlink = os.readlink

    def rec_readlink(path, *a, **kw):
        r = rel(path)
        if r is not None:
            log.append(("r", r))
        return real_readlink(path, *a, **kw)

    os.readlink = rec_readlink
    import logging
    logging.disable(logging.CRITICAL)
    import bob.utils as U

    out = sys.stdout
    for line in sys.stdin:
        req = json.loads(line)
        if req["op"] == "quit":
            break
        if req["op"] == "where":
            out.write(json.dumps({"file": U.__file__}) + "\n")
            out.flush()
            continue
        del log[:]
        state["root"] = os.fsencode(req["path"])
        res = {}
        try:
            d = U.hashDirectory(req["path"], req.get("index"), req.get("ignore") or None)
            res["digest"] = binascii.hexlify(d).decode()
        except BaseException as e:       # noqa
            res["exc"] = type(e).__name__ + ": " + str(e)[:200]
        res["events"] = [[k, binascii.hexlify(v).decode()] for k, v in log]
        state["root"] = None
        out.write(json.dumps(res) + "\n")
        out.flush()


if __name__ == "__main__" and len(sys.argv) > 1 and sys.argv[1] == "--worker":
    worker_main()
    sys.exit(0)

from vlib import coq, core, coqlit as L   # noqa: E402


class Worker:
    def __init__(self):
        env = dict(os.environ)
        env["PYTHONPATH"] = os.path.join(core.VERIF, "harness") + ":" + os.path.join(core.REPO, "pym")
        env["PYTHONDONTWRITEBYTECODE"] = "1"
        self.p = subprocess.Popen([sys.executable, os.path.abspath(__file__), "--worker"], stdin=subprocess.PIPE,
                                  stdout=subprocess.PIPE, stderr=subprocess.DEVNULL, env=env, text=True)

    def call(self, req):
        self.p.stdin.write(json.dumps(req) + "\n")
        self.p.stdin.flush()
        line = self.p.stdout.readline()
        if not line:
            raise RuntimeError("C11 worker died")
        return json.loads(line)

    def hash(self, root, index=None, ignore=None):
        r = self.call({"op": "hash", "path": root, "index": index, "ignore": ignore})
        ev = [(k, binascii.unhexlify(v)) for k, v in r["events"]]
        return (binascii.unhexlify(r["digest"]) if "digest" in r else None), r.get("exc"), ev

    def close(self):
        try:
            self.p.stdin.write('{"op": "quit"}\n')
            self.p.stdin.flush()
            self.p.wait(timeout=5)
        except Exception:
            self.p.kill()


# =========================================================================== snapshot and canonical form (harness' own)
def kind_of(mode):
    f = stat.S_IFMT(mode)
    return {stat.S_IFREG: "f", stat.S_IFDIR: "d", stat.S_IFLNK: "l", stat.S_IFCHR: "c", stat.S_IFBLK: "b",
            stat.S_IFIFO: "p"}.get(f, "o")


def stat6(s):
    return (s.st_ctime_ns, s.st_mtime_ns, s.st_dev, s.st_ino, s.st_mode, s.st_size)


def snapshot(path):
    """entries of directory `path` (bytes) in scandir order"""
    out = []
    with os.scandir(path) as it:
        names = [e.name for e in it]
    for n in names:
        p = os.path.join(path, n)
        s = os.lstat(p)
        k = kind_of(s.st_mode)
        e = {"name": n, "kind": k, "st": stat6(s)}
        if k == "f":
            with open(p, "rb") as f:
                e["data"] = f.read()
        elif k == "l":
            e["data"] = os.readlink(p)
        elif k in "cb":
            e["rdev"] = s.st_rdev
        elif k == "d":
            e["children"] = snapshot(p)
        out.append(e)
    return out


def walk_files(entries, prefix=b""):
    """(relative path, entry) of every regular file and symlink, any order"""
    for e in entries:
        p = prefix + e["name"]
        if e["kind"] in "fl":
            yield p, e
        elif e["kind"] == "d":
            yield from walk_files(e["children"], p + b"/")


def all_paths(entries, prefix=b""):
    for e in entries:
        p = prefix + e["name"]
        yield p, e
        if e["kind"] == "d":
            yield from all_paths(e["children"], p + b"/")


def canon_py(entries, extra_ign=()):
    """what the hash is documented to be a function of"""
    out = []
    for e in entries:
        k = e["kind"]
        if k == "d":
            if e["name"] in IGN_DIRS or e["name"] in extra_ign:
                continue
            out.append((e["name"], "d", e["st"][4], canon_py(e["children"], extra_ign)))
        else:
            if e["name"] in IGN_FILES:
                continue
            out.append((e["name"], k, e["st"][4], e.get("data", e.get("rdev"))))
    return tuple(sorted(out, key=lambda x: x[0]))


def key_of(path, st):
    return (path, st[0], st[1], st[2], st[3] & 0xFFFFFFFFFFFFFFFF, st[4], st[5])


# =========================================================================== cache.bin helpers (harness' own reader, used to forge truthful indexes)
def parse_cache(b):
    if b is None or b[:4] != SIG:
        return None
    pos = 4
    recs = []
    while len(b) - pos >= ESZ:
        ct, mt, dev, ino, mode, size, dg, nl = struct.unpack(FMT, b[pos:pos + ESZ])
        name = b[pos + ESZ:pos + ESZ + nl]
        recs.append({"name": name, "st": (ct, mt, dev, ino, mode, size), "digest": dg})
        pos += ESZ + nl
    return recs


def ser_cache(recs):
    out = [SIG]
    for r in recs:
        ct, mt, dev, ino, mode, size = r["st"]
        out.append(struct.pack(FMT, ct, mt, dev, ino, mode, size, r["digest"], len(r["name"])) + r["name"])
    return b"".join(out)


def read_file(p):
    try:
        with open(p, "rb") as f:
            return f.read()
    except FileNotFoundError:
        return None


# =========================================================================== operations
NAMES = [b"a", b"a.b", b"a-b", b"a0", b"ab", b"a b", b"A", b"b", b"c", b"d", b"\xc3\xa9", b"\xff\xfe", b"~", b"-",
         b".git", b".svn", b"BaseDirList.txt", b" ", b"a\nb", b"$x", b"a'b", b"a!", b"a+", b"a.", b"z", b"b.c", b"b0",
         b".portage-cache", b"x" * 60, b"B", b"a,", b"a\\", b"0"]
MODES = [0o644, 0o755, 0o600, 0o400, 0o444, 0o4755, 0o2750, 0o1777, 0o000, 0o664, 0o700, 0o640]


def lat(b):
    return b.decode("latin-1")


def unlat(s):
    return s.encode("latin-1")


def gen_data(rng):
    n = rng.choice([0, 1, 1, 2, 3, 5, 8, 13, 20])
    return bytes(rng.choice(b"abAB01\x00\xff\n /") for _ in range(n))


def gen_initial(rng, depth=0):
    """list of creation ops for a random tree"""
    ops = []

    def fill(prefix, depth):
        n = rng.choice([0, 1, 2, 3, 3, 4, 5, 6]) if depth else rng.choice([2, 3, 4, 5, 6, 7])
        names = rng.sample(NAMES, n)
        # make the '/'-suffix matter: a directory next to files whose names extend it
        if n >= 3 and rng.random() < 0.5:
            base = rng.choice([b"a", b"b"])
            names = [base, base + rng.choice([b".b", b"-b", b"!", b"+", b",", b"."]), base + rng.choice([b"0", b"b", b"\\"])] + names[3:]
            names = list(dict.fromkeys(names))
        first = True
        for nm in names:
            p = prefix + nm
            r = rng.random()
            if nm in (b".git", b".svn", b".portage-cache") and r < 0.8:
                ops.append({"op": "mkdir", "path": lat(p), "mode": 0o755})
                ops.append({"op": "mkfile", "path": lat(p + b"/HEAD"), "data": binascii.hexlify(gen_data(rng)).decode(), "mode": 0o644})
                continue
            if (first and nm in (b"a", b"b") and depth < 2) or (r < 0.25 and depth < 2):
                ops.append({"op": "mkdir", "path": lat(p), "mode": rng.choice([0o755, 0o755, 0o700, 0o750, 0o1777])})
                fill(p + b"/", depth + 1)
            elif r < 0.72:
                ops.append({"op": "mkfile", "path": lat(p), "data": binascii.hexlify(gen_data(rng)).decode(),
                            "mode": rng.choice(MODES)})
            elif r < 0.84:
                ops.append({"op": "symlink", "path": lat(p), "target": lat(rng.choice([b"a", b"../x", b"/nonexistent", b"", b"a/b", b"\xff", b"."]) or b"q")})
            elif r < 0.88:
                ops.append({"op": "mkfifo", "path": lat(p), "mode": rng.choice([0o644, 0o600])})
            elif r < 0.91:
                ops.append({"op": "mknod", "path": lat(p), "chr": rng.random() < 0.5, "major": rng.choice([1, 7, 8]),
                            "minor": rng.choice([0, 3, 5, 255, 256])})
            elif r < 0.93:
                ops.append({"op": "socket", "path": lat(p)})
            else:
                ops.append({"op": "hardlink_new", "path": lat(p)})
            first = False
    fill(b"", depth)
    return ops


def gen_step(rng, snap, hist_len):
    """1..3 operations chosen against the current snapshot"""
    paths = list(all_paths(snap))
    files = [(p, e) for p, e in paths if e["kind"] == "f"]
    dirs = [(p, e) for p, e in paths if e["kind"] == "d"]
    ops = []
    for _ in range(rng.choice([1, 1, 1, 2, 2, 3])):
        r = rng.random()
        parent = (rng.choice(dirs)[0] + b"/") if dirs and rng.random() < 0.5 else b""
        fresh = parent + rng.choice(NAMES)
        hexd = binascii.hexlify(gen_data(rng)).decode()
        if r < 0.10:
            ops.append({"op": "mkfile", "path": lat(fresh), "data": hexd, "mode": rng.choice(MODES)})
        elif r < 0.20 and files:
            p, e = rng.choice(files)
            ops.append({"op": "write", "path": lat(p), "data": hexd})
        elif r < 0.32 and files:
            p, e = rng.choice(files)
            n = len(e["data"])
            d = bytes(rng.choice(b"xyzXYZ") for _ in range(n))
            ops.append({"op": rng.choice(["write", "write_keep_mtime", "write_keep_mtime", "replace_same_size"]),
                        "path": lat(p), "data": binascii.hexlify(d).decode()})
        elif r < 0.40 and paths:
            p, e = rng.choice(paths)
            if e["kind"] != "l":
                ops.append({"op": "chmod", "path": lat(p), "mode": rng.choice(MODES) | (0o100 if e["kind"] == "d" else 0)})
        elif r < 0.50 and paths:
            p, e = rng.choice(paths)
            ops.append({"op": "rm", "path": lat(p)})
        elif r < 0.60 and paths:
            p, e = rng.choice(paths)
            ops.append({"op": "rename", "path": lat(p), "to": lat(fresh if rng.random() < 0.7 else rng.choice(paths)[0])})
        elif r < 0.70 and paths:
            p, e = rng.choice(paths)
            to = rng.choice([k for k in "fdl" if k != e["kind"]] or ["f"])
            ops.append({"op": "replace", "path": lat(p), "kind": to, "data": hexd, "target": lat(rng.choice([b"a", b"b", b"../q"]))})
        elif r < 0.74:
            ops.append({"op": "mkdir", "path": lat(fresh), "mode": 0o755})
        elif r < 0.78:
            ops.append({"op": "symlink", "path": lat(fresh), "target": lat(rng.choice([b"a", b"zz", b"a/b"]))})
        elif r < 0.81 and files:
            ops.append({"op": "hardlink", "path": lat(rng.choice(files)[0]), "to": lat(fresh)})
        elif r < 0.85 and paths:
            ops.append({"op": "touch", "path": lat(rng.choice(paths)[0])})
        elif r < 0.87 and paths:
            ops.append({"op": "chown", "path": lat(rng.choice(paths)[0]), "uid": rng.choice([0, 1, 1000]), "gid": rng.choice([0, 5])})
        elif r < 0.89:
            ops.append({"op": "mkfile", "path": lat(parent + rng.choice([b".git/x", b".svn/y", b"BaseDirList.txt"])), "data": hexd, "mode": 0o644})
        # ---- manipulations of cache.bin (all keep it truthful)
        elif r < 0.90:
            ops.append({"op": "ix_delete"})
        elif r < 0.915:
            ops.append({"op": "ix_truncate", "cut": rng.choice([1, 2, 19, 20, 21, 40, 66, 67, 70, 100, 140])})
        elif r < 0.93 and hist_len:
            ops.append({"op": "ix_restore", "step": rng.randrange(hist_len)})
        elif r < 0.94:
            ops.append({"op": "ix_shuffle", "seed": rng.randrange(1 << 30)})
        elif r < 0.985:
            ops.append({"op": "ix_forge", "rec": rng.randrange(1 << 20),
                        "field": rng.choice(["ctime", "mtime", "dev", "ino", "mode", "size", "name", "name", "dup"]),
                        "delta": rng.choice([1, -1, 1000, 1 << 32])})
        elif r < 0.992:
            ops.append({"op": "ix_garbage", "data": binascii.hexlify(bytes(rng.randrange(256) for _ in range(rng.choice([3, 65, 66, 80, 150])))).decode()})
        else:
            ops.append({"op": "ix_badsig"})
    return ops


class History:
    """one scratch tree + cache.bin + the history-wide table (name, stat) -> digest"""

    def __init__(self, worker, ignore=None):
        self.base = core.scratch_dir("c11")
        self.root = os.path.join(self.base, "ws")
        os.mkdir(self.root)
        self.rootb = os.fsencode(self.root)
        self.cache = os.path.join(self.base, "cache.bin")
        self.worker = worker
        self.ignore = ignore
        self.known = {}          # key_of(path, st) -> sha1 digest that a truthful index must hold
        self.saved = []          # cache.bin after every step
        self.snaps = []          # (canon, uncached digest)
        self.forced = 0
        self.nforge = 0
        self.clock = 0

    def cleanup(self):
        # directories may have lost their permission bits
        for dp, dn, fn in os.walk(self.base):
            for d in dn:
                try:
                    os.chmod(os.path.join(dp, d), 0o700)
                except OSError:
                    pass
        shutil.rmtree(self.base, ignore_errors=True)

    # ---- tree operations; an operation that does not apply (any more) is skipped
    def full(self, p):
        b = unlat(p)
        if not b or b.startswith(b"/") or b"/../" in b"/" + b + b"/":
            raise OSError("bad path")
        return os.path.join(self.rootb, b)

    def apply(self, op):
        k = op["op"]
        try:
            if k.startswith("ix_"):
                return self.apply_ix(op)
            p = self.full(op["path"])
            if k == "mkfile":
                if os.path.lexists(p):
                    return False
                os.makedirs(os.path.dirname(p), exist_ok=True)
                with open(p, "wb") as f:
                    f.write(binascii.unhexlify(op["data"]))
                os.chmod(p, op["mode"])
            elif k in ("write", "write_keep_mtime"):
                s = os.lstat(p)
                if not stat.S_ISREG(s.st_mode):
                    return False
                os.chmod(p, s.st_mode | 0o200)
                with open(p, "r+b") as f:
                    f.truncate(0)
                    f.write(binascii.unhexlify(op["data"]))
                os.chmod(p, stat.S_IMODE(s.st_mode))
                if k == "write_keep_mtime":
                    os.utime(p, ns=(s.st_atime_ns, s.st_mtime_ns))
            elif k == "replace_same_size":
                # new inode under the old name, same size, same mtime, same mode (what tar/rsync do)
                s = os.lstat(p)
                if not stat.S_ISREG(s.st_mode):
                    return False
                tmp = p + b".tmp~"
                with open(tmp, "wb") as f:
                    f.write(binascii.unhexlify(op["data"]))
                os.chmod(tmp, stat.S_IMODE(s.st_mode))
                os.utime(tmp, ns=(s.st_atime_ns, s.st_mtime_ns))
                os.replace(tmp, p)
            elif k == "chmod":
                if os.path.islink(p):
                    return False
                os.chmod(p, op["mode"])
            elif k == "rm":
                self.rm(p)
            elif k == "rename":
                q = self.full(op["to"])
                if q == p or q.startswith(p + b"/"):
                    return False
                if os.path.lexists(q):
                    sq, sp = os.lstat(q), os.lstat(p)
                    if stat.S_ISDIR(sq.st_mode) or stat.S_ISDIR(sp.st_mode):
                        self.rm(q)
                os.makedirs(os.path.dirname(q), exist_ok=True)
                os.rename(p, q)
            elif k == "replace":
                if not os.path.lexists(p):
                    return False
                self.rm(p)
                if op["kind"] == "f":
                    with open(p, "wb") as f:
                        f.write(binascii.unhexlify(op["data"]))
                elif op["kind"] == "d":
                    os.mkdir(p)
                    with open(os.path.join(p, b"n"), "wb") as f:
                        f.write(binascii.unhexlify(op["data"]))
                else:
                    os.symlink(unlat(op["target"]), p)
            elif k == "mkdir":
                os.makedirs(p, exist_ok=False)
                os.chmod(p, op["mode"])
            elif k == "symlink":
                os.symlink(unlat(op["target"]) or b"q", p)
            elif k == "hardlink":
                q = self.full(op["to"])
                if not stat.S_ISREG(os.lstat(p).st_mode):
                    return False
                os.link(p, q)
            elif k == "hardlink_new":
                with open(p, "wb") as f:
                    f.write(b"hl")
                os.link(p, p + b".lnk")
            elif k == "mkfifo":
                os.mkfifo(p, op["mode"])
            elif k == "mknod":
                os.mknod(p, 0o600 | (stat.S_IFCHR if op["chr"] else stat.S_IFBLK), os.makedev(op["major"], op["minor"]))
            elif k == "socket":
                cwd = os.getcwd()
                s = socket.socket(socket.AF_UNIX)
                try:
                    os.chdir(os.path.dirname(p))
                    s.bind(os.path.basename(p))
                finally:
                    os.chdir(cwd)
                    s.close()
            elif k == "touch":
                self.clock += 1
                s = os.lstat(p)
                os.utime(p, ns=(s.st_atime_ns, s.st_mtime_ns + 1000 * self.clock), follow_symlinks=False)
            elif k == "chown":
                os.chown(p, op["uid"], op["gid"], follow_symlinks=False)
            else:
                raise AssertionError(k)
            return True
        except OSError:
            return False

    def rm(self, p):
        s = os.lstat(p)
        if stat.S_ISDIR(s.st_mode):
            for dp, dn, fn in os.walk(p):
                os.chmod(dp, 0o700)
            shutil.rmtree(p)
        else:
            os.unlink(p)

    # ---- cache.bin manipulations
    def apply_ix(self, op):
        k = op["op"]
        cur = read_file(self.cache)
        if k == "ix_delete":
            if cur is None:
                return False
            os.unlink(self.cache)
            return True
        if k == "ix_restore":
            if op["step"] >= len(self.saved) or self.saved[op["step"]] is None:
                return False
            new = self.saved[op["step"]]
        elif cur is None:
            return False
        elif k == "ix_truncate":
            if len(cur) <= op["cut"]:
                return False
            new = cur[:len(cur) - op["cut"]]
        elif k == "ix_garbage":
            new = cur + binascii.unhexlify(op["data"])
        elif k == "ix_badsig":
            new = b"BOB1" + cur[4:]
        else:
            recs = parse_cache(cur)
            if not recs:
                return False
            if k == "ix_shuffle":
                import random
                random.Random(op["seed"]).shuffle(recs)
            elif k == "ix_forge":
                i = op["rec"] % len(recs)
                r = dict(recs[i])
                self.nforge += 1
                r["digest"] = hashlib.sha1(b"forged content %d" % self.nforge).digest()
                f = op["field"]
                if f == "name":
                    # same stat under another name, right where __match stops for the real name
                    r["name"] = r["name"] + b"\x00"
                    recs[i] = r
                elif f == "dup":
                    r["st"] = (r["st"][0] + 1,) + r["st"][1:]
                    recs.insert(i, r)
                else:
                    j = ["ctime", "mtime", "dev", "ino", "mode", "size"].index(f)
                    st = list(r["st"])
                    v = st[j] + op["delta"]
                    lim = {0: 1 << 63, 1: 1 << 63, 4: 1 << 32}.get(j, 1 << 64)
                    if not (0 <= v < lim):
                        v = st[j] + 1
                    st[j] = v
                    r["st"] = tuple(st)
                    recs[i] = r
            new = ser_cache(recs)
        # the manipulated file must stay truthful: no record may carry a digest that contradicts
        # what is already known about its (name, stat data) in this history
        for r in parse_cache(new) or []:
            if self.known.get(key_of(r["name"], r["st"]), r["digest"]) != r["digest"]:
                return False
        tmp = self.cache + ".h~"
        with open(tmp, "wb") as f:
            f.write(new)
        os.replace(tmp, self.cache)
        return True

    # ---- one observed step
    def observe(self):
        """register the records of the current cache.bin, snapshot the tree
        (making sure that stat data never denotes two contents), hash it with
        and without the cache.  Returns a dict."""
        old = read_file(self.cache)
        for r in parse_cache(old) or []:
            self.known.setdefault(key_of(r["name"], r["st"]), r["digest"])
        for attempt in range(20):
            snap = snapshot(self.rootb)
            clash = []
            for p, e in walk_files(snap):
                d = hashlib.sha1(e["data"]).digest()
                if self.known.get(key_of(p, e["st"]), d) != d:
                    clash.append(p)
            if not clash:
                break
            # the property's premise: every modification changes the stat data.  Coarse
            # time stamps (or a forged record) made two contents share one stat: move mtime.
            for p in clash:
                self.forced += 1
                self.clock += 1
                fp = os.path.join(self.rootb, p)
                s = os.lstat(fp)
                os.utime(fp, ns=(s.st_atime_ns, s.st_mtime_ns + 1 + self.clock), follow_symlinks=False)
        else:
            raise RuntimeError("cannot make stat data unique")
        for p, e in walk_files(snap):
            self.known[key_of(p, e["st"])] = hashlib.sha1(e["data"]).digest()
        cd, cexc, cev = self.worker.hash(self.root, self.cache, self.ignore)
        new = read_file(self.cache)
        ud, uexc, uev = self.worker.hash(self.root, None, self.ignore)
        self.saved.append(new)
        return {"snap": snap, "old": old, "new": new, "cd": cd, "cexc": cexc, "cev": cev, "ud": ud, "uexc": uexc,
                "uev": uev}


# =========================================================================== Coq literals
# Decimal N literals cost ~100 us each in coqc (number notation), which dominated the run time.
# Byte strings are therefore written as lists of primitive 63-bit integers carrying 7 bytes each
# (decoded by `ub` in the preamble) and numbers as `nn <uint63>`; blobs are referred to by their
# index in the per-case digest table.
def cb(b):
    if not b:
        return "(@nil N)"
    ws = [str(int.from_bytes(b[i:i + 7], "little")) for i in range(0, len(b), 7)]
    return "(ub %d ([%s]%%uint63))" % (len(b), ";".join(ws))


def cn(n):
    assert n >= 0
    if n < (1 << 62):
        return "(nn %d)" % n
    return "(nn2 %d %d)" % (n >> 32, n & 0xFFFFFFFF)


def coq_stat(st):
    return "(mkstat %s)" % " ".join(cn(x) for x in st)


def coq_entries(entries):
    if not entries:
        return "(@nil (list N * tree))"
    return "[" + "; ".join("(%s, %s)" % (cb(e["name"]), coq_tree(e)) for e in entries) + "]"


def coq_tree(e):
    k = e["kind"]
    st = coq_stat(e["st"])
    if k == "f":
        return "(File %s %s)" % (st, cb(e["data"]))
    if k == "l":
        return "(Link %s %s)" % (st, cb(e["data"]))
    if k == "d":
        return "(Dir %s %s)" % (st, coq_entries(e["children"]))
    if k in "cb":
        return "(Dev %s %s)" % (st, cn(e["rdev"]))
    if k == "p":
        return "(Fifo %s)" % st
    return "(Other %s)" % st


def coq_opt_bytes(b):
    return "(@None (list N))" if b is None else "(Some %s)" % cb(b)


PREAMBLE = """
Require Import BobV.Gen.ConstsC11.
From Coq Require Import Uint63 ZArith.
(* literal decoding *)
Definition nn (w : int) : N := Z.to_N (Uint63.to_Z w).
Definition nn2 (hi lo : int) : N := nn hi * 4294967296 + nn lo.
Definition byte_at (w : int) (k : int) : N := nn (Uint63.land (Uint63.lsr w (Uint63.mul 8 k)) 255).
Fixpoint unpack (n : nat) (ws : list int) : list N :=
  match ws with
  | [] => []
  | w :: r =>
      match n with
      | O => []
      | _ => firstn n [byte_at w 0; byte_at w 1; byte_at w 2; byte_at w 3; byte_at w 4; byte_at w 5; byte_at w 6]
             ++ unpack (n - 7) r
      end
  end.
Definition ub (n : int) (ws : list int) : list N := unpack (Z.to_nat (Uint63.to_Z n)) ws.
Arguments nn w%uint63.
Arguments nn2 hi%uint63 lo%uint63.
Arguments ub n%uint63 ws%uint63.
(* what the worker observed: a read of a file/link (= miss) or the i-th blob of the table given to sha1 *)
Inductive xe := XR (p : list N) | XH (i : nat).
Definition obs (wr : bool) (l : list event) : list event :=
  filter (fun e => match e with EvCheck _ h => wr && negb h | EvHash _ => true end) l.
Definition inp := (bool * list (list N) * entries * option (list N) * list (list N * list N))%type.
Definition outp := (list N * list nat * list N * option (list N) * list xe)%type.
Definition blob_at (tab : list (list N * list N)) (i : nat) : list N := fst (nth i tab ([998], [])).
Definition verdict (i : inp) (o : outp) : list bool :=
  let '(wr, ign, es, f, tab) := i in
  let '(ud, ubl, xcd, xnf, xev) := o in
  let H := H_table tab in
  let '(cd, nf) := hash_cached H (IGNORE_DIRS ++ ign) f es in
  let '(cd2, nf2, ev) := hash_cached_traced H (IGNORE_DIRS ++ ign) f es in
  [ consts_ok && bytes_eqb (ub 9 ([14263770653647201; 17481]%uint63)) [97; 225; 247; 230; 210; 172; 50; 73; 68]
      && (nn2 4294967295 4294967295 =? 18446744073709551615);
    bytes_eqb cd cd2 && eqb_option bytes_eqb nf nf2;
    bytes_eqb (hash_dir H (IGNORE_DIRS ++ ign) es) ud;
    eqb_list bytes_eqb (hashed_dir H (IGNORE_DIRS ++ ign) es) (map (blob_at tab) ubl);
    bytes_eqb cd xcd;
    eqb_option bytes_eqb (next_file f nf) xnf;
    eqb_list event_eqb (obs wr ev)
      (map (fun x => match x with XR p => EvCheck p false | XH i => EvHash (blob_at tab i) end) xev) ].
Definition case_ok (i : inp) (o : outp) : bool := forallb (fun b => b) (verdict i o).
"""
VERDICT_NAMES = ["constants (struct formats) as the model expects; literal decoding self-test",
                 "traced and plain cached run agree (model-internal)",
                 "uncached digest", "uncached sequence of blobs given to SHA-1", "cached digest",
                 "content of cache.bin after the run", "cached run: sequence of reads (misses) and blobs given to SHA-1"]


def make_case(obs, ignore, with_reads):
    tab = {}
    for k, v in obs["cev"] + obs["uev"]:
        if k == "h" and v not in tab:
            tab[v] = len(tab)
    tabl = "(@nil (list N * list N))" if not tab else "[" + "; ".join(
        "(%s, %s)" % (cb(k), cb(hashlib.sha1(k).digest())) for k in tab) + "]"
    ign = "(@nil (list N))" if not ignore else "[" + "; ".join(cb(os.fsencode(i)) for i in ignore) + "]"
    i = "(%s, %s, %s, %s, %s)" % (L.B(with_reads), ign, coq_entries(obs["snap"]), coq_opt_bytes(obs["old"]), tabl)
    ub = [str(tab[v]) + "%nat" for k, v in obs["uev"] if k == "h"]
    xev = []
    for k, v in obs["cev"]:
        if k == "r":
            if with_reads:
                xev.append("XR %s" % cb(v))
        else:
            xev.append("XH %d%%nat" % tab[v])
    o = "(%s, %s, %s, %s, %s)" % (cb(obs["ud"]), "[" + "; ".join(ub) + "]" if ub else "(@nil nat)", cb(obs["cd"]),
                                  coq_opt_bytes(obs["new"]), "[" + "; ".join(xev) + "]" if xev else "(@nil xe)")
    return i, o


# =========================================================================== running histories
def jsonable_snap(entries):
    out = []
    for e in entries:
        d = {"name": lat(e["name"]), "kind": e["kind"], "mode": oct(e["st"][4])}
        if "data" in e:
            d["data"] = lat(e["data"])
        if "children" in e:
            d["children"] = jsonable_snap(e["children"])
        out.append(d)
    return out


def run_history(worker, steps, ignore=None, on_obs=None, gen=None, nsteps=None, count=None):
    """Execute a history (list of steps, each a list of ops); with `gen`, steps
    beyond the given ones are generated against the evolving tree (`steps` is
    extended in place and holds only the operations that applied).
    Returns (oracle failures [(class, detail, step index)], observations, forced stat changes)."""
    h = History(worker, ignore)
    fails = []
    obs_list = []
    extra_ign = tuple(os.fsencode(i) for i in (ignore or ()))
    try:
        si = 0
        while si < len(steps):
            applied = [op for op in steps[si] if h.apply(op)]
            if gen:
                steps[si] = applied
            o = h.observe()
            o["applied"] = applied
            obs_list.append(o)
            if o["cexc"] or o["uexc"]:
                fails.append(("exception:" + (o["cexc"] or o["uexc"]).split(":")[0], o["cexc"] or o["uexc"], si))
                break
            if o["cd"] != o["ud"]:
                fails.append(("cached-differs-from-uncached", "step %d: hashDirectory(path, cache.bin)=%s but hashDirectory(path)=%s" % (
                    si, binascii.hexlify(o["cd"]).decode(), binascii.hexlify(o["ud"]).decode()), si))
            c = canon_py(o["snap"], extra_ign)
            for sj, (c2, d2) in enumerate(h.snaps):
                if (c == c2) != (o["ud"] == d2):
                    kind = "equal-trees-different-hash" if c == c2 else "different-trees-equal-hash"
                    fails.append((kind, "states after steps %d and %d" % (sj, si), si))
                    break
                if count:
                    count("pair:" + ("equal-canon" if c == c2 else "different-canon"))
            h.snaps.append((c, o["ud"]))
            if on_obs:
                on_obs(si, o, h)
            si += 1
            if gen and si == len(steps) and si < nsteps:
                steps.append(gen(o["snap"], len(h.saved)))
        return fails, obs_list, h.forced
    finally:
        h.cleanup()


def op_kinds(steps):
    ks = set()
    for ops in steps:
        for op in ops:
            k = op["op"]
            if k == "ix_forge":
                k += ":" + op["field"]
            ks.add(k)
    return ",".join(sorted(ks))


def shrink_history(worker, steps, ignore, sigclass, budget=80):
    """greedy removal of steps and of single operations while the same class of failure remains"""
    def bad(st):
        fails, _, _ = run_history(worker, st, ignore)
        return any(f[0] == sigclass for f in fails)
    n = 0
    # cut after the first failing step
    fails, _, _ = run_history(worker, steps, ignore)
    first = min([f[2] for f in fails if f[0] == sigclass] or [len(steps) - 1])
    steps = [list(s) for s in steps[:first + 1]]
    changed = True
    while changed and n < budget:
        changed = False
        for i in range(len(steps) - 1, -1, -1):
            for j in range(len(steps[i]) - 1, -1, -1):
                cand = [list(s) for s in steps]
                del cand[i][j]
                n += 1
                if n > budget:
                    break
                if bad(cand):
                    steps = cand
                    changed = True
            if n > budget:
                break
        # merge away empty steps that are not needed as observation points
        for i in range(len(steps) - 2, -1, -1):
            if not steps[i] and n < budget:
                cand = steps[:i] + steps[i + 1:]
                n += 1
                if bad(cand):
                    steps = cand
                    changed = True
    return steps


def load_corpus():
    out = []
    for p in sorted(glob.glob(os.path.join(core.VERIF, "corpus", "C11", "*.json"))):
        with open(p) as f:
            d = json.load(f)
        d["_file"] = os.path.basename(p)
        out.append(d)
    return out


def run(ctx):
    rng = ctx.rng
    ctx.rule = ("a case = one observed step of a history on a real directory tree under /var/tmp: random tree (files, "
                "empty/nested directories, dangling symlinks, hard links, fifos, device nodes, sockets, special/non-UTF-8 "
                "names, names around the '/' sort position, .git/.svn/BaseDirList.txt), then steps of 1-3 operations "
                "(create, modify, same-size rewrite with/without preserved mtime, chmod, delete, rename, file<->dir<->symlink "
                "replacement, touch, chown, hard link, changes inside ignored directories; cache.bin deleted, truncated, "
                "restored from an earlier step, shuffled, records forged with one stat field/name changed and another digest, "
                "garbage appended), hashed with and without cache.bin after every step.  Non-trivial = the cached run had at "
                "least one hit and one miss, or cache.bin was manipulated; distinct by (cached blob sequence, old cache.bin)")
    ctx.assumptions += [
        "SHA-1 is not modelled: in theorems it is a Section variable H (injectivity never assumed; equal hashes give equal "
        "canonical trees or an explicit collision among the blobs hashed); for running the model H is a lookup table of real "
        "SHA-1 digests (hashlib) of the blobs the implementation hashed in that step, any other blob makes the case fail",
        "the property's own premise, enforced by the harness: stat data (name, ctime, mtime, dev, ino, mode, size) never denotes "
        "two different contents within one history (content_of in cache_transparent); when coarse time stamps or a forged "
        "record would break it the harness moves the file's mtime (counted as forced-stat-change)",
        "kernel/file system: lstat, scandir, read, readlink are taken as the tree; unreadable files/directories (OSError "
        "branches that hash as empty) are not modelled (the harness runs as root, nothing is unreadable)",
        "st_ctime_ns/st_mtime_ns < 2^63, st_mode/st_rdev < 2^32, path length < 2^16 (otherwise struct.error in the "
        "implementation); little-endian host ('=L' is modelled as little endian; HOST_LITTLE_ENDIAN is regenerated)",
        "hashFile's 16 KiB chunking, NamedTemporaryFile+rename of cache.bin (atomic replace), the size sum of "
        "hashDirectoryWithSize, hashPath, and concurrent modification of the tree during hashing are not modelled",
        "ignored names: IGNORE_DIRS/IGNORE_FILES are regenerated from utils.py into Gen/ConstsC11.v; the independent oracle "
        "uses its own copy (.git .svn .portage-cache directories, BaseDirList.txt files)",
    ]
    ctx.note("proved (unbounded, about the Gallina model): hash_dir_canon + canon_order_irrelevant (hash is a function of the "
             "canonical tree), hash_dir_injective (equal hashes => equal canonical trees or an exhibited SHA-1 collision among the "
             "hashed blobs; incl. unique decodability of the separator-free directory blob), dfs_order_sorted (index look-ups in "
             "strictly increasing byte order), cache_transparent (ANY truthful cache file), cache_file_truthful + "
             "cache_transparent_history (all histories, incl. the byte level write/read-back of cache.bin), "
             "index_sorted_preserved.  Only exercised by the correspondence (not proved): that the model is what utils.py does "
             "(walk, ignore lists, sort, blob layout, merge walk, prefix copy, file format), hit rates (an unchanged tree is "
             "all hits: counted as cached:all-hit), ignoreDirs, records surviving a rewrite (false in general, see "
             "index_keeps_valid_records_refuted)")
    if ctx.replay:
        return replay(ctx)
    worker = Worker()
    try:
        return run_with(ctx, worker)
    finally:
        worker.close()


def run_with(ctx, worker):
    rng = ctx.rng
    where = worker.call({"op": "where"})["file"]
    if not os.path.realpath(where).startswith(os.path.realpath(core.REPO)):
        ctx.tie_broken("wrong-implementation", "worker imported bob.utils from %s, expected below %s" % (where, core.REPO))
        return
    n_hist = int(os.environ.get("BOBV_C11_HISTORIES", ctx.n(120, 1200)))   # env override only for calibration
    max_steps = ctx.n(9, 16)
    seen_reads = [False]
    pending = []       # (obs, ignore, meta)

    def record(hist_id, steps, ignore):
        def on_obs(si, o, h):
            ctx.evaluated(2)
            reads = sum(1 for k, v in o["cev"] if k == "r")
            nfiles = sum(1 for _ in walk_files(o["snap"]))
            if reads:
                seen_reads[0] = True
            ixop = any(op["op"].startswith("ix_") for op in o["applied"])
            ctx.count("step:files=%s" % ("0" if nfiles == 0 else "1-4" if nfiles <= 4 else "5-9" if nfiles <= 9 else "10+"))
            ctx.count("cached:" + ("no-old-index" if o["old"] is None else "all-hit" if reads == 0 else
                                    "all-miss" if reads >= nfiles_checked(o) else "mixed"))
            ctx.count("cache.bin:" + ("unchanged" if o["new"] == o["old"] else "rewritten"))
            for op in o["applied"]:
                ctx.count("op:" + op["op"] + (":" + op["field"] if op["op"] == "ix_forge" else ""))
            if ixop or (o["old"] is not None and 0 < reads < nfiles_checked(o)):
                ctx.nontrivial((tuple(v for k, v in o["cev"]), o["old"]))
            pending.append((o, ignore, {"history": hist_id, "step": si, "steps": steps}))
            if len(pending) >= 3000:      # bound the memory of long runs
                compare_with_model(ctx, pending, seen_reads[0])
                del pending[:]
        return on_obs

    def nfiles_checked(o):
        ign = IGN_DIRS
        n = 0

        def rec(es):
            nonlocal n
            for e in es:
                if e["kind"] == "d":
                    if e["name"] not in ign:
                        rec(e["children"])
                elif e["name"] not in IGN_FILES and e["kind"] in "fl":
                    n += 1
        rec(o["snap"])
        return n

    def report(fails, steps, ignore, hid):
        seen = set()
        for sigclass, detail, si in fails:
            if sigclass in seen:
                continue
            seen.add(sigclass)
            small = shrink_history(worker, steps, ignore, sigclass, budget=ctx.n(60, 200))
            f2, _, _ = run_history(worker, small, ignore)
            det = [f for f in f2 if f[0] == sigclass]
            ctx.violation(sigclass + ":" + op_kinds(small), (det[0][1] if det else detail),
                          {"steps": small, "ignore": ignore, "original_steps": steps, "class": sigclass})

    # ---- corpus first
    for c in load_corpus():
        fails, obs, forced = run_history(worker, c["steps"], c.get("ignore"), record("corpus:" + c["_file"], c["steps"], c.get("ignore")))
        ctx.count("history:corpus")
        ctx.count("forced-stat-change", forced)
        if fails:
            report(fails, c["steps"], c.get("ignore"), c["_file"])

    # ---- generated histories: steps are generated against the evolving tree
    for hi in range(n_hist):
        ignore = ["a"] if rng.random() < 0.08 else None
        steps = [gen_initial(rng)]
        # an empty step now and then: nothing changed, everything must hit
        gen = lambda snap, hl: [] if rng.random() < 0.08 else gen_step(rng, snap, hl)
        fails, obs, forced = run_history(worker, steps, ignore, record(hi, steps, ignore), gen=gen,
                                         nsteps=rng.randint(3, max_steps), count=ctx.count)
        ctx.count("forced-stat-change", forced)
        ctx.count("history:generated")
        if fails:
            report(fails, steps, ignore, hi)
        if hi < 2 and obs:
            ctx.sample({"history": hi, "steps": steps[:3], "tree_after_first_step": jsonable_snap(obs[0]["snap"])})
        if len(ctx.violations) >= 3:
            break

    # ---- copies: a tree rebuilt elsewhere (other inodes, times, directory order) hashes the same
    copy_checks(ctx, worker, rng, ctx.n(25, 300))

    # ---- model side
    compare_with_model(ctx, pending, seen_reads[0])


def compare_with_model(ctx, pending, with_reads):
    """pending: [(observation, ignore, meta)]; evaluates the Coq model on every observation"""
    t_impl = ctx.elapsed()
    if not with_reads:
        ctx.note("no file reads were observed in the worker (open/os.readlink wrappers blind): only SHA-1 input sequences compared")
    cases = []
    meta = []
    for o, ignore, m in pending:
        if o["cd"] is None or o["ud"] is None:
            continue
        cases.append(make_case(o, ignore, with_reads))
        meta.append((o, ignore, m))
    bad = []
    # at most 5 coqc processes at a time: batches of 5 shards
    per_shard = max(40, min(500, (len(cases) + 4) // 5))
    batch = 5 * per_shard
    for b0 in range(0, len(cases), batch):
        r, log = coq.run_cases(ctx, ["BobV.C11.Model"], "(fun i => i)", "case_ok", cases[b0:b0 + batch], preamble=PREAMBLE,
                               tag="c11", shard=per_shard, timeout=1800)
        if r is None:
            ctx.tie_broken("C11 model evaluation failed", log)
            return
        bad.extend(b0 + i for i in r)
    ctx.validated(len(cases) - len(bad))
    ctx.note("timing: implementation side done after %.1fs, model evaluation of %d cases (%d kB of Coq) took %.1fs" % (
        t_impl, len(cases), sum(len(a) + len(b) for a, b in cases) // 1024, ctx.elapsed() - t_impl))
    if bad:
        ctx.count("model-mismatch", len(bad))
        for i in bad[:4]:
            res, out = coq.eval_terms(ctx, ["BobV.C11.Model"], ["verdict %s %s" % cases[i]], preamble=PREAMBLE)
            which = []
            if res:
                flags = [x.strip() for x in res[0].strip("[] \n").split(";")]
                which = [VERDICT_NAMES[j] for j, fl in enumerate(flags) if fl != "true" and j < len(VERDICT_NAMES)]
            o, ignore, m = meta[i]
            steps = m.get("steps")
            ctx.tie_broken("model-correspondence", {
                "differs_in": which, "history": m.get("history"), "step": m.get("step"), "applied": o["applied"],
                "steps": [list(x) for x in steps[:m["step"] + 1]] if steps is not None else None, "ignore": ignore,
                "tree": jsonable_snap(o["snap"]),
                "old_cache": binascii.hexlify(o["old"]).decode() if o["old"] else None,
                "new_cache": binascii.hexlify(o["new"]).decode() if o["new"] else None})


def rebuild(dst, entries, rng):
    es = list(entries)
    rng.shuffle(es)
    for e in es:
        p = os.path.join(dst, e["name"])
        k = e["kind"]
        if k == "f":
            with open(p, "wb") as f:
                f.write(e["data"])
        elif k == "l":
            os.symlink(e["data"], p)
        elif k == "d":
            os.mkdir(p)
            rebuild(p, e["children"], rng)
        elif k == "p":
            os.mkfifo(p)
        elif k in "cb":
            os.mknod(p, stat.S_IFMT(e["st"][4]) | 0o600, e["rdev"])
        else:
            cwd = os.getcwd()
            s = socket.socket(socket.AF_UNIX)
            try:
                os.chdir(dst)
                s.bind(e["name"])
            finally:
                os.chdir(cwd)
                s.close()
        if k != "l":
            os.chmod(p, stat.S_IMODE(e["st"][4]))


def copy_checks(ctx, worker, rng, n):
    for i in range(n):
        h = History(worker)
        try:
            for op in gen_initial(rng):
                h.apply(op)
            snap = snapshot(h.rootb)
            d1, e1, _ = worker.hash(h.root)
            # the copy lives one level deeper, and what the top-level links pointing out of the tree ("../x") resolve
            # to exists there as a directory while it does not exist for the original: the hash must not depend on it
            other = os.path.join(h.base, "ctx2", "copy")
            os.makedirs(other)
            rebuild(os.fsencode(other), snap, rng)
            for lp, le in all_paths(snap):
                if le["kind"] == "l" and b"/" not in lp and le["data"].startswith(b"../") and b".." not in le["data"][3:] and le["data"][3:]:
                    try:
                        os.makedirs(os.path.join(os.fsencode(h.base), b"ctx2", le["data"][3:]), exist_ok=True)
                        ctx.count("copy-check:outside-link-target-exists-for-copy-only")
                    except OSError:
                        pass
            # noise that must not matter
            os.makedirs(os.path.join(other, ".git", "objects"), exist_ok=True) if not os.path.lexists(os.path.join(other, ".git")) else None
            d2, e2, _ = worker.hash(other)
            ctx.evaluated(2)
            ctx.count("copy-check")
            if e1 or e2:
                ctx.violation("exception:" + (e1 or e2).split(":")[0], e1 or e2, {"tree": jsonable_snap(snap)})
            elif d1 != d2 and canon_py(snap) == canon_py(snapshot(os.fsencode(other))):
                ctx.violation("equal-trees-different-hash:copy", "a rebuilt copy (other inodes, times, creation order, extra .git) hashes differently",
                              {"tree": jsonable_snap(snap)})
            # one canonical attribute changed in the copy -> different hash
            cands = [(p, e) for p, e in all_paths(snapshot(os.fsencode(other))) if not is_ignored_path(p, e)]
            if cands:
                p, e = rng.choice(cands)
                fp = os.path.join(os.fsencode(other), p)
                what = None
                if e["kind"] == "f" and rng.random() < 0.5:
                    with open(fp, "r+b") as f:
                        f.write(bytes([(e["data"][0] ^ 1) if e["data"] else 65]))
                    what = "content"
                elif e["kind"] != "l":
                    os.chmod(fp, stat.S_IMODE(e["st"][4]) ^ 0o010)
                    what = "mode"
                else:
                    os.unlink(fp)
                    os.symlink(e["data"] + b"x", fp)
                    what = "target"
                d3, e3, _ = worker.hash(other)
                ctx.evaluated()
                ctx.count("one-attribute-changed:" + what)
                if d3 == d2:
                    ctx.violation("different-trees-equal-hash:" + what, "changing the %s of %r does not change the directory hash" % (what, lat(p)),
                                  {"tree": jsonable_snap(snap), "changed": lat(p), "what": what})
        finally:
            h.cleanup()


def is_ignored_path(p, e):
    parts = p.split(b"/")
    for d in parts[:-1]:
        if d in IGN_DIRS:
            return True
    if e["kind"] == "d":
        return parts[-1] in IGN_DIRS
    return parts[-1] in IGN_FILES


def replay(ctx):
    with open(ctx.replay) as f:
        d = json.load(f)
    c = d.get("case", d)
    if "steps" not in c:
        for b in d.get("broken", []):
            det = b.get("detail")
            if isinstance(det, dict) and det.get("steps"):
                c = det
                break
    if not c.get("steps"):
        print("replay file has no history: nothing to execute")
        return
    worker = Worker()
    try:
        pending = []
        reads = [False]

        def on_obs(si, o, h):
            if any(k == "r" for k, v in o["cev"] + o["uev"]):
                reads[0] = True
            pending.append((o, c.get("ignore"), {"history": "replay", "step": si, "steps": c["steps"]}))
        fails, obs, forced = run_history(worker, c["steps"], c.get("ignore"), on_obs)
        ctx.evaluated(2 * len(obs))
        for si, o in enumerate(obs):
            print("step %d: %s\n   cached=%s uncached=%s" % (si, json.dumps(o["applied"]), binascii.hexlify(o["cd"] or b"").decode(),
                                                         binascii.hexlify(o["ud"] or b"").decode()))
        for sigclass, detail, si in fails:
            print("FAIL", sigclass, detail)
            ctx.violation(sigclass + ":" + op_kinds(c["steps"]), detail, c)
        compare_with_model(ctx, pending, reads[0])
        for t in ctx.ties_broken:
            print("MODEL/IMPLEMENTATION DIFFER:", t["name"], (t["detail"] or {}).get("differs_in") if isinstance(t["detail"], dict) else "")
    finally:
        worker.close()
