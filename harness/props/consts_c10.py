"""Constants of pym/bob/state.py used by the C10 model: the four file names of
the persistence protocol, the state version window, the checksum trailer
format.  Fail-closed ast walker (TieError when the source changed shape)."""
import os, ast, json
from vlib.gen_consts import parse, find_def, coq_str, TieError

NAME = "ConstsC10"


def _self_attr_assigns(fn):
    """{attr: value-node} for `self.<attr> = <expr>` and {name: node} for plain `name = <expr>`"""
    attrs, names = {}, {}
    for n in ast.walk(fn):
        if isinstance(n, ast.Assign) and len(n.targets) == 1:
            t = n.targets[0]
            if isinstance(t, ast.Attribute) and isinstance(t.value, ast.Name) and t.value.id == "self":
                attrs.setdefault(t.attr, n.value)
            elif isinstance(t, ast.Name):
                names.setdefault(t.id, n.value)
    return attrs, names


def _ev(node, attrs, names, depth=0):
    if depth > 6:
        raise TieError("state.py: constant expression too deep")
    if isinstance(node, ast.Constant) and isinstance(node.value, str):
        return node.value
    if isinstance(node, ast.BinOp) and isinstance(node.op, ast.Add):
        return _ev(node.left, attrs, names, depth + 1) + _ev(node.right, attrs, names, depth + 1)
    if isinstance(node, ast.Attribute) and isinstance(node.value, ast.Name) and node.value.id == "self":
        if node.attr not in attrs:
            raise TieError("state.py: self.%s is not a constant" % node.attr)
        return _ev(attrs[node.attr], attrs, names, depth + 1)
    if isinstance(node, ast.Name) and node.id in names:
        return _ev(names[node.id], attrs, names, depth + 1)
    raise TieError("state.py: file name is not a string constant: " + ast.dump(node)[:120])


def _calls(fn, pred):
    return [n for n in ast.walk(fn) if isinstance(n, ast.Call) and pred(n)]


def _is_replace(n):
    f = n.func
    return len(n.args) == 2 and ((isinstance(f, ast.Name) and f.id == "replacePath") or
                                 (isinstance(f, ast.Attribute) and f.attr in ("replace", "rename")))


def read_consts():
    """file names are found by their use, not by the names of locals/attributes:
    lock   = path given to os.open in __init__
    new, pickle = arguments of the replace call in __commit
    dirty  = path opened for writing in __save (and source of its replace call)"""
    t = parse("pym/bob/state.py")
    cls = find_def(t, "_BobState")
    init = find_def(t, "_BobState.__init__")
    save = find_def(t, "_BobState.__save")
    commit = find_def(t, "_BobState.__commit")
    attrs, names = _self_attr_assigns(init)
    _, snames = _self_attr_assigns(save)
    _, cnames = _self_attr_assigns(commit)
    c = _calls(init, lambda n: isinstance(n.func, ast.Attribute) and n.func.attr == "open"
               and isinstance(n.func.value, ast.Name) and n.func.value.id == "os" and n.args)
    if len(c) != 1:
        raise TieError("_BobState.__init__: expected exactly one os.open call (the lock file), got %d" % len(c))
    lock = _ev(c[0].args[0], attrs, names)
    c = _calls(commit, _is_replace)
    if len(c) != 1:
        raise TieError("_BobState.__commit: expected exactly one replace call, got %d" % len(c))
    new = _ev(c[0].args[0], attrs, cnames)
    pick = _ev(c[0].args[1], attrs, cnames)
    c = _calls(save, lambda n: isinstance(n.func, ast.Name) and n.func.id == "open" and len(n.args) >= 2
               and isinstance(n.args[1], ast.Constant) and "w" in str(n.args[1].value))
    if len(c) != 1:
        raise TieError("_BobState.__save: expected exactly one open(..., 'wb') call, got %d" % len(c))
    dirty = _ev(c[0].args[0], attrs, snames)
    out = {"pickle": pick, "new": new, "dirty": dirty, "lock": lock}
    if len(set(out.values())) != 4:
        raise TieError("state file names are not pairwise distinct: %r" % out)
    vers = {}
    for n in cls.body:
        if isinstance(n, ast.Assign) and len(n.targets) == 1 and isinstance(n.targets[0], ast.Name) \
                and n.targets[0].id in ("MIN_VERSION", "CUR_VERSION"):
            if not (isinstance(n.value, ast.Constant) and isinstance(n.value.value, int)):
                raise TieError("_BobState.%s is not an integer literal" % n.targets[0].id)
            vers[n.targets[0].id] = n.value.value
    if set(vers) != {"MIN_VERSION", "CUR_VERSION"}:
        raise TieError("_BobState.MIN_VERSION/CUR_VERSION not found")
    out.update(vers)
    # checksum trailer: struct.pack(<fmt>, ...) in DigestAdder.__exit__ and __commit, slices [:-n] / [-n:]
    fmts = []
    for fn in (find_def(t, "DigestAdder.__exit__"), commit):
        for n in ast.walk(fn):
            if isinstance(n, ast.Call) and isinstance(n.func, ast.Attribute) and n.func.attr == "pack" \
                    and n.args and isinstance(n.args[0], ast.Constant):
                fmts.append(n.args[0].value)
    if len(fmts) != 2 or fmts[0] != fmts[1]:
        raise TieError("checksum trailer: expected one struct.pack format in DigestAdder.__exit__ and one in __commit, got %r" % fmts)
    out["csum_format"] = fmts[0]
    cuts = set()
    for n in ast.walk(commit):
        if isinstance(n, ast.Slice):
            for b in (n.lower, n.upper):
                if isinstance(b, ast.UnaryOp) and isinstance(b.op, ast.USub) and isinstance(b.operand, ast.Constant):
                    cuts.add(b.operand.value)
    if len(cuts) != 1:
        raise TieError("__commit: expected the slices data[:-n] and data[-n:] with one n, got %r" % sorted(cuts))
    out["trailer_len"] = cuts.pop()
    # adler start value of DigestAdder
    dinit = find_def(t, "DigestAdder.__init__")
    a2, _ = _self_attr_assigns(dinit)
    if "csum" not in a2 or not isinstance(a2["csum"], ast.Constant):
        raise TieError("DigestAdder.__init__ no longer sets self.csum to a literal")
    out["adler_start"] = a2["csum"].value
    return out


SIDECAR = os.path.join(os.path.dirname(os.path.abspath(__file__)), "..", "..", "coq", "Gen", "ConstsC10.lastgood.json")


def last_good():
    """constants of the last successful translation (generated file, not committed): used only to go on
    searching for a failing input after the tie to the current source has already been reported broken"""
    with open(SIDECAR) as f:
        return json.load(f)


def extract(out):
    c = read_consts()
    try:
        with open(SIDECAR, "w") as f:
            json.dump(c, f)
    except OSError:
        pass
    out.append("(* props/consts_c10.py: pym/bob/state.py *)")
    out.append("Definition PATH_PICKLE : list N := %s." % coq_str(c["pickle"]))
    out.append("Definition PATH_NEW : list N := %s." % coq_str(c["new"]))
    out.append("Definition PATH_DIRTY : list N := %s." % coq_str(c["dirty"]))
    out.append("Definition PATH_LOCK : list N := %s." % coq_str(c["lock"]))
    out.append("Definition MIN_VERSION : N := %d." % c["MIN_VERSION"])
    out.append("Definition CUR_VERSION : N := %d." % c["CUR_VERSION"])
    out.append("Definition CSUM_FORMAT : list N := %s." % coq_str(c["csum_format"]))
    out.append("Definition TRAILER_LEN : N := %d." % c["trailer_len"])
    out.append("Definition ADLER_START : N := %d." % c["adler_start"])
