"""C03 (class level) — class resolution is a pure function of the inherit closure.

Correspondence: generated class hierarchies (real YAML projects) are parsed by the
real RecipeSet in a sub-process; the state of every Recipe object before the
first resolveClasses call is the input of Ids/Classes.v `resolve`, the state of
every recipe object after its own resolveClasses call is the expected value.

Direct oracle (independent of the model): the same project parsed with the
recipe files listed in different orders, and with additional recipes nobody
references, must resolve every unchanged recipe to the same state and give the
same Variant-Ids; class objects must not be changed by resolving recipes.

This file is also the sub-process (`python ids_classes.py --dump <dir> ...`)."""
import copy, json, os, shutil, subprocess, sys

PROPERTY_FILES_EXTRA = ["Ids/PropertiesClasses.v"]

SCALARS = ["root", "shared", "relocatable", "jobServer", "packageDepends", "provideSandbox", "buildNetAccess",
           "packageNetAccess"]
DICTS = ["provideTools", "provideVars", "metaEnv", "checkoutAuditFiles", "buildAuditFiles", "packageAuditFiles"]
SETS = ["provideDeps", "checkoutVars", "checkoutVarsWeak", "buildVars", "buildVarsWeak", "packageVars", "packageVarsWeak"]
TOOLS = ["toolDepCheckout", "toolDepCheckoutWeak", "toolDepBuild", "toolDepBuildWeak", "toolDepPackage",
         "toolDepPackageWeak"]
FIELDS = ["order", "lang", "checkout", "build", "package", "codet", "updateIf", "scms", "asserts", "fp", "sources",
          "deps", "scalars", "dicts", "sets", "varSelf", "varPrivate", "tools"]


# ============================================================================ sub-process
def _sub_main(argv):
    """--jobs <file>: list of {"dir", "order", "ids"}; bob is imported once, every job runs in a forked child"""
    import traceback
    jobs = json.load(open(argv[1]))
    import bob.input, bob.languages, bob.errors
    sys.path.insert(0, os.path.join(os.path.dirname(os.path.abspath(__file__)), ".."))
    from vlib import dump_proj
    results = []
    for job in jobs:
        r, w = os.pipe()
        pid = os.fork()
        if pid == 0:
            os.close(r)
            try:
                out = _dump_one(job["dir"], job["order"], job["ids"])
            except BaseException:
                out = {"crash": traceback.format_exc()[-1500:]}
            with os.fdopen(w, "w") as f:
                f.write(json.dumps(out))
            os._exit(0)
        os.close(w)
        with os.fdopen(r) as f:
            data = f.read()
        os.waitpid(pid, 0)
        try:
            results.append(json.loads(data))
        except ValueError:
            results.append({"crash": "no output from the dumping child"})
    print(json.dumps(results))
    return 0


def _dump_one(path, order, with_ids):
    import random
    os.chdir(path)

    # simulated environment: the order in which the directory listing returns the files
    real_walk = os.walk

    def reorder(names, root):
        names.sort()
        if order == "reversed":
            names.reverse()
        elif order.startswith("shuffle:"):
            random.Random(order + ":" + root).shuffle(names)

    def walk(top, *a, **kw):
        for root, dirs, files in real_walk(top, *a, **kw):
            reorder(dirs, root)
            reorder(files, root)
            yield root, dirs, files
    os.walk = walk

    from enum import Enum
    import bob.input as BI
    from bob.input import Recipe, RecipeSet
    from bob.errors import BobError, ParseError
    from bob.languages import ScriptLanguage, BashLanguage, PwshLanguage

    def plain(x):
        if x is None or isinstance(x, (bool, int, float, str)):
            return x
        if isinstance(x, Enum):
            return x.name
        if isinstance(x, dict):
            return {str(plain(k)): plain(v) for k, v in x.items()}
        if isinstance(x, (list, tuple)):
            return [plain(v) for v in x]
        if isinstance(x, (set, frozenset)):
            return sorted((plain(v) for v in x), key=lambda v: json.dumps(v, sort_keys=True))
        if isinstance(x, Recipe):
            return "recipe:" + x.getPackageName()
        slots = []
        for k in type(x).__mro__:
            slots += list(getattr(k, "__slots__", ()))
        if slots or hasattr(x, "__dict__"):
            d = {"__type__": type(x).__name__}
            for s in slots:
                if s.startswith("__"):
                    s = "_" + type(x).__name__.lstrip("_") + s
                if hasattr(x, s):
                    d[s] = plain(getattr(x, s))
            for k, v in getattr(x, "__dict__", {}).items():
                d[k] = plain(v)
            return d
        return "<%s>%s" % (type(x).__name__, str(x))

    def canon(x):
        # opaque for the merge: long renderings are replaced by a digest (equal iff equal, up to SHA-1 collisions)
        import hashlib
        t = json.dumps(plain(x), sort_keys=True)
        return t if len(t) <= 28 else "#" + hashlib.sha1(t.encode("utf8")).hexdigest()[:16]

    def lang_name(l):
        return None if l is None else {"BASH": "bash", "PWSH": "pwsh"}[l.name]

    def g(o, n):
        return getattr(o, "_Recipe__" + n)

    def frags(d):
        return {lang_name(l): [[f[0], f[1]] for f in fr] for l, fr in d.items()}

    def pairs(d, value=canon):
        return [[k, value(v)] for k, v in d.items()]

    def upd(c):
        return None if c is False else canon(c)

    def common(o):
        return {
            "sources": list(g(o, "sources")),
            "deps": [canon(d) for d in g(o, "deps")],
            "scalars": [None if g(o, n) is None else canon(g(o, n)) for n in SCALARS]
                       + [(canon(p.value) if p.present else None) for _, p in sorted(g(o, "properties").items())],
            "dicts": [pairs(g(o, n)) for n in DICTS],
            "tools": [[canon(t) for t in g(o, n)] for n in TOOLS],
        }

    def dump_unresolved(o):
        anon = g(o, "anonBaseClass")
        d = common(o)
        d.update({
            "inherit": list(g(o, "inherit")),
            "anon": None if anon is None else anon.getPackageName(),
            "lang": lang_name(g(o, "scriptLanguage")),
            "dflt": lang_name(g(o, "defaultScriptLanguage")),
            "checkout": frags(g(o, "checkout")), "build": frags(g(o, "build")), "package": frags(g(o, "package")),
            "codet": g(o, "checkoutDeterministic"),
            "updateIf": upd(g(o, "checkoutUpdateIf")),
            "scms": [canon(s) for s in g(o, "checkoutSCMs")],
            "asserts": [canon(s) for s in g(o, "checkoutAsserts")],
            "fp": canon([g(o, "fingerprintScriptList"), g(o, "fingerprintVarsList"), g(o, "fingerprintIf")]),
            "sets": [sorted(g(o, n)) for n in SETS],
            "varSelf": pairs(g(o, "varSelf")), "varPrivate": pairs(g(o, "varPrivate")),
        })
        return d

    def dump_resolved(o):
        d = common(o)
        sets = [sorted(r.pattern for r in g(o, "provideDeps"))] + [sorted(g(o, n)) for n in SETS[1:]]
        d.update({
            "lang": lang_name(g(o, "scriptLanguage")),
            "checkout": list(g(o, "checkout")), "build": list(g(o, "build")), "package": list(g(o, "package")),
            "codet": g(o, "checkoutDeterministic"),
            "updateIf": [[canon(c), s, bool(det)] for c, s, det in g(o, "checkoutUpdateIf")],
            "scms": [canon(s) for s in g(o, "checkoutSCMs")],
            "asserts": [canon(s) for s in g(o, "checkoutAsserts")],
            "fp": [canon([a, b, c]) for a, b, c in zip(g(o, "fingerprintScriptList"), g(o, "fingerprintVarsList"),
                                                       g(o, "fingerprintIf"))],
            "sets": sets,
            "varSelf": [pairs(x) for x in g(o, "varSelf")], "varPrivate": [pairs(x) for x in g(o, "varPrivate")],
        })
        return d

    def snapshot(rs):
        classes = {n: dump_unresolved(c) for n, c in rs._RecipeSet__classes.items()}
        recipes = {}
        anon = {}
        for n, r in rs._RecipeSet__recipes.items():
            if not isinstance(r, Recipe) or n == "":
                continue
            if not g(r, "classesResolved"):
                recipes[n] = dump_unresolved(r)
            a = g(r, "anonBaseClass")
            while a is not None:
                anon[a.getPackageName()] = dump_unresolved(a)
                a = g(a, "anonBaseClass")
        return {"classes": classes, "anon": anon, "recipes": recipes}

    st = {"pre": None, "post": {}, "order": [], "error": None, "lin": {}}
    real_resolve = Recipe.resolveClasses
    # the linearisation itself (a private helper: observed when it exists under this name, else only its effects)
    real_order = getattr(Recipe, "_Recipe__resolveClassesOrder", None)
    if real_order is not None:
        def observed_order(self, cls, stack, visited, isRecipe=False):
            ret = real_order(self, cls, stack, visited, isRecipe)
            if isRecipe:
                st["lin"][self.getPackageName()] = [c.getPackageName() for c in ret]
            return ret
        Recipe._Recipe__resolveClassesOrder = observed_order

    def observed_resolve(self, env):
        name = self.getPackageName()
        if name == "":
            return real_resolve(self, env)
        if st["pre"] is None:
            st["pre"] = snapshot(self.getRecipeSet())
        st["order"].append(name)
        try:
            real_resolve(self, env)
        except ParseError as e:
            msg = str(e)
            kind = "cycle" if "Cyclic class" in msg else ("missing" if "requested but not found" in msg else "other")
            st["error"] = {"recipe": name, "kind": kind, "slogan": msg[:300]}
            raise
        st["post"][name] = dump_resolved(self)
        st["post"][name]["order"] = st["lin"].get(name)
    Recipe.resolveClasses = observed_resolve

    out = {"glue": {"bash": BashLanguage.glue, "pwsh": PwshLanguage.glue}}
    rs = RecipeSet()
    try:
        rs.parse({})
    except BobError as e:
        out["parse_error"] = str(e)[:300]
    out.update({"pre": st["pre"], "post": st["post"], "read_order": st["order"], "error": st["error"]})
    if "parse_error" not in out:
        after = snapshot(rs)
        out["post_classes"] = {"classes": after["classes"], "anon": after["anon"]}
        if with_ids:
            from vlib import dump_proj
            try:
                packages = rs.generatePackages(lambda s, m: "unused", False)
                root = packages.getRootPackage()
                pk = {}

                def walk_pkg(pkg, path):
                    info = {"name": pkg.getName(), "recipe": pkg.getRecipe().getName(), "steps": {}}
                    for kind, s in (("checkout", pkg.getCheckoutStep()), ("build", pkg.getBuildStep()),
                                    ("package", pkg.getPackageStep())):
                        info["steps"][kind] = dump_proj.step_info(s, False)
                    pk["/".join(path)] = info
                    for d in pkg.getAllDepSteps():
                        p = d.getPackage()
                        walk_pkg(p, path + [p.getName()])
                for d in root.getDirectDepSteps():
                    p = d.getPackage()
                    walk_pkg(p, [p.getName()])
                out["packages"] = pk
            except BobError as e:
                out["ids_error"] = str(e)[:300]
    return out


if __name__ == "__main__":
    sys.exit(_sub_main(sys.argv[1:]))

# ============================================================================ harness side
from concurrent.futures import ThreadPoolExecutor
from vlib import coq, coqlit as L, proj, core
from props.ids_common import steps_of

REQUIRES = ["BobV.Ids.Model", "BobV.Ids.Classes"]
VARS = ["VA", "VB", "VC", "VD"]
TOOLNAMES = ["ta", "tb", "tc", "td"]
STEPS = ["checkout", "build", "package"]


def run_batch(jobs, hashseed="0", timeout=1500):
    """jobs: list of {"dir", "order", "ids"} -> list of dumps (one sub-process, one forked child per job)"""
    if not jobs:
        return []
    jf = os.path.join(jobs[0]["dir"], ".jobs.json")
    with open(jf, "w") as f:
        json.dump(jobs, f)
    cmd = ["/venv/bin/python", os.path.abspath(__file__), "--jobs", jf]
    try:
        r = subprocess.run(cmd, env=proj.bob_env(None, hashseed), stdout=subprocess.PIPE, stderr=subprocess.PIPE,
                           stdin=subprocess.DEVNULL, timeout=timeout, text=True)
    except subprocess.TimeoutExpired:
        return [{"crash": "timeout"} for _ in jobs]
    try:
        res = json.loads(r.stdout)
        assert len(res) == len(jobs)
        return res
    except (ValueError, AssertionError):
        return [{"crash": "rc=%d %s" % (r.returncode, (r.stderr or r.stdout)[-1500:])} for _ in jobs]


def dump_all(descs_orders, ids=True):
    """[(desc, order)] -> dumps; projects are written to scratch directories, two sub-processes at a time"""
    dirs = []
    try:
        jobs = []
        for desc, order in descs_orders:
            p = core.scratch_dir("idscls")
            dirs.append(p)
            proj.write_project({k: v for k, v in desc.items() if not k.startswith("_")}, p)
            if "vprop" in desc.get("config", {}).get("plugins", []):
                os.makedirs(os.path.join(p, "plugins"), exist_ok=True)
                with open(os.path.join(p, "plugins", "vprop.py"), "w") as f:
                    f.write(PLUGIN)
            jobs.append({"dir": p, "order": order, "ids": ids})
        halves = [jobs[0::2], jobs[1::2]]
        with ThreadPoolExecutor(max_workers=2) as ex:
            parts = list(ex.map(run_batch, halves))
        out = [None] * len(jobs)
        out[0::2] = parts[0]
        out[1::2] = parts[1]
        return out
    finally:
        for p in dirs:
            shutil.rmtree(p, ignore_errors=True)


# ---------------------------------------------------------------------------- generator
def gen_body(rng, tag, p, is_recipe=False):
    """YAML body of a class / recipe / multiPackage part: a random subset of every key the merge loop handles"""
    b = {}

    def on(q=1.0):
        return rng.random() < p * q
    if on():
        b["environment"] = {rng.choice(["EA", "EB", "EC"]): "e_" + tag}
    if on(0.5):
        b["privateEnvironment"] = {rng.choice(["QA", "QB"]): "q_" + tag}
    for k in ("checkoutVars", "checkoutVarsWeak", "buildVars", "buildVarsWeak", "packageVars", "packageVarsWeak"):
        if on(0.55):
            b[k] = rng.sample(VARS, rng.randint(1, 2))
    for k in ("checkoutTools", "checkoutToolsWeak", "buildTools", "buildToolsWeak", "packageTools", "packageToolsWeak"):
        if on(0.5):
            names = rng.sample(TOOLNAMES, rng.randint(1, 2))
            b[k] = [({"name": n, "if": "${COND_%s:-1}" % tag} if rng.random() < 0.15 else n) for n in names]
    if on(0.6):
        b["provideTools"] = {rng.choice(["pt0", "pt1"]): rng.choice([".", {"path": "bin_" + tag, "libs": ["lib_" + tag]}])}
    if on(0.8):
        b["provideVars"] = {k: "pv_" + tag for k in rng.sample(["PK0", "PK1", "PK2"], rng.randint(1, 2))}
    if on(0.7):
        b["metaEnvironment"] = {k: "me_" + tag for k in rng.sample(["MK0", "MK1", "MK2"], rng.randint(1, 2))}
    for k in ("checkoutAuditFiles", "buildAuditFiles", "packageAuditFiles"):
        if on(0.15):
            b[k] = {rng.choice(["AF0", "AF1"]): "audit_%s.txt" % tag}
    for st in STEPS:
        for part in ("Setup", "Script", "Finalize"):
            if on(0.45 if part == "Script" else 0.25):
                suffix = rng.choice(["", "", "", "Bash", "Pwsh"])
                b[st + part + suffix] = "echo %s-%s%s%s\n" % (tag, st[0], part[:2], suffix)
    if on(0.05):
        b["buildScript"] = ""          # joinScripts drops empty fragments
    if on(0.3):
        b["checkoutDeterministic"] = rng.random() < 0.6
    if on(0.3):
        b["checkoutUpdateIf"] = rng.choice([True, False, None, "${UPD_%s:-}" % tag])
    if on(0.3):
        b["checkoutSCM"] = [{"scm": "git", "url": "file:///nonexistent/%s.git" % tag, "commit": "%040x" % rng.getrandbits(160),
                             "dir": "scm_" + tag}]
    if on(0.15):
        b["checkoutAssert"] = [{"file": "f_%s.txt" % tag, "digestSHA1": "%040x" % rng.getrandbits(160)}]
    if on(0.4):
        leaf = "l_" + tag             # (a dependency must be named only once in a resolved recipe)
        b["depends"] = [rng.choice([leaf, {"name": leaf, "use": ["result"]}, {"name": leaf, "environment": {"DV": "d_" + tag}}])]
        if on(0.6):
            b["provideDeps"] = [rng.choice([leaf, "l_*", "l_?%s" % tag[1:]])]
    for k in ("relocatable", "packageDepends", "buildNetAccess", "packageNetAccess"):
        if on(0.25):
            b[k] = rng.random() < 0.5
    if on(0.12):                       # (shared packages must be deterministic: such projects have no package tree)
        b["shared"] = rng.random() < 0.4
    if on(0.15):
        b["jobServer"] = rng.choice([True, False, "fifo"])
    if on(0.12):
        b["provideSandbox"] = {"paths": ["/bin_" + tag]}
    if on(0.2):
        b["fingerprintScript"] = "echo fp_%s\n" % tag
        b["fingerprintIf"] = rng.choice([True, False, None])
        b["fingerprintVars"] = rng.sample(VARS, 1)
    if on(0.06):
        b["scriptLanguage"] = rng.choice(["bash", "PowerShell"])
    # plugin defined properties (removed again when the project loads no plugin)
    if on(0.35):
        b["VerifProp"] = "vp_" + tag
    if on(0.15):
        b["VerifNote"] = "vn_" + tag
    return b


PLUGIN = '''from bob.input import PluginProperty
class StrProp(PluginProperty):
    @staticmethod
    def validate(data):
        return isinstance(data, str)
manifest = {'apiVersion': "0.21", 'properties': {'VerifProp': StrProp, 'VerifNote': StrProp}}
'''


def pick_inherit(rng, pool, chain=None):
    inh = []
    if chain is not None and rng.random() < 0.6:
        inh.append(chain)
    k = rng.choice([0, 0, 1, 1, 2, 3])
    if pool:
        inh += [rng.choice(pool) for _ in range(k)]        # repeated names are possible and wanted
    rng.shuffle(inh)
    return inh


def gen_hierarchy(rng):
    nc = rng.randint(2, 8)
    cnames = [("grp::k%d" % i if rng.random() < 0.15 else "k%d" % i) for i in range(nc)]
    classes = {}
    for i, cn in enumerate(cnames):
        c = gen_body(rng, "k%d" % i, rng.choice([0.25, 0.5, 0.8]))
        inh = pick_inherit(rng, cnames[:i], cnames[i - 1] if i else None)
        if inh:
            c["inherit"] = inh
        classes[cn] = c
    recipes = {}
    tested = []
    for i in range(rng.randint(2, 4)):
        rn = "grp::r%d" % i if rng.random() < 0.2 else "r%d" % i
        r = gen_body(rng, "r%d" % i, rng.choice([0.2, 0.5]), True)
        if rng.random() < 0.85:
            r.setdefault("buildScript", "echo r%d-build\n" % i)
            r.setdefault("packageScript", "echo r%d-package\n" % i)
        inh = pick_inherit(rng, cnames)
        if inh or rng.random() < 0.8:
            r["inherit"] = inh or [rng.choice(cnames)]
        recipes[rn] = r
        tested.append(rn)
    for i in range(rng.randint(0, 2)):
        rn = "m%d" % i
        r = gen_body(rng, "m%d" % i, rng.choice([0.2, 0.5]))
        inh = pick_inherit(rng, cnames)
        if inh:
            r["inherit"] = inh
        mp = {}
        for s in rng.sample(["a", "b", "c"], rng.randint(1, 3)):
            sub = gen_body(rng, "m%d%s" % (i, s), rng.choice([0.2, 0.5]))
            sinh = pick_inherit(rng, cnames)
            if sinh:
                sub["inherit"] = sinh
            if rng.random() < 0.25:     # nested multiPackage: a second anonymous base class
                sub["multiPackage"] = {t: gen_body(rng, "m%d%s%s" % (i, s, t), 0.3) for t in rng.sample(["x", "y"], rng.randint(1, 2))}
                for t in sub["multiPackage"]:
                    sub["multiPackage"][t].setdefault("packageScript", "echo m%d%s%s\n" % (i, s, t))
                    tested.append("m%d-%s-%s" % (i, s, t))
            else:
                sub.setdefault("packageScript", "echo m%d%s\n" % (i, s))
                tested.append("m%d-%s" % (i, s))
            mp[s] = sub
        r["multiPackage"] = mp
        recipes[rn] = r
    kind = "dag"
    x = rng.random()
    if x < 0.10:
        kind = "cycle"
        a = rng.randrange(nc)
        b = rng.randrange(a, nc)
        if a == b and a + 1 < nc and rng.random() < 0.7:
            b = rng.randrange(a + 1, nc)
        # class a inherits class b >= a, and b reaches a: force the back edge
        classes[cnames[a]].setdefault("inherit", []).append(cnames[b])
        if b != a and cnames[a] not in classes[cnames[b]].get("inherit", []):
            classes[cnames[b]].setdefault("inherit", []).insert(rng.randint(0, len(classes[cnames[b]].get("inherit", []))), cnames[a])
    elif x < 0.17:
        kind = "missing"
        tgt = rng.choice(list(classes.values()) + [recipes[t] for t in recipes if "multiPackage" not in recipes[t]])
        tgt.setdefault("inherit", []).insert(rng.randint(0, len(tgt.get("inherit", []))), "nope")
    def leafs_of(b):
        for d in b.get("depends", []):
            yield d if isinstance(d, str) else d["name"]
        for sub in b.get("multiPackage", {}).values():
            yield from leafs_of(sub)
    recipes["tprov"] = {"packageScript": "echo tools\n", "provideTools": {t: "." for t in TOOLNAMES}}
    root = gen_body(rng, "root", 0.2) if rng.random() < 0.3 else {}
    if root and rng.random() < 0.7:
        root["inherit"] = pick_inherit(rng, cnames) or [cnames[0]]
    for b in list(classes.values()) + list(recipes.values()) + [root]:
        for l in leafs_of(b):
            recipes[l] = {"packageScript": "echo %s\n" % l}
    root["root"] = True
    root.setdefault("buildScript", "echo root\n")
    root.setdefault("packageScript", "echo root\n")
    root["depends"] = [{"name": "tprov", "use": ["tools"], "forward": True}] + root.get("depends", []) + tested
    root.pop("provideDeps", None)
    recipes["root"] = root
    desc = {"classes": classes, "recipes": recipes, "config": {"bobMinimumVersion": "0.25"},
            "default": {"environment": {"GLOBAL1": "g"}}, "_kind": kind, "_classes": cnames}
    # "Shared packages must be deterministic": either nothing is shared or no checkout is indeterministic
    if any(b.get("shared") for b in bodies_of(desc)):
        if rng.random() < 0.5:
            for b in bodies_of(desc):
                if b.get("shared"):
                    b["shared"] = False
        else:
            for b in bodies_of(desc):
                for k in [k for k in b if k.startswith(("checkoutScript", "checkoutFinalize"))]:
                    del b[k]
                if b.get("checkoutDeterministic") is False:
                    del b["checkoutDeterministic"]
    if rng.random() < 0.5:
        desc["config"]["plugins"] = ["vprop"]
    else:
        for b in bodies_of(desc):
            b.pop("VerifProp", None)
            b.pop("VerifNote", None)
    return desc


def add_unreferenced(desc, rng):
    """the same project plus recipes nobody depends on that inherit classes of the project; they name no
    tools, variables or provided things themselves"""
    d = copy.deepcopy(desc)
    cn = d["_classes"]
    for nm in ("aaa_unref", "zzz_unref", "grp::aaa_unref"):
        if rng.random() < 0.75:
            k = rng.randint(1, min(3, len(cn)))
            d["recipes"][nm] = {"inherit": rng.sample(cn, k), "packageScript": "true\n"}
    if not any(n.endswith("_unref") for n in d["recipes"]):
        d["recipes"]["aaa_unref"] = {"inherit": [cn[-1]], "packageScript": "true\n"}
    return d


# ---------------------------------------------------------------------------- Coq literals
def ostr(x):
    return L.opt(x, L.s)


def lang_lit(x):
    return {"bash": "Bash", "pwsh": "Pwsh"}[x]


def frag_lit(f):
    return "(%s, %s)" % (ostr(f[0]), ostr(f[1]))


def frags_lit(fr):
    return "{| f_setup := %s; f_main := %s; f_final := %s |}" % tuple(frag_lit(f) for f in fr)


def frags2_lit(d):
    return "(%s, %s)" % (frags_lit(d["bash"]), frags_lit(d["pwsh"]))


def strs(l):
    return "(%s : list str)" % L.lst([L.s(x) for x in l])


def dict_lit(d):
    return "(%s : dict)" % L.lst([L.pair(L.s(k), L.s(v)) for k, v in d])


def mstate_fields(o, pre):
    return {"sources": strs(o["sources"]), "deps": strs(o["deps"]),
            "scalars": "(%s : list (option str))" % L.lst([ostr(x) for x in o["scalars"]]),
            "dicts": "(%s : list dict)" % L.lst([dict_lit(d) for d in o["dicts"]]),
            "sets": "(%s : list (list str))" % L.lst([strs(s) for s in o["sets"]]),
            "tools": "(%s : list (list str))" % L.lst([strs(s) for s in o["tools"]])}


def cls_lit(o):
    m = mstate_fields(o, True)
    return ("{| c_inherit := %s; c_anon := %s; c_lang := %s; c_dfltLang := %s; c_checkout := %s; c_build := %s; "
            "c_package := %s; c_codet := %s; c_updateIf := %s; c_scms := %s; c_asserts := %s; c_fp := %s; "
            "c_sources := %s; c_deps := %s; c_scalars := %s; c_dicts := %s; c_sets := %s; c_varSelf := %s; "
            "c_varPrivate := %s; c_tools := %s |}") % (
        strs(o["inherit"]), ostr(o["anon"]), L.opt(o["lang"], lang_lit), lang_lit(o["dflt"] or "bash"),
        frags2_lit(o["checkout"]), frags2_lit(o["build"]), frags2_lit(o["package"]),
        L.opt(o["codet"], L.B), ostr(o["updateIf"]), strs(o["scms"]), strs(o["asserts"]), L.s(o["fp"]),
        m["sources"], m["deps"], m["scalars"], m["dicts"], m["sets"], dict_lit(o["varSelf"]), dict_lit(o["varPrivate"]),
        m["tools"])


def script3_lit(t):
    return "(%s, %s, %s)" % (ostr(t[0]), ostr(t[1]), ostr(t[2]))


def resolved_lit(o, order):
    m = mstate_fields(o, False)
    upd = L.lst(["(%s, %s, %s)" % (L.s(c), ostr(s), L.B(d)) for c, s, d in o["updateIf"]])
    return ("(Ok {| rs_order := %s; rs_lang := %s; rs_checkout := %s; rs_build := %s; rs_package := %s; rs_codet := %s; "
            "rs_updateIf := (%s : list (str * option str * bool)); rs_scms := %s; rs_asserts := %s; rs_fp := %s; "
            "rs_m := {| m_sources := %s; m_deps := %s; m_scalars := %s; m_dicts := %s; m_sets := %s; "
            "m_varSelf := (%s : list dict); m_varPrivate := (%s : list dict); m_tools := %s |} |})") % (
        strs(order), lang_lit(o["lang"]), script3_lit(o["checkout"]), script3_lit(o["build"]), script3_lit(o["package"]),
        L.B(o["codet"]), upd, strs(o["scms"]), strs(o["asserts"]), strs(o["fp"]),
        m["sources"], m["deps"], m["scalars"], m["dicts"], m["sets"],
        L.lst([dict_lit(d) for d in o["varSelf"]]), L.lst([dict_lit(d) for d in o["varPrivate"]]), m["tools"])


def table_lit(pre):
    # (names are unique, so the order of the table is immaterial: sorted, to share tables between listings)
    ents = [L.pair(L.s(n), cls_lit(c)) for n, c in sorted(list(pre["classes"].items()) + list(pre["anon"].items()))]
    return "(%s : table)" % L.lst(ents)


def glue_lit(glue):
    return "(fun l : lang => match l with Bash => %s | Pwsh => %s end)" % (L.s(glue["bash"]), L.s(glue["pwsh"]))


# ---------------------------------------------------------------------------- python reference of the order only
def closure(pre, rname):
    """names of the classes/anonymous classes a recipe reaches through inherit (for minimisation and statistics)"""
    objs = dict(pre["classes"]); objs.update(pre["anon"])
    seen = []
    todo = [pre["recipes"][rname]]
    while todo:
        o = todo.pop()
        for n in ([o["anon"]] if o["anon"] else []) + o["inherit"]:
            if n not in seen and n in objs:
                seen.append(n)
                todo.append(objs[n])
    return seen


def depth_of(pre, rname):
    objs = dict(pre["classes"]); objs.update(pre["anon"])

    def d(o, stack):
        best = 0
        for n in ([o["anon"]] if o["anon"] else []) + o["inherit"]:
            if n in objs and n not in stack:
                best = max(best, 1 + d(objs[n], stack + [n]))
        return best
    return d(pre["recipes"][rname], [])


def paths_to(pre, rname):
    """how often each ancestor is reached (>=2: diamond or repeated inherit)"""
    objs = dict(pre["classes"]); objs.update(pre["anon"])
    cnt = {}

    def go(o, stack, budget=[4000]):
        for n in ([o["anon"]] if o["anon"] else []) + o["inherit"]:
            if n in objs and n not in stack and budget[0] > 0:
                budget[0] -= 1
                cnt[n] = cnt.get(n, 0) + 1
                go(objs[n], stack + [n])
    go(pre["recipes"][rname], [])
    return cnt


# ---------------------------------------------------------------------------- one project
def write_and_dump(desc, order, ids=True):
    return dump_all([(desc, order)], ids)[0]


def ids_of(dumped):
    return {(path, kind): st["vid"] for path, kind, st in steps_of(dumped)}


def first_diff(a, b):
    if type(a) != type(b):
        return "type"
    if isinstance(a, dict):
        for k in sorted(set(a) | set(b)):
            if a.get(k) != b.get(k):
                return "%s/%s" % (k, first_diff(a.get(k), b.get(k)))
    if isinstance(a, list):
        if len(a) != len(b):
            return "len %d/%d" % (len(a), len(b))
        for i, (x, y) in enumerate(zip(a, b)):
            if x != y:
                return "%d/%s" % (i, first_diff(x, y))
    return "%r != %r" % (str(a)[:60], str(b)[:60])


def base_of(desc):
    """the project without the recipes nobody references"""
    d = copy.deepcopy(desc)
    for n in [n for n in d["recipes"] if n.endswith("_unref")]:
        del d["recipes"][n]
    return d


def oracle_findings(label, base, other):
    """model independent: `other` is the same project under another listing order and/or with unreferenced
    recipes.  Returns [(signature, what, extra)]."""
    out = []
    for tag, d in (("sorted listing", base), (label, other)):
        if d.get("pre") is None or "post_classes" not in d:
            continue
        before = {"classes": d["pre"]["classes"], "anon": d["pre"]["anon"]}
        if before != d["post_classes"]:
            out.append(("class-object-changed-by-resolving-recipes",
                        "resolveClasses of the recipes changed a class object (%s): %s" % (tag, first_diff(before, d["post_classes"])), {}))
            break
    if "parse_error" in other and "parse_error" not in base and (other.get("error") or {}).get("recipe", "").endswith("_unref"):
        return out          # the added recipe itself reaches a cycle / a missing class: its own error, not an influence
    if ("parse_error" in base) != ("parse_error" in other):
        out.append(("parse-result-depends-on:" + label, "project parses under one listing only: %s / %s" % (
            base.get("parse_error"), other.get("parse_error")), {}))
        return out
    if "parse_error" in base:
        return out
    for rn, post in base["post"].items():
        if rn in other["post"] and other["post"][rn] != post:
            out.append(("resolved-recipe-depends-on:" + label, "recipe %s resolves differently under %s: %s" % (
                rn, label, first_diff(post, other["post"][rn])), {"recipe": rn}))
            break
    if "packages" in base and "packages" in other:
        a, b = ids_of(base), ids_of(other)
        diff = sorted(k for k in set(a) | set(b) if a.get(k) != b.get(k))
        if diff:
            out.append(("id-depends-on:" + label, "Variant-Id of %s changed under %s: %s -> %s" % (
                diff[0], label, a.get(diff[0]), b.get(diff[0])), {"step": list(diff[0])}))
    elif ("packages" in base) != ("packages" in other):
        out.append(("package-tree-depends-on:" + label, "package tree exists under one listing only: %s / %s" % (
            base.get("ids_error"), other.get("ids_error")), {}))
    return out


def still_fails(desc, label, order, signature):
    need_ids = signature.startswith(("id-depends", "package-tree"))
    base, other = dump_all([(base_of(desc), "sorted"), (desc, order)], ids=need_ids)
    if "crash" in base or "crash" in other:
        return None
    for sig, what, extra in oracle_findings(label, base, other):
        if sig == signature:
            return (what, extra)
    return None


def bodies_of(desc):
    for kind in ("classes", "recipes"):
        for n, b in desc[kind].items():
            yield b
            stack = [b]
            while stack:
                x = stack.pop()
                for sub in x.get("multiPackage", {}).values():
                    yield sub
                    stack.append(sub)


def shrink(desc, label, order, signature, budget=60, seconds=150):
    """greedy, big steps first: all other recipes, one key name everywhere, classes, single keys"""
    import time
    t0 = time.time()
    cur = copy.deepcopy(desc)
    last = None
    tries = [0]
    KEEP = ("inherit", "multiPackage", "root", "depends", "packageScript")

    def attempt(cand):
        nonlocal cur, last
        if tries[0] >= budget or time.time() - t0 > seconds:
            return False
        tries[0] += 1
        r = still_fails(cand, label, order, signature)
        if r is not None:
            cur, last = cand, r
            return True
        return False

    def drop_recipes(d, names):
        d = copy.deepcopy(d)
        for n in names:
            del d["recipes"][n]
        root = d["recipes"].get("root", {})
        root["depends"] = [x for x in root.get("depends", []) if not (isinstance(x, str) and any(
            x == n or x.startswith(n + "-") for n in names))]
        return d

    def drop_class(d, n):
        d = copy.deepcopy(d)
        del d["classes"][n]
        for b in bodies_of(d):
            if "inherit" in b:
                b["inherit"] = [x for x in b["inherit"] if x != n]
        d["_classes"] = [c for c in d.get("_classes", []) if c != n]
        return d

    def droppable(d):
        return [n for n in sorted(d["recipes"]) if n not in ("root", "tprov") and not n.startswith("l_")]
    plain = [n for n in droppable(cur) if not n.endswith("_unref")]
    if not (plain and attempt(drop_recipes(cur, plain))):
        for n in droppable(cur):
            if n in cur["recipes"]:
                attempt(drop_recipes(cur, [n]))
    root = cur["recipes"].get("root", {})
    if any(k not in KEEP and k != "buildScript" for k in root) or "inherit" in root:
        cand = copy.deepcopy(cur)
        cand["recipes"]["root"] = {k: v for k, v in root.items() if k in ("root", "depends", "packageScript", "buildScript")}
        attempt(cand)
    names = sorted({k for b in bodies_of(cur) for k in b if k not in KEEP})
    for k in names:
        cand = copy.deepcopy(cur)
        for kind in ("classes", "recipes"):
            for n, b in cand[kind].items():
                if n in ("root", "tprov"):
                    continue
                for x in [b] + [y for y in bodies_of({"classes": {}, "recipes": {n: b}})][1:]:
                    x.pop(k, None)
        attempt(cand)
    for n in sorted(cur["classes"], reverse=True):
        if n in cur["classes"]:
            attempt(drop_class(cur, n))
    for n in droppable(cur):
        if n in cur["recipes"] and len([x for x in cur["recipes"] if x.endswith("_unref")]) > 1:
            attempt(drop_recipes(cur, [n]))
    changed = True
    while changed and tries[0] < budget:
        changed = False
        nb = len(list(bodies_of(cur)))
        for bi in range(nb):
            for k in sorted(k for k in list(bodies_of(cur))[bi] if k not in KEEP):
                cand = copy.deepcopy(cur)
                body = list(bodies_of(cand))[bi]
                if k in body and not (k in ("buildScript",) and body.get("root")):
                    del body[k]
                    if attempt(cand):
                        changed = True
    # leaf recipes nobody names any more
    used = {(x if isinstance(x, str) else x["name"]) for b in bodies_of(cur) for x in b.get("depends", [])}
    cand = copy.deepcopy(cur)
    for n in [n for n in cand["recipes"] if n.startswith("l_") and n not in used]:
        del cand["recipes"][n]
    attempt(cand)
    return cur, last, tries[0]


def oracle(ctx, desc, label, order, base, other):
    reported = getattr(ctx, "_classes_reported", None)
    if reported is None:
        reported = ctx._classes_reported = set()
    fs = oracle_findings(label, base, other)
    if "packages" in base and "packages" in other:
        ctx.count("classes:ids-compared", len(ids_of(base)))
    for sig, what, extra in fs:
        rep = dict(extra, family="classes", desc=desc, config=label, order=order)
        if not reported and not ctx.replay:        # the first finding of a run is minimised (time)
            reported.add(sig)
            small, last, tries = shrink(desc, label, order, sig)
            if last is not None:
                what, extra = last
                rep = dict(extra, family="classes", desc=small, config=label, order=order, shrink_attempts=tries,
                           classes=len(small["classes"]), recipes=len(small["recipes"]))
        ctx.violation(sig, what, rep)
    return not fs


def cases_of(ctx, pi, dumped, cases, meta):
    """Coq cases of one dumped project: every recipe the real code resolved (or failed on)"""
    pre = dumped["pre"]
    err = dumped.get("error")
    for rn in dumped["read_order"]:
        if rn not in pre["recipes"]:
            continue
        inp = "(tbl_%d, %s)" % (pi, cls_lit(pre["recipes"][rn]))
        if rn in dumped["post"]:
            post = dumped["post"][rn]
            exp = resolved_lit(post, post.get("order") or [])
            kind = "ok"
        elif err and err["recipe"] == rn and err["kind"] in ("cycle", "missing"):
            exp = "(@Err resolved %s)" % {"cycle": "ECycle", "missing": "EMissing"}[err["kind"]]
            kind = err["kind"]
        else:
            continue
        cases.append((inp, exp))
        meta.append({"project": pi, "recipe": rn, "kind": kind})


def run_classes(ctx):
    rng = ctx.rng
    ctx.rule += (" | classes: generated class hierarchies (diamonds, repeated inherits, depth <= 5+, multiPackage common "
                 "parts as anonymous base classes, every merged key, some cycles and missing classes) parsed by the real "
                 "RecipeSet; one case = one recipe of one project; non-trivial when the recipe has >= 2 ancestors")
    ctx.assumptions += ["class level: the model's input is the state of the Recipe objects after __init__ (YAML parsing, "
                        "schema validation and IncludeHelper.resolve of single script fragments stay with the real parser); "
                        "directory listing order is simulated by reordering os.walk results in the dumping sub-process"]
    replay_case = None
    if ctx.replay:
        try:
            replay_case = json.load(open(ctx.replay)).get("case", {})
        except (OSError, ValueError):
            replay_case = {}
        if not isinstance(replay_case, dict) or replay_case.get("family") != "classes":
            return
        projects = [base_of(replay_case["desc"])]
    else:
        projects = [gen_hierarchy(rng) for _ in range(ctx.n(10, 150))]
    # corpus first
    cdir = os.path.join(core.VERIF, "corpus", "C03")
    corpus = []
    if not ctx.replay and os.path.isdir(cdir):
        for f in sorted(os.listdir(cdir)):
            if f.startswith("classes_") and f.endswith(".json"):
                corpus.append(json.load(open(os.path.join(cdir, f)))["desc"])
    projects = corpus + projects
    jobs = []
    for pi, desc in enumerate(projects):
        jobs.append((pi, "base", desc, "sorted"))
        if replay_case is not None:
            jobs.append((pi, replay_case.get("config", "unreferenced-recipe"), replay_case["desc"], replay_case.get("order", "sorted")))
            continue
        ex = add_unreferenced(desc, rng) if "_classes" in desc else desc
        if any(n.endswith("_unref") for n in desc["recipes"]):          # a corpus project that carries its unreferenced recipes
            ex, desc = desc, base_of(desc)
            jobs[-1] = (pi, "base", desc, "sorted")
        jobs.append((pi, "unreferenced-recipe", ex, "sorted"))                  # aaa_unref is resolved first
        jobs.append((pi, "unreferenced-recipe-and-listing-order", ex,
                     rng.choice(["reversed", "reversed", "shuffle:%d" % rng.randrange(1 << 30)])))
        if ctx.tier == "thorough" or pi % 3 == 0:
            jobs.append((pi, "listing-order-of-recipe-files", desc, rng.choice(["reversed", "shuffle:%d" % rng.randrange(1 << 30)])))
    results = dump_all([(j[2], j[3]) for j in jobs])
    cases, meta, tables, table_keys, seen_cases = [], [], {}, {}, set()
    glue = None
    for pi, desc in enumerate(projects):
        rs = {j[1]: (j, r) for j, r in zip(jobs, results) if j[0] == pi}
        base = rs["base"][1]
        ctx.count("classes:project-kind:" + desc.get("_kind", "corpus"))
        if "crash" in base or base.get("pre") is None:
            ctx.tie_broken("Ids-classes", {"what": "dump sub-process failed", "detail": base.get("crash") or base.get("parse_error"),
                                           "desc": desc})
            continue
        glue = glue or base["glue"]
        for label in ("listing-order-of-recipe-files", "unreferenced-recipe", "unreferenced-recipe-and-listing-order"):
            if label not in rs:
                continue
            (j, other) = rs[label]
            ctx.evaluated()
            ctx.count("classes:config:" + label)
            if "crash" in other:
                ctx.tie_broken("Ids-classes", {"what": "dump sub-process failed", "detail": other["crash"], "desc": j[2]})
                continue
            oracle(ctx, j[2], label, j[3], base, other)
        if "packages" in base:
            ctx.count("classes:projects-with-package-tree")
        elif "ids_error" in base:
            ctx.count("classes:projects-without-package-tree")
        # correspondence on the base listing and on the listing with unreferenced recipes (their own resolution too)
        for label in ("base", "unreferenced-recipe-and-listing-order"):
            if label not in rs:
                continue
            d = rs[label][1]
            if "crash" in d or d.get("pre") is None:
                continue
            tl = table_lit(d["pre"])
            key = table_keys.setdefault(tl, len(table_keys))
            tables[key] = tl
            new_cases, new_meta = [], []
            cases_of(ctx, key, d, new_cases, new_meta)
            n0 = len(cases)
            trivial = 0
            for c, m in zip(new_cases, new_meta):
                if c in seen_cases:
                    ctx.count("classes:case-identical-to-base-listing")
                    continue
                if m["kind"] == "ok" and not closure(d["pre"], m["recipe"]):
                    trivial += 1
                    if trivial > 1:
                        continue
                seen_cases.add(c)
                cases.append(c)
                meta.append(m)
            for m in meta[n0:]:
                m["desc"] = rs[label][0][2]
                m["order"] = rs[label][0][3]
                m["dump"] = d
                rn = m["recipe"]
                ctx.evaluated()
                pre = d["pre"]
                cl = closure(pre, rn)
                cnt = paths_to(pre, rn)
                ctx.count("classes:case:" + m["kind"])
                ctx.count("classes:depth:%d" % min(depth_of(pre, rn), 7))
                ctx.count("classes:ancestors:%s" % (len(cl) if len(cl) < 6 else "6+"))
                if any(v >= 2 for v in cnt.values()):
                    ctx.count("classes:reached-twice(diamond/repeated)")
                if len(set(pre["recipes"][rn]["inherit"])) < len(pre["recipes"][rn]["inherit"]):
                    ctx.count("classes:repeated-name-in-inherit")
                if pre["recipes"][rn]["anon"]:
                    ctx.count("classes:anon-base")
                    if pre["anon"][pre["recipes"][rn]["anon"]]["anon"]:
                        ctx.count("classes:nested-anon-base")
                if len(pre["recipes"][rn]["scalars"]) > len(SCALARS):
                    ctx.count("classes:with-plugin-properties")
                if m["kind"] == "ok" and d["post"][rn]["lang"] == "pwsh":
                    ctx.count("classes:language-pwsh")
                if len(cl) >= 2:
                    ctx.nontrivial(("classes", json.dumps([pre["recipes"][rn]] + [dict(pre["classes"], **pre["anon"])[c] for c in cl],
                                                          sort_keys=True)))
                if len(ctx.cov["samples"]) < 5 and len(cl) >= 3:
                    ctx.sample({"recipe": rn, "inherit": pre["recipes"][rn]["inherit"], "anon": pre["recipes"][rn]["anon"],
                                "ancestors": cl, "kind": m["kind"]})
    if not cases:
        return
    # when the private linearisation helper could not be observed the order is compared through every field it
    # determines and rs_order itself is normalised away
    with_order = all(m["dump"]["post"][m["recipe"]].get("order") is not None for m in meta if m["kind"] == "ok")
    ctx.count("classes:linearisation-observed-directly", 1 if with_order else 0)
    run_case_txt = ("Definition run_case (p : table * cls) : res resolved :=\n"
                    "  match resolve (fst p) glue (snd p) with\n"
                    "  | Ok x => Ok {| rs_order := %s; rs_lang := rs_lang x; rs_checkout := rs_checkout x; rs_build := rs_build x;\n"
                    "                  rs_package := rs_package x; rs_codet := rs_codet x; rs_updateIf := rs_updateIf x;\n"
                    "                  rs_scms := rs_scms x; rs_asserts := rs_asserts x; rs_fp := rs_fp x; rs_m := rs_m x |}\n"
                    "  | Err e => Err e end.\n") % ("rs_order x" if with_order else "[]")
    glue_txt = "Definition glue := %s.\n" % glue_lit(glue)
    if not with_order:
        cases = [(a, b.replace("(Ok {| rs_order := ", "(Ok {| rs_order := tl_nil ", 1)) for a, b in cases]
        run_case_txt = "Definition tl_nil (l : list str) : list str := [].\n" + run_case_txt
    # two coqc at a time, each chunk with the tables it needs
    bad = []
    CH = 240
    for c0 in range(0, len(cases), CH):
        chunk = cases[c0:c0 + CH]
        keys = sorted({m["project"] for m in meta[c0:c0 + CH]})
        pre_txt = "\n".join("Definition tbl_%d := %s." % (k, tables[k]) for k in keys) + "\n" + glue_txt + run_case_txt
        b, log = coq.run_cases(ctx, REQUIRES, "run_case", "eqb_res", chunk, shard=max(1, (len(chunk) + 1) // 2), tag="cls", preamble=pre_txt)
        if b is None:
            ctx.tie_broken("Ids-classes", {"what": "model evaluation failed", "log": log})
            return
        bad += [c0 + i for i in b]
    pre_txt = glue_txt + run_case_txt
    ctx.validated(len(cases) - len(bad))
    for i in bad[:3]:
        m = meta[i]
        d = m["dump"]
        pre = d["pre"]
        keep = closure(pre, m["recipe"])
        small = {"classes": {n: c for n, c in pre["classes"].items() if n in keep},
                 "anon": {n: c for n, c in pre["anon"].items() if n in keep},
                 "recipes": {m["recipe"]: pre["recipes"][m["recipe"]]}}
        exp = cases[i][1]
        fields = None
        terms = ["res_diff (run_case (%s, %s)) %s" % (table_lit(small), cls_lit(pre["recipes"][m["recipe"]]), exp),
                 "match resolve %s glue %s with Ok x => rs_order x | Err _ => [] end" % (table_lit(small), cls_lit(pre["recipes"][m["recipe"]]))]
        vals, _ = coq.eval_terms(ctx, REQUIRES, terms, preamble=pre_txt)
        if vals:
            bools = [x.strip() for x in vals[0].strip("[] \n").split(";")] if "[" in vals[0] else []
            fields = [f for f, b in zip(FIELDS, bools) if b == "false"] or vals[0][:200]
        ctx.tie_broken("Ids-classes", {"what": "model and implementation resolve a recipe differently", "recipe": m["recipe"],
                                       "kind": m["kind"], "fields": fields, "minimised_objects": small,
                                       "expected": d["post"].get(m["recipe"]) or d.get("error"), "listing": m["order"],
                                       "desc": m["desc"]})
