"""C04 — package graph caches are transparent.

Implementation side (sub-processes of the *current* repository, props/c04_dump.py):
  every step of a generated edit history is dumped
    COLD   every .bob-* file removed first, fresh process          (reference)
    WARM   caches left by all previous steps of the history
    PLAIN  cold, PackageMatcher.matches -> False and the merge by result id disabled
           (= "every cache disabled", including the in-memory ones)
    DEL:f  warm, but cache file f removed individually
    SEED   warm under another PYTHONHASHSEED,  REPEAT warm once more,
    PKGCK  cold with bob.DEBUG['pkgck'] (internal re-computation check)
  and all must show the same package tree (names, stack paths, dependency
  structure, script digests, environments, tools, sandbox, ids, path query
  answers; develop workspace paths up to the persisted numbering).

Model side (coq/C04/Instance.v, vm_compute): an interpreter of the tracked
reader calculus for the environment/tool/sandbox/dependency flow of the
generated recipes; its *plain* package tree is compared with PLAIN and its
memo tables (touched keys with values per recipe) with those of COLD.
"""
import copy, glob, hashlib, json, os, shutil, subprocess, threading, time, traceback
from concurrent.futures import ThreadPoolExecutor
import yaml
from vlib import coq, coqlit as L, core
from vlib.proj import bob_env

PROPERTY_FILES = ["C04/Properties.v", "C04/KeyProperties.v"]
EXTRA_TARGETS = ["C04/Instance.vo"]

DUMP = os.path.join(core.VERIF, "harness", "props", "c04_dump.py")
SIG_A = "merge-by-result-id:deps-or-tools-differ"
SIG_B = "merge-by-result-id:metaEnv-differs"
CACHE_FILES = [".bob-cache.sqlite3", ".bob-packages.pickle", ".bob-packages-sb.pickle", ".bob-tree.sqlite3",
               ".bob-dev-dirs.sqlite3"]
QUERIES = ["//*", "/*/*", "//r3", "//*[\"${VA}\" == \"1\"]"]

GVARS = ["VA", "VB", "VC"]
LVARS = ["L0", "L1"]
VALS = ["1", "0", "", "on", "x", "abc", "false", "2"]
TOOLS = ["ta", "tb"]


# ------------------------------------------------------------------ templates
def t_lit(s):
    return [["lit", s]]


def render_tmpl(t):
    out = []
    for p in t:
        if p[0] == "lit":
            out.append("".join("\\" + c if c in "\\\"'$" else c for c in p[1]))
        elif p[0] == "var":
            out.append("${%s}" % p[1])
        elif p[0] == "vardef":
            out.append("${%s:-%s}" % (p[1], p[2]))
        else:
            raise AssertionError(p)
    return "".join(out)


def render_cond(c):
    if c[0] == "tmpl":
        return render_tmpl(c[1])
    if c[0] == "tooldef":
        return "$(is-tool-defined,%s)" % c[1]
    if c[0] == "eq":
        return "$(eq,%s,%s)" % (render_tmpl(c[1]), render_tmpl(c[2]))
    if c[0] == "not":
        return "$(not,%s)" % render_cond(c[1])
    raise AssertionError(c)


def gen_tmpl(rng, names, p_plainvar=0.12):
    t = []
    for _ in range(rng.choice([1, 1, 2, 2, 3])):
        k = rng.random()
        if k < 0.4:
            t.append(["lit", rng.choice(VALS)])
        elif k < 0.4 + p_plainvar:
            t.append(["var", rng.choice([n for n in names if n in ("VA", "VB")] or ["VA"])])
        else:
            t.append(["vardef", rng.choice(names), rng.choice(VALS)])
    return t


def gen_cond(rng, names, depth=0):
    k = rng.random()
    if k < 0.5:
        return ["tmpl", [["vardef", rng.choice(names), rng.choice(["", "1", "0"])]]]
    if k < 0.65:
        return ["tooldef", rng.choice(TOOLS)]
    if k < 0.85:
        return ["eq", gen_tmpl(rng, names, 0), t_lit(rng.choice(VALS))]
    if depth < 1:
        return ["not", gen_cond(rng, names, depth + 1)]
    return ["tmpl", t_lit(rng.choice(["1", "0", ""]))]


# ------------------------------------------------------------------ generator
def blank_recipe(nm):
    return {"root": False, "classes": [], "env": [], "private": [], "meta": [], "deps": [], "checkout": None, "checkoutVars": [],
            "build": "%s-b0" % nm, "package": "%s-p0" % nm, "inc": None, "buildVars": [], "buildVarsWeak": [], "packageVars": [],
            "packageVarsWeak": [], "buildTools": [], "buildToolsWeak": [], "packageTools": [], "packageToolsWeak": [],
            "provideVars": [], "provideTools": {}, "provideDeps": [], "provideSandbox": None}


def inject_touch_motif(rng, recipes, names):
    """a pass-through recipe (reads nothing itself) above a hub that reads one
    variable; the hub is calculated first, then the pass-through recipe is reached
    under an equal and under a different value of that variable"""
    hub = rng.choice(names[-2:])
    var = rng.choice(GVARS)
    h = recipes[hub]
    k = rng.choice(["buildVars", "packageVars"])
    h[k] = sorted(set(h[k]) | {var})
    v1, v2 = rng.sample(VALS, 2)
    dep = lambda n, env: {"name": n, "if": None, "env": env, "use": None, "forward": False, "inherit": True}
    w, m1, m2 = "r93", "r91", "r92"
    recipes[w] = blank_recipe(w)
    recipes[w]["deps"] = [dep(hub, [])]
    recipes[m1] = blank_recipe(m1)
    recipes[m1]["deps"] = [dep(w, [[var, t_lit(v1)]])]
    recipes[m2] = blank_recipe(m2)
    recipes[m2]["deps"] = [dep(w, [[var, t_lit(v2)]])]
    r0 = recipes[names[0]]
    r0["deps"] = [dep(hub, [[var, t_lit(v1)]])] + [d for d in r0["deps"] if d["name"] != hub] + [dep(m1, []), dep(m2, [])]
    r0["provideDeps"] = [x for x in r0["provideDeps"] if x != hub]


def inject_variant_motif(rng, recipes, names, what):
    """one user recipe reached below two providers of the same tool name (or two
    sandboxes, and no sandbox) with otherwise equal inputs"""
    base = 94 if what == "tools" else 84
    user, p1, p2, a, b, c = ["r%d" % (base + i) for i in range(6)]
    dep = lambda n, **kw: dict({"name": n, "if": None, "env": [], "use": None, "forward": False, "inherit": True}, **kw)
    for n in (user, p1, p2, a, b, c):
        recipes[n] = blank_recipe(n)
    u = recipes[user]
    u["buildVars"] = [rng.choice(GVARS)]
    if rng.random() < 0.5:
        u["deps"] = [dep(rng.choice(names[-2:]))]
    same = rng.random() < 0.25
    if what == "tools":
        u[rng.choice(["buildTools", "packageTools", "buildToolsWeak"])] = ["ta"]
        recipes[p1]["provideTools"] = {"ta": {"path": t_lit("bin1"), "libs": [], "env": []}}
        recipes[p2]["provideTools"] = {"ta": {"path": t_lit("bin1" if same else "bin2"), "libs": [], "env": []}}
        use = ["tools"]
    else:
        u["buildVars"] = sorted(set(u["buildVars"]) | ({"SB"} if rng.random() < 0.5 else set()))
        recipes[p1]["provideSandbox"] = {"paths": ["/bin"], "env": [["SB", t_lit("1")]] if rng.random() < 0.5 else []}
        recipes[p2]["provideSandbox"] = {"paths": ["/bin"] if same else ["/usr/bin"], "env": []}
        use = ["sandbox"]
    recipes[a]["deps"] = [dep(p1, use=use, forward=True), dep(user)]
    recipes[b]["deps"] = [dep(p2, use=use, forward=True), dep(user)]
    parents = [a, b]
    if what == "sandbox":
        recipes[c]["deps"] = [dep(user)]
        parents.append(c)
    else:
        del recipes[c]
    rng.shuffle(parents)
    recipes[names[0]]["deps"] += [dep(x) for x in parents]


def gen_desc(rng, n=None):
    n = n or rng.randint(5, 9)
    names = ["r%d" % i for i in range(n)]
    allv = GVARS + LVARS
    classes = {}
    for ci in range(rng.randint(0, 2)):
        c = {"env": [], "packageVars": [], "buildVars": []}
        if rng.random() < 0.8:
            c["env"].append(["CV%d" % ci, gen_tmpl(rng, GVARS)])
        if rng.random() < 0.6:
            c[rng.choice(["packageVars", "buildVars"])].append("CV%d" % ci)
        if rng.random() < 0.3:
            c["buildVars"].append(rng.choice(GVARS))
        classes["cls%d" % ci] = c
    recipes = {}
    tool_prov = {}      # recipe -> tool names
    sb_prov = []
    for i in reversed(range(n)):
        nm = names[i]
        lower = names[i + 1:]
        r = {"root": i == 0 or (i == 1 and rng.random() < 0.25), "classes": [], "env": [], "private": [], "meta": [],
             "deps": [], "checkout": None, "checkoutVars": [], "build": "%s-b0" % nm, "package": "%s-p0" % nm,
             "inc": None, "buildVars": [], "buildVarsWeak": [], "packageVars": [], "packageVarsWeak": [],
             "buildTools": [], "buildToolsWeak": [], "packageTools": [], "packageToolsWeak": [],
             "provideVars": [], "provideTools": {}, "provideDeps": [], "provideSandbox": None}
        if classes and rng.random() < 0.45:
            r["classes"] = rng.sample(sorted(classes), rng.randint(1, len(classes)))
        for _ in range(rng.choice([0, 0, 1, 1, 2])):
            k = rng.choice(LVARS + GVARS[:2])
            if k not in [e[0] for e in r["env"]]:
                r["env"].append([k, gen_tmpl(rng, allv)])
        if rng.random() < 0.25:
            r["private"].append([rng.choice(["PR", "VA"]), gen_tmpl(rng, allv)])
        if rng.random() < 0.35:
            r["meta"].append(["M", gen_tmpl(rng, allv)])
        if lower:
            # prefer the deeper half a bit less: shared sub-recipes reached on several ways
            k = rng.randint(min(len(lower), 2 if i == 0 else (1 if i < n - 2 else 0)), min(3, len(lower)))
            pool = list(lower)
            chosen = []
            while pool and len(chosen) < k:      # the deepest recipes are hubs reached on many ways
                w = [3 if x in names[-3:] else 1 for x in pool]
                x = rng.choices(pool, w)[0]
                pool.remove(x)
                chosen.append(x)
            for d in sorted(chosen, key=names.index):
                dep = {"name": d, "if": None, "env": [], "use": None, "forward": False, "inherit": True}
                if rng.random() < 0.2:
                    dep["if"] = gen_cond(rng, allv)
                if rng.random() < 0.5:
                    for _ in range(rng.choice([1, 1, 2])):
                        k = rng.choice(GVARS + LVARS[:1])
                        if k not in [e[0] for e in dep["env"]]:
                            dep["env"].append([k, gen_tmpl(rng, allv)])
                if rng.random() < 0.45:
                    use = [u for u in ("result", "deps", "environment", "tools", "sandbox") if rng.random() < 0.55]
                    dep["use"] = use
                if d in tool_prov and rng.random() < 0.7:
                    dep["use"] = sorted(set((dep["use"] if dep["use"] is not None else ["result", "deps"]) + ["tools"]),
                                        key=["result", "deps", "environment", "tools", "sandbox"].index)
                if d in sb_prov and rng.random() < 0.8:
                    dep["use"] = sorted(set((dep["use"] if dep["use"] is not None else ["result", "deps"]) + ["sandbox"]),
                                        key=["result", "deps", "environment", "tools", "sandbox"].index)
                if rng.random() < 0.35:
                    dep["forward"] = True
                if rng.random() < 0.08:
                    dep["inherit"] = False
                r["deps"].append(dep)
        if rng.random() < 0.3:
            r["checkout"] = "%s-c0" % nm
            r["checkoutVars"] = [v for v in allv if rng.random() < 0.2]
        vis = allv + ["PV%d" % j for j in range(i + 1, n)] + ["CV0", "CV1", "SB", "PR", "TE_ta", "TE_tb"]
        r["buildVars"] = sorted(set(v for v in vis if rng.random() < 0.15))
        r["packageVars"] = sorted(set(v for v in vis if rng.random() < 0.1))
        if rng.random() < 0.3:
            r["buildVarsWeak"] = [rng.choice(vis)]
        if rng.random() < 0.15:
            r["packageVarsWeak"] = [rng.choice(vis)]
        got = sorted(set(t for d in r["deps"] if "tools" in (d["use"] or []) and d["if"] is None
                         for t in tool_prov.get(d["name"], [])))
        for t in TOOLS:
            p = 0.6 if t in got else 0.0
            if rng.random() < p:
                r[rng.choice(["buildTools", "buildToolsWeak", "packageTools", "packageToolsWeak"])].append(t)
        if rng.random() < 0.3:
            r["provideVars"].append(["PV%d" % i, gen_tmpl(rng, allv + ["PR"])])
        if rng.random() < 0.3 and i > 0:
            t = rng.choice(TOOLS)
            r["provideTools"][t] = {"path": gen_tmpl(rng, allv, 0), "libs": [t_lit("lib")] if rng.random() < 0.3 else [],
                                    "env": [["TE_" + t, gen_tmpl(rng, allv, 0)]] if rng.random() < 0.5 else []}
            tool_prov[nm] = [t]
        if len(sb_prov) < 2 and rng.random() < 0.22 and i > 0:
            r["provideSandbox"] = {"paths": ["/bin", "/usr/bin"], "env": [["SB", gen_tmpl(rng, allv, 0)]] if rng.random() < 0.7 else []}
            sb_prov.append(nm)
        dn = [d["name"] for d in r["deps"]]
        if dn and rng.random() < 0.1:
            r["provideDeps"] = [rng.choice(dn)]
        if rng.random() < 0.15:
            r["inc"] = "inc-%s-0" % nm
        recipes[nm] = r
    if rng.random() < 0.45:
        inject_touch_motif(rng, recipes, names)
    if rng.random() < 0.3:
        inject_variant_motif(rng, recipes, names, "tools")
    if rng.random() < 0.3:
        inject_variant_motif(rng, recipes, names, "sandbox")
    desc = {"recipes": recipes, "classes": classes,
            "default_env": [[v, rng.choice(VALS)] for v in GVARS[:2]] + ([["VC", rng.choice(VALS)]] if rng.random() < 0.5 else []),
            "opt": None if rng.random() < 0.5 else [["VC", rng.choice(VALS)]],     # optional include default.yaml -> opt.yaml
            "cfg": [[rng.choice(GVARS), rng.choice(VALS)]]}                       # -c cfg (used when the state says so)
    return desc


# ------------------------------------------------------------------ rendering
def recipe_yaml(name, r):
    y = {}
    if r.get("root"):
        y["root"] = True
    if r.get("classes"):
        y["inherit"] = list(r["classes"])
    for key, yk in (("env", "environment"), ("private", "privateEnvironment"), ("meta", "metaEnvironment"),
                    ("provideVars", "provideVars")):
        if r.get(key):
            y[yk] = {k: render_tmpl(t) for k, t in r[key]}
    deps = []
    for d in r.get("deps", []):
        e = {"name": d["name"]}
        if d.get("if") is not None:
            e["if"] = render_cond(d["if"])
        if d.get("env"):
            e["environment"] = {k: render_tmpl(t) for k, t in d["env"]}
        if d.get("use") is not None:
            e["use"] = list(d["use"])
        if d.get("forward"):
            e["forward"] = True
        if not d.get("inherit", True):
            e["inherit"] = False
        deps.append(e if len(e) > 1 else d["name"])
    if deps:
        y["depends"] = deps
    if r.get("checkout"):
        y["checkoutScript"] = "echo %s\n" % r["checkout"]
        y["checkoutDeterministic"] = True
        if r.get("checkoutVars"):
            y["checkoutVars"] = list(r["checkoutVars"])
    if r.get("build") is not None:
        y["buildScript"] = "echo %s\n" % r["build"] + ("$<<inc_%s.sh>>\n" % name if r.get("inc") else "")
    if r.get("package") is not None:
        y["packageScript"] = "echo %s\n" % r["package"]
    for k in ("buildVars", "buildVarsWeak", "packageVars", "packageVarsWeak", "buildTools", "buildToolsWeak",
              "packageTools", "packageToolsWeak", "provideDeps"):
        if r.get(k):
            y[k] = list(r[k])
    if r.get("provideTools"):
        y["provideTools"] = {}
        for t, s in r["provideTools"].items():
            e = {"path": render_tmpl(s["path"])}
            if s.get("libs"):
                e["libs"] = [render_tmpl(x) for x in s["libs"]]
            if s.get("env"):
                e["environment"] = {k: render_tmpl(v) for k, v in s["env"]}
            y["provideTools"][t] = e
    if r.get("provideSandbox"):
        s = r["provideSandbox"]
        y["provideSandbox"] = {"paths": list(s["paths"])}
        if s.get("env"):
            y["provideSandbox"]["environment"] = {k: render_tmpl(v) for k, v in s["env"]}
    return y


def project_files(desc):
    files = {"config.yaml": yaml.safe_dump({"bobMinimumVersion": "0.25"})}
    d = {"environment": {k: v for k, v in desc["default_env"]}, "include": ["opt"]}
    files["default.yaml"] = yaml.safe_dump(d, sort_keys=True)
    if desc.get("opt") is not None:
        files["opt.yaml"] = yaml.safe_dump({"environment": {k: v for k, v in desc["opt"]}})
    files["cfg.yaml"] = yaml.safe_dump({"environment": {k: v for k, v in desc.get("cfg", [])}})
    for name, r in desc["recipes"].items():
        files["recipes/%s.yaml" % name] = yaml.safe_dump(recipe_yaml(name, r), sort_keys=True, default_flow_style=False)
        if r.get("inc"):
            files["recipes/inc_%s.sh" % name] = "echo %s\n" % r["inc"]
    for name, c in desc.get("classes", {}).items():
        y = {}
        if c.get("env"):
            y["environment"] = {k: render_tmpl(t) for k, t in c["env"]}
        for k in ("buildVars", "packageVars", "buildTools", "packageTools"):
            if c.get(k):
                y[k] = list(c[k])
        files["classes/%s.yaml" % name] = yaml.safe_dump(y, sort_keys=True)
    return files


def sync_project(desc, path, touch=()):
    """make the project files below `path` equal to the description, writing only
    what differs (unchanged files keep their stat record -> YAML cache stays warm)"""
    files = project_files(desc)
    os.makedirs(path, exist_ok=True)
    have = []
    for sub in ("", "recipes", "classes"):
        p = os.path.join(path, sub)
        if os.path.isdir(p):
            for f in os.listdir(p):
                if os.path.isfile(os.path.join(p, f)) and not f.startswith(".bob-"):
                    have.append(os.path.join(sub, f) if sub else f)
    for f in have:
        if f not in files:
            os.unlink(os.path.join(path, f))
    for f, content in files.items():
        p = os.path.join(path, f)
        old = None
        if os.path.exists(p):
            with open(p) as fh:
                old = fh.read()
        if old != content or f in touch:
            os.makedirs(os.path.dirname(p), exist_ok=True)
            with open(p, "w") as fh:       # in place: same inode, possibly same size
                fh.write(content)
    os.makedirs(os.path.join(path, "recipes"), exist_ok=True)


# ------------------------------------------------------------------ running
class Pool:          # kept for the callers' close(); every dump is a fresh interpreter process
    def close(self):
        pass


POOL = Pool()


def run_dump(path, state, extra=(), hashseed="0", dev=False, memo=False, timeout=300):
    argv = [path] + ["-D" + d for d in state.get("defines", [])]
    if state.get("cfg"):
        argv += ["-c", "cfg"]
    if state.get("sandbox"):
        argv.append("--sandbox")
    if dev:
        argv.append("--dev")
    if memo:
        argv.append("--memo-tables")
    for q in QUERIES:
        argv += ["--query", q]
    argv += list(extra)
    err = None
    for attempt in range(2):
        try:
            r = subprocess.run(["/venv/bin/python", DUMP] + argv, env=bob_env(None, hashseed), stdout=subprocess.PIPE,
                               stderr=subprocess.PIPE, timeout=timeout, text=True)
        except subprocess.TimeoutExpired:
            err = "timeout"
            continue
        if r.returncode != 0:
            last = [l for l in (r.stderr or "").strip().split("\n") if l.strip()]
            return {"error": "dump-crashed", "slogan": (last[-1] if last else "")[:300]}
        try:
            return json.loads(r.stdout.strip().split("\n")[-1])
        except (ValueError, IndexError):
            return {"error": "dump-garbled", "slogan": r.stdout[-300:]}
    return {"infra": err}


STEP_FIELDS_A = ("tools", "sandbox", "args", "workspace")   # consequences of tool/sandbox diffs and dependency lists


def view(d):
    """canonical comparable view of a dump: dict (path, field) -> value"""
    v = {}
    if "infra" in d:
        return None
    if "harness_error" in d:
        return {("", "harness_error"): d["harness_error"]}
    if "error" in d:
        v[("", "error")] = (d["error"], d.get("slogan"))
        return v
    v[("", "rootEnv")] = d["rootEnv"]
    v[("", "roots")] = d.get("roots")
    for q, a in d.get("queries", {}).items():
        v[("", "query:" + q)] = a
    for path, info in d["packages"].items():
        v[(path, "present")] = True
        for f in ("name", "recipe", "direct", "indirect", "all", "metaEnv", "shared"):
            v[(path, f)] = info[f]
        for kind, st in info["steps"].items():
            for f, val in st.items():
                v[(path, kind + "." + f)] = val
    return v


def diff_views(a, b, dev=False):
    """list of (path, field) on which two views differ; develop workspace paths are
    compared up to the persisted numbering (same base directory, same partition)"""
    out = []
    wa, wb = {}, {}
    for k in sorted(set(a) | set(b), key=lambda x: (x[0], x[1])):
        if k[1].endswith(".workspace"):
            if k in a and k in b:
                wa[k], wb[k] = a[k], b[k]
            continue
        if a.get(k, "<absent>") != b.get(k, "<absent>"):
            out.append(k)
    fwd, bwd = {}, {}
    for k in wa:
        x, y = wa[k], wb[k]
        if os.path.dirname(os.path.dirname(x)) != os.path.dirname(os.path.dirname(y)) or fwd.setdefault(x, y) != y or bwd.setdefault(y, x) != x:
            out.append(k)
    return out


def field_class(f):
    if f in ("error", "harness_error", "rootEnv", "roots", "present", "metaEnv", "name", "recipe", "shared"):
        return f
    if f.startswith("query:"):
        return "query"
    if f in ("direct", "indirect", "all"):
        return "deps"
    g = f.split(".", 1)[1] if "." in f else f
    if g in ("vid", "resultId"):
        return "ids"
    if g in ("env", "digestEnv", "providedEnv"):
        return "env"
    if g in ("tools", "toolDep", "toolDepWeak", "providedTools", "providedToolSpecs"):
        return "tools"
    if g in ("sandbox", "providedSandbox"):
        return "sandbox"
    if g in ("digestScript", "mainScript", "setupScript", "fingerprintScript", "scmDigest"):
        return "scripts"
    if g == "workspace":
        return "paths"
    if g in ("args", "providedDeps"):
        return "deps"
    return g


def classes_of(diffs):
    cl = sorted(set(field_class(f) for _, f in diffs))
    for top in ("harness_error", "error", "rootEnv"):     # the rest is a consequence
        if top in cl:
            return [top]
    return cl


def classify_merge(cold, plain, diffs):
    """COLD (memo + merge) differs from PLAIN and the merge is the cause (the run with
    the merge alone disabled equals PLAIN): decide which class the difference belongs to.
      A  a package with equal result id on both sides differs in its dependency lists /
         tools / sandbox, or packages below such a package differ (the dependency
         variants of the merged package are those of the variant calculated first)
      B  a package with equal result id on both sides differs in metaEnvironment
    anything else is reported under its own signature."""
    vc, vp = view(cold), view(plain)

    def both(p):
        return (p, "present") in vc and (p, "present") in vp

    def same_rid(p):
        return both(p) and vc.get((p, "package.resultId")) == vp.get((p, "package.resultId")) \
            and vc.get((p, "package.vid")) == vp.get((p, "package.vid"))

    def merged_ancestor(p):
        while "/" in p:
            p = p.rsplit("/", 1)[0]
            if same_rid(p):
                return p
        return None
    sigs = set()
    by_path = {}
    for p, f in diffs:
        by_path.setdefault(p, []).append(f)
    for p, fields in sorted(by_path.items()):
        if p == "":
            for f in fields:
                if not f.startswith("query:"):
                    sigs.add("merge-by-result-id:other:" + field_class(f))
        elif not both(p):
            sigs.add(SIG_A if merged_ancestor(p) is not None else "merge-by-result-id:other:present")
        elif same_rid(p):
            rest = []
            for f in fields:
                if f == "metaEnv":
                    sigs.add(SIG_B)
                elif f in ("direct", "indirect", "all") or (("." in f) and f.split(".", 1)[1] in STEP_FIELDS_A):
                    sigs.add(SIG_A)
                else:
                    rest.append(f)
            if rest:
                sigs.add("merge-by-result-id:other:" + ",".join(sorted(set(field_class(f) for f in rest))))
        else:
            sigs.add(SIG_A if merged_ancestor(p) is not None else "merge-by-result-id:other:ids")
    return sigs


class Workdirs:
    def __init__(self, tag):
        self.root = core.scratch_dir("c04-" + tag)
        self.W = os.path.join(self.root, "w", "proj")      # warm chain
        self.C = os.path.join(self.root, "c", "proj")      # cold / plain runs
        os.makedirs(self.W)
        os.makedirs(self.C)

    def close(self):
        shutil.rmtree(self.root, ignore_errors=True)


def state_of(step):
    return {"defines": step.get("defines", []), "cfg": step.get("cfg", False), "sandbox": step.get("sandbox", False)}


def run_step(wd, step, extras, dev, want_memo):
    """run one history step in all requested cache configurations.
    returns dict config -> dump"""
    desc = step["desc"]
    sync_project(desc, wd.W, touch=step.get("touch", ()))
    sync_project(desc, wd.C)
    st = state_of(step)
    res = {}
    res["COLD"] = run_dump(wd.C, st, ["--no-cache"], dev=dev, memo=want_memo)
    res["PLAIN"] = run_dump(wd.C, st, ["--no-cache", "--no-memo", "--no-merge"], dev=dev)
    res["WARM"] = run_dump(wd.W, st, [], dev=dev)
    for x in extras:
        if x.startswith("DEL:"):
            res[x] = run_dump(wd.W, st, ["--delete", x[4:]], dev=dev)
        elif x == "SEED":
            res[x] = run_dump(wd.W, st, [], hashseed=str(1 + step.get("seed", 0) % 3), dev=dev)
        elif x == "REPEAT":
            res[x] = run_dump(wd.W, st, [], dev=dev)
        elif x == "PKGCK":
            res[x] = run_dump(wd.C, st, ["--no-cache", "--pkgck"], dev=dev)
        elif x == "NOMERGE":
            res[x] = run_dump(wd.C, st, ["--no-cache", "--no-merge"], dev=dev)
        elif x == "COLDSEED":
            res[x] = run_dump(wd.C, st, ["--no-cache"], hashseed=str(1 + step.get("seed", 0) % 3), dev=dev)
    return res


def judge_step(wd, step, res, dev):
    """returns list of (signature, what, detail) for one step"""
    out = []
    cold = res["COLD"]
    for cfgname, d in res.items():
        if "harness_error" in d:
            out.append(("TIE", "hook-not-applicable:" + d["harness_error"], cfgname))
    if any(o[0] == "TIE" for o in out):
        return out
    vc = view(cold)
    if vc is None or view(res["PLAIN"]) is None:
        return [("INFRA", cold.get("infra") or res["PLAIN"].get("infra"), "COLD")]
    for cfgname, d in res.items():
        if cfgname in ("COLD", "PLAIN", "NOMERGE"):
            continue
        if view(d) is None:
            out.append(("INFRA", d["infra"], cfgname))
            continue
        if cfgname == "PKGCK" and d.get("error") == "AssertionError":
            out.append(("pkgck-assertion", "DEBUG['pkgck'] re-computation check failed: %s" % d.get("slogan"), cfgname))
            continue
        diffs = diff_views(vc, view(d), dev)
        if diffs:
            kind = "warm" if cfgname in ("WARM", "REPEAT") else ("cache-file-removed" if cfgname.startswith("DEL:") else
                                                                 {"SEED": "hashseed", "COLDSEED": "hashseed", "PKGCK": "pkgck"}.get(cfgname, cfgname))
            out.append(("%s-differs-from-cold:%s" % (kind, ",".join(classes_of(diffs))),
                        "package tree with caches (%s) differs from the tree computed with every on-disk cache removed at %s"
                        % (cfgname, diffs[:6]), cfgname))
    # Path query answers enumerate graph *nodes* (package identity = the shared
    # CorePackage); without sharing there are more nodes by construction, so the
    # answers are compared between the on-disk cache configurations only.
    # Weak variables (…VarsWeak) are by definition not part of a package's identity:
    # variants that differ only in them are one package and share the value of the
    # variant calculated first; the digest environments are compared, the weak rest is not.
    def noq(ds):
        dset = set(ds)
        return [x for x in ds if not x[1].startswith("query:")
                and not (x[1].endswith(".env") and (x[0], x[1][:-4] + ".digestEnv") not in dset)]
    diffs = noq(diff_views(vc, view(res["PLAIN"]), dev))
    if diffs:
        nm = res.get("NOMERGE")
        if nm is None:
            nm = run_dump(wd.C, state_of(step), ["--no-cache", "--no-merge"], dev=dev)
            res["NOMERGE"] = nm
        if view(nm) is None:
            return out + [("INFRA", nm["infra"], "NOMERGE")]
        d2 = noq(diff_views(view(nm), view(res["PLAIN"]), dev))
        if not d2:
            for s in sorted(classify_merge(cold, res["PLAIN"], diffs)):
                out.append((s, "the merge by result id (__corePackagesById.setdefault) changes the package tree at %s" % diffs[:6], "PLAIN"))
        else:
            out.append(("memo-not-transparent:" + ",".join(classes_of(d2)),
                        "package tree computed with the in-memory memo table differs from the uncached computation at %s" % d2[:6], "PLAIN"))
    return out


# ------------------------------------------------------------------ edit histories
EDITS = ["recipe_env", "dep_env", "dep_if", "dep_use", "dep_forward", "script", "vars", "tool_path", "class_env",
         "class_vars", "include_file", "default_env", "opt_toggle", "opt_env", "define", "config", "sandbox", "meta",
         "provide_var", "dep_drop", "dep_add", "revert", "noop", "touch", "sb_env", "recipe_rm_add"]


def edit(rng, step, past):
    """one edit of the project state; returns (new step, kind) or None"""
    s = copy.deepcopy(step)
    s.pop("touch", None)
    d = s["desc"]
    kind = rng.choice(EDITS)
    names = sorted(d["recipes"])
    rn = rng.choice(names)
    r = d["recipes"][rn]
    allv = GVARS + LVARS
    if kind == "recipe_env":
        if r["env"]:
            rng.choice(r["env"])[1] = gen_tmpl(rng, allv)
        else:
            r["env"].append([rng.choice(LVARS), gen_tmpl(rng, allv)])
    elif kind == "dep_env":
        if not r["deps"]: return None
        dp = rng.choice(r["deps"])
        if dp["env"] and rng.random() < 0.5:
            rng.choice(dp["env"])[1] = gen_tmpl(rng, allv)
        else:
            k = rng.choice(GVARS)
            dp["env"] = [e for e in dp["env"] if e[0] != k] + [[k, t_lit(rng.choice(VALS))]]
    elif kind == "dep_if":
        if not r["deps"]: return None
        dp = rng.choice(r["deps"])
        dp["if"] = None if (dp["if"] is not None and rng.random() < 0.4) else gen_cond(rng, allv)
    elif kind == "dep_use":
        if not r["deps"]: return None
        dp = rng.choice(r["deps"])
        dp["use"] = [u for u in ("result", "deps", "environment", "tools", "sandbox") if rng.random() < 0.6]
    elif kind == "dep_forward":
        if not r["deps"]: return None
        dp = rng.choice(r["deps"])
        dp["forward"] = not dp["forward"]
    elif kind == "script":
        k = rng.choice(["build", "package"] + (["checkout"] if r["checkout"] else []))
        base, _, n = r[k].rpartition("-")
        r[k] = "%s-%s%d" % (base, n[0], int(n[1:]) + 1)
    elif kind == "vars":
        k = rng.choice(["buildVars", "packageVars", "buildVarsWeak", "packageVarsWeak"])
        v = rng.choice(allv + ["SB", "CV0", "PR"])
        r[k] = sorted(set(r[k]) ^ {v})
    elif kind == "tool_path":
        ps = [x for x in d["recipes"].values() if x["provideTools"]]
        if not ps: return None
        x = rng.choice(ps)
        t = sorted(x["provideTools"])[0]
        x["provideTools"][t]["path"] = gen_tmpl(rng, allv, 0)
    elif kind == "class_env":
        if not d["classes"]: return None
        c = d["classes"][rng.choice(sorted(d["classes"]))]
        if c["env"]:
            c["env"][0][1] = gen_tmpl(rng, GVARS)
        else:
            c["env"].append(["CV0", gen_tmpl(rng, GVARS)])
    elif kind == "class_vars":
        if not d["classes"]: return None
        c = d["classes"][rng.choice(sorted(d["classes"]))]
        k = rng.choice(["buildVars", "packageVars"])
        c[k] = sorted(set(c[k]) ^ {rng.choice(GVARS + ["CV0", "CV1"])})
    elif kind == "include_file":
        cand = [x for x in d["recipes"].values() if x["inc"]]
        if cand:
            x = rng.choice(cand)
            base, _, n = x["inc"].rpartition("-")
            x["inc"] = "%s-%d" % (base, int(n) + 1)
        else:
            r["inc"] = "inc-%s-0" % rn
    elif kind == "default_env":
        k = rng.choice(GVARS)
        d["default_env"] = [e for e in d["default_env"] if e[0] != k] + ([[k, rng.choice(VALS)]] if rng.random() < 0.85 else [])
        if not any(e[0] == "VA" for e in d["default_env"]):
            d["default_env"].append(["VA", "1"])
        if not any(e[0] == "VB" for e in d["default_env"]):
            d["default_env"].append(["VB", "0"])
    elif kind == "opt_toggle":
        d["opt"] = None if d["opt"] is not None else [[rng.choice(GVARS), rng.choice(VALS)]]
    elif kind == "opt_env":
        if d["opt"] is None: return None
        d["opt"] = [[rng.choice(GVARS), rng.choice(VALS)]]
    elif kind == "define":
        k = rng.choice(GVARS + LVARS[:1])
        defs = [x for x in s.get("defines", []) if not x.startswith(k + "=")]
        if rng.random() < 0.75:
            defs.append("%s=%s" % (k, rng.choice(VALS)))
        s["defines"] = defs
    elif kind == "config":
        if rng.random() < 0.5:
            s["cfg"] = not s.get("cfg", False)
        else:
            d["cfg"] = [[rng.choice(GVARS), rng.choice(VALS)]]
            s["cfg"] = True
    elif kind == "sandbox":
        s["sandbox"] = not s.get("sandbox", False)
    elif kind == "meta":
        r["meta"] = [["M", gen_tmpl(rng, allv)]] if (not r["meta"] or rng.random() < 0.7) else []
    elif kind == "provide_var":
        if r["provideVars"]:
            r["provideVars"][0][1] = gen_tmpl(rng, allv)
        else:
            r["provideVars"].append(["PV%s" % rn[1:], gen_tmpl(rng, allv)])
    elif kind == "sb_env":
        ps = [x for x in d["recipes"].values() if x["provideSandbox"]]
        if not ps: return None
        rng.choice(ps)["provideSandbox"]["env"] = [["SB", gen_tmpl(rng, allv, 0)]]
    elif kind == "dep_drop":
        if not r["deps"]: return None
        dp = rng.choice(r["deps"])
        r["deps"].remove(dp)
        r["provideDeps"] = [x for x in r["provideDeps"] if x != dp["name"]]
    elif kind == "dep_add":
        i = names.index(rn)
        lower = [n for n in names if int(n[1:]) > int(rn[1:]) and n not in [x["name"] for x in r["deps"]]]
        if not lower: return None
        r["deps"].append({"name": rng.choice(lower), "if": None, "env": [[rng.choice(GVARS), t_lit(rng.choice(VALS))]] if rng.random() < 0.5 else [],
                          "use": None, "forward": rng.random() < 0.3, "inherit": True})
    elif kind == "recipe_rm_add":
        # a leaf recipe file disappears (its users lose the dependency) ...
        leaves = [n for n in names if not d["recipes"][n]["root"] and n != "r0"]
        if not leaves: return None
        victim = rng.choice(leaves)
        del d["recipes"][victim]
        for x in d["recipes"].values():
            x["deps"] = [dp for dp in x["deps"] if dp["name"] != victim]
            x["provideDeps"] = [p for p in x["provideDeps"] if p != victim]
    elif kind == "revert":
        if not past: return None
        s = copy.deepcopy(rng.choice(past))
        s.pop("touch", None)
    elif kind == "noop":
        pass
    elif kind == "touch":
        s["touch"] = [rng.choice(sorted(project_files(d)))]
    s["seed"] = rng.randrange(1, 100000)
    return s, kind


FILE_EDITS = {"recipe_env", "dep_env", "dep_if", "dep_use", "dep_forward", "script", "vars", "tool_path", "class_env", "class_vars",
              "include_file", "default_env", "opt_toggle", "opt_env", "meta", "provide_var", "dep_drop", "dep_add", "sb_env", "recipe_rm_add"}


def gen_alternating_history(rng, length):
    """two cache slots that share the YAML cache: the project directory is used
    alternately with the sandbox switched on and off (separate package pickles,
    one .bob-cache.sqlite3 / .bob-tree.sqlite3), sometimes also with and without
    the -c file; a file edit between the rounds is first seen by one slot"""
    st = {"desc": gen_desc(rng), "defines": [], "cfg": False, "sandbox": rng.random() < 0.5, "seed": rng.randrange(1, 100000)}
    alt_cfg = rng.random() < 0.3
    steps, kinds = [], []
    cur = st
    while len(steps) < length:
        a = copy.deepcopy(cur)
        b = copy.deepcopy(cur)
        b["sandbox"] = not a["sandbox"]
        if alt_cfg:
            b["cfg"] = not a.get("cfg", False)
        steps += [a, b]
        kinds += ["alt:first-slot" if not kinds else "alt:edit+first-slot", "alt:second-slot"]
        for _ in range(100):
            e = edit(rng, cur, [])
            if e is not None and e[1] in FILE_EDITS:
                nxt = e[0]
                nxt["sandbox"], nxt["cfg"], nxt["defines"] = cur["sandbox"], cur.get("cfg", False), cur.get("defines", [])
                cur = nxt
                break
    return {"steps": steps[:length + (length % 2)], "kinds": kinds[:length + (length % 2)], "dev": rng.random() < 0.3}


def class_tools_edit(rng, step, on):
    """a class inherited by a recipe that names tools itself starts (on) / stops (off) naming one of them too
    (seed C04-3: Recipe.resolveClasses extends the recipe's own tool lists in place; what a cache keeps of a parsed
    recipe must not contain the class's share). Returns the new step or None."""
    s = copy.deepcopy(step)
    s.pop("touch", None)
    d = s["desc"]
    if on:
        # recipes that name tools in a strong list of their own (the list object of the parsed document is what
        # resolveClasses extends) and could use one more tool
        cand = []
        for n, r in sorted(d["recipes"].items()):
            avail = set(t for dp in r["deps"] if "tools" in (dp["use"] or []) and dp["if"] is None
                        for t in d["recipes"].get(dp["name"], {}).get("provideTools", {}))
            own = set(r["buildTools"] + r["packageTools"] + r["buildToolsWeak"] + r["packageToolsWeak"])
            for k in ("buildTools", "packageTools"):
                if r[k]:
                    more = sorted(avail - own) or sorted(set(TOOLS) - own)
                    if more:
                        cand.append((n, r, k, more, bool(avail - own)))
        if not cand:
            return None
        best = [c for c in cand if c[4]] or cand
        n, r, k, more, _ = rng.choice(best)
        t = rng.choice(more)
        inh = [x for x in r["classes"] if x in d["classes"]]
        if not inh:
            d["classes"].setdefault("clst", {"env": [], "packageVars": [], "buildVars": []})
            r["classes"] = list(r["classes"]) + ["clst"]
            inh = ["clst"]
        c = d["classes"][rng.choice(sorted(inh))]
        c[k] = sorted(set(c.get(k, [])) | {t})
        if rng.random() < 0.7:
            # the recipe file changes in the same commit: it is parsed afresh while the class names the tool
            base, _, num = r["build"].rpartition("-")
            r["build"] = "%s-%s%d" % (base, num[0], int(num[1:]) + 1)
        return s
    cs = [c for c in d["classes"].values() if c.get("buildTools") or c.get("packageTools")]
    if not cs:
        return None
    c = rng.choice(cs)
    k = rng.choice([k for k in ("buildTools", "packageTools") if c.get(k)])
    c[k] = c[k][1:]
    return s


def gen_history(rng, length):
    h = gen_history0(rng, length)
    if rng.random() < 0.4 and len(h["steps"]) >= 3:
        # directed pair somewhere in the history: a class starts naming a tool, later it stops again
        i = rng.randrange(1, len(h["steps"]) - 1)
        j = rng.randrange(i + 1, len(h["steps"]))
        steps, kinds = list(h["steps"]), list(h["kinds"])
        a = class_tools_edit(rng, steps[i - 1], True)
        if a is not None:
            steps[i], kinds[i] = a, "class_tools_on"
            # later states are re-derived from the edited one only at j: the states between keep their own edits
            b = class_tools_edit(rng, steps[j - 1] if j - 1 != i else a, False) if j - 1 == i else None
            if j - 1 == i and b is not None:
                steps[j], kinds[j] = b, "class_tools_off"
            elif j - 1 != i:
                # carry the class edit through the states between i and j, then drop it at j
                for m in range(i + 1, j):
                    steps[m] = copy.deepcopy(steps[m]); steps[m]["desc"]["classes"] = copy.deepcopy(a["desc"]["classes"])
                    for rn, rr in a["desc"]["recipes"].items():
                        if rn in steps[m]["desc"]["recipes"]:
                            steps[m]["desc"]["recipes"][rn]["classes"] = list(rr["classes"])
                b = class_tools_edit(rng, steps[j - 1], False)
                if b is not None:
                    steps[j], kinds[j] = b, "class_tools_off"
            h = dict(h, steps=steps, kinds=kinds)
    return h


def gen_history0(rng, length):
    if rng.random() < 0.3:
        return gen_alternating_history(rng, length)
    st = {"desc": gen_desc(rng), "defines": [], "cfg": rng.random() < 0.3, "sandbox": rng.random() < 0.4, "seed": rng.randrange(1, 100000)}
    if rng.random() < 0.4:
        st["defines"] = ["%s=%s" % (rng.choice(GVARS), rng.choice(VALS))]
    steps = [st]
    kinds = ["initial"]
    tries = 0
    while len(steps) < length and tries < 200:
        tries += 1
        e = edit(rng, steps[-1], steps[:-1])
        if e is None:
            continue
        steps.append(e[0])
        kinds.append(e[1])
    return {"steps": steps, "kinds": kinds, "dev": rng.random() < 0.5}


EXTRA_POOL = ["DEL:.bob-cache.sqlite3", "DEL:.bob-packages*.pickle", "DEL:.bob-tree.sqlite3", "DEL:.bob-dev-dirs.sqlite3",
              "SEED", "REPEAT", "PKGCK", "COLDSEED"]


def run_history(hist, n_extras, rng_seed):
    """-> list per step of (res, verdicts, extras)"""
    import random
    rng = random.Random(rng_seed)
    wd = Workdirs("h")
    out = []
    try:
        for i, step in enumerate(hist["steps"]):
            extras = hist.get("extras", {}).get(str(i))
            if extras is None:
                extras = EXTRA_POOL if n_extras >= len(EXTRA_POOL) else rng.sample(EXTRA_POOL, n_extras)
            res = run_step(wd, step, extras, hist.get("dev", False), want_memo=True)
            verdicts = judge_step(wd, step, res, hist.get("dev", False))
            out.append((res, verdicts, extras))
    finally:
        wd.close()
    return out


# ------------------------------------------------------------------ shrinking
def state_signatures(step, dev=False):
    """signatures of COLD-vs-PLAIN differences of a single project state (no history)"""
    wd = Workdirs("s")
    try:
        res = run_step(wd, step, [], dev, want_memo=False)
        del res["WARM"]
        return set(v[0] for v in judge_step(wd, step, res, dev) if v[0] not in ("INFRA", "TIE"))
    finally:
        wd.close()


def shrink_state(step, sig, budget=40):
    """greedy reduction of a project state that shows signature `sig` without history"""
    cur = copy.deepcopy(step)
    used = [0]

    def still(c):
        if used[0] >= budget:
            return False
        used[0] += 1
        try:
            return sig in state_signatures(c)
        except Exception:
            return False

    def candidates(c):
        d = c["desc"]
        for n in sorted(d["recipes"]):
            if not d["recipes"][n]["root"]:
                x = copy.deepcopy(c)
                del x["desc"]["recipes"][n]
                for r in x["desc"]["recipes"].values():
                    r["deps"] = [dp for dp in r["deps"] if dp["name"] != n]
                    r["provideDeps"] = [p for p in r["provideDeps"] if p != n]
                yield x
        for n in sorted(d["recipes"]):
            r = d["recipes"][n]
            for i in range(len(r["deps"])):
                x = copy.deepcopy(c)
                dn = x["desc"]["recipes"][n]["deps"].pop(i)["name"]
                x["desc"]["recipes"][n]["provideDeps"] = [p for p in x["desc"]["recipes"][n]["provideDeps"] if p != dn]
                yield x
            for k, empty in (("classes", []), ("env", []), ("private", []), ("meta", []), ("provideVars", []), ("provideDeps", []),
                             ("buildVars", []), ("packageVars", []), ("buildVarsWeak", []), ("packageVarsWeak", []),
                             ("buildTools", []), ("buildToolsWeak", []), ("packageTools", []), ("packageToolsWeak", []),
                             ("provideTools", {}), ("provideSandbox", None), ("checkout", None), ("inc", None)):
                if r.get(k):
                    x = copy.deepcopy(c)
                    x["desc"]["recipes"][n][k] = copy.deepcopy(empty)
                    yield x
            for i, dp in enumerate(r["deps"]):
                for k, empty in (("if", None), ("env", []), ("use", None), ("forward", False)):
                    if dp.get(k):
                        x = copy.deepcopy(c)
                        x["desc"]["recipes"][n]["deps"][i][k] = copy.deepcopy(empty)
                        yield x
        if c.get("defines"):
            x = copy.deepcopy(c); x["defines"] = []; yield x
        if c.get("cfg"):
            x = copy.deepcopy(c); x["cfg"] = False; yield x
        if d.get("classes"):
            x = copy.deepcopy(c); x["desc"]["classes"] = {}
            for r in x["desc"]["recipes"].values():
                r["classes"] = []
            yield x

    progress = True
    while progress and used[0] < budget:
        progress = False
        for cand in candidates(cur):
            if still(cand):
                cur = cand
                progress = True
                break
    return cur


# ------------------------------------------------------------------ model side (coq/C04/Instance.v)
REQUIRES = ["BobV.C04.Model", "BobV.C04.Instance"]
USE_ORDER = ["result", "deps", "environment", "tools", "sandbox"]


def c_str(s):
    return L.s(s)


def c_list(xs, ty=None):
    if not xs:
        return "(@nil %s)" % ty if ty else "[]"
    return "[" + "; ".join(xs) + "]"


def c_tmpl(t):
    out = []
    for p in t:
        if p[0] == "lit":
            out.append("PLit %s" % c_str(p[1]))
        elif p[0] == "var":
            out.append("PVar %s" % c_str(p[1]))
        else:
            out.append("PVarDef %s %s" % (c_str(p[1]), c_str(p[2])))
    return c_list(out, "piece")


def c_cond(c):
    if c[0] == "tmpl":
        return "(CTmpl %s)" % c_tmpl(c[1])
    if c[0] == "tooldef":
        return "(CToolDef %s)" % c_str(c[1])
    if c[0] == "eq":
        return "(CEq %s %s)" % (c_tmpl(c[1]), c_tmpl(c[2]))
    return "(CNot %s)" % c_cond(c[1])


def c_dict(d):
    return c_list(["(%s, %s)" % (c_str(k), c_tmpl(t)) for k, t in d], "(str * tmpl)")


def c_strs(xs):
    return c_list([c_str(x) for x in xs], "str")


def flatten_recipe(desc, name):
    """class linearisation for the features the generator uses (classes contribute
    environment layers and variable lists only)"""
    r = desc["recipes"][name]
    cls = [desc["classes"][c] for c in r.get("classes", []) if c in desc["classes"]]
    layers = [c["env"] for c in cls if c.get("env")] + ([r["env"]] if r.get("env") else [])
    cvars = set(r.get("checkoutVars", []))
    bvars = set(r.get("buildVars", [])) | cvars
    pvars = set(r.get("packageVars", [])) | bvars
    for c in cls:
        cb = set(c.get("buildVars", []))
        bvars |= cb
        pvars |= set(c.get("packageVars", [])) | cb
    bweak = set(r.get("buildVarsWeak", []))
    pweak = set(r.get("packageVarsWeak", [])) | bweak
    bs = set(r.get("buildTools", []))
    for c in cls:                                  # tool uses named by inherited classes
        bs |= set(c.get("buildTools", []))
    bw = set(r.get("buildToolsWeak", [])) - bs
    ps = set(r.get("packageTools", [])) | bs
    for c in cls:
        ps |= set(c.get("packageTools", []))
    pw = (set(r.get("packageToolsWeak", [])) | set(r.get("buildToolsWeak", []))) - ps
    return {"layers": layers, "cvars": sorted(cvars), "bvars": sorted(bvars), "ball": sorted(bvars | bweak),
            "pvars": sorted(pvars), "pall": sorted(pvars | pweak), "btools": sorted(bs | bw), "ptools": sorted(ps | pw),
            "pweak": sorted(pw)}


def c_recipe(desc, name):
    r = desc["recipes"][name]
    f = flatten_recipe(desc, name)
    deps = []
    for d in r.get("deps", []):
        use = d["use"] if d.get("use") is not None else ["result", "deps"]
        deps.append("{| d_name := %s; d_if := %s; d_env := %s; d_result := %s; d_deps := %s; d_envu := %s; d_tools := %s; "
                    "d_sandbox := %s; d_forward := %s; d_inherit := %s |}" % (
                        c_str(d["name"]), "None" if d.get("if") is None else "(Some %s)" % c_cond(d["if"]), c_dict(d.get("env", [])),
                        L.B("result" in use), L.B("deps" in use), L.B("environment" in use), L.B("tools" in use),
                        L.B("sandbox" in use), L.B(bool(d.get("forward"))), L.B(d.get("inherit", True))))
    ptools = []
    for t, s in r.get("provideTools", {}).items():
        ptools.append("(%s, {| ts_path := %s; ts_libs := %s; ts_env := %s |})" % (
            c_str(t), c_tmpl(s["path"]), c_list([c_tmpl(x) for x in s.get("libs", [])], "tmpl"), c_dict(s.get("env", []))))
    sb = r.get("provideSandbox")
    build = r["build"] + ("|" + r["inc"] if r.get("inc") else "")
    return ("{| r_name := %s; r_env := %s; r_private := %s; r_meta := %s; r_deps := %s; r_checkout := %s; r_build := %s; "
            "r_package := %s; r_cvars := %s; r_bvars := %s; r_ball := %s; r_pvars := %s; r_pall := %s; r_btools := %s; "
            "r_ptools := %s; r_ptools_weak := %s; r_provide_vars := %s; r_provide_tools := %s; r_provide_deps := %s; "
            "r_provide_sandbox := %s |}") % (
        c_str(name), c_list([c_dict(l) for l in f["layers"]], "(list (str * tmpl))"),
        c_list([c_dict(r["private"])] if r.get("private") else [], "(list (str * tmpl))"), c_dict(r.get("meta", [])),
        c_list(deps, "dep"), "None" if not r.get("checkout") else "(Some %s)" % c_str(r["checkout"]), c_str(build),
        c_str(r["package"]), c_strs(f["cvars"]), c_strs(f["bvars"]), c_strs(f["ball"]), c_strs(f["pvars"]), c_strs(f["pall"]),
        c_strs(f["btools"]), c_strs(f["ptools"]), c_strs(f["pweak"]), c_dict(r.get("provideVars", [])),
        c_list(ptools, "(str * toolspec)"), c_strs(r.get("provideDeps", [])),
        "None" if not sb else "(Some (%s, %s))" % (c_strs(sb["paths"]), c_dict(sb.get("env", []))))


def root_env_of(step):
    d = step["desc"]
    env = {}
    for k, v in d["default_env"]:
        env[k] = v
    if d.get("opt") is not None:
        for k, v in d["opt"]:
            env[k] = v
    if step.get("cfg"):
        for k, v in d.get("cfg", []):
            env[k] = v
    for x in step.get("defines", []):
        k, _, v = x.partition("=")
        env[k] = v
    env["BOB_HOST_PLATFORM"] = "linux"
    return env


def c_project(step):
    desc = step["desc"]
    roots = sorted(n for n, r in desc["recipes"].items() if r.get("root"))
    vroot = {"root": False, "deps": [{"name": n, "use": ["result"]} for n in roots], "build": "true", "package": "true"}
    d2 = {"recipes": dict(desc["recipes"]), "classes": desc.get("classes", {})}
    d2["recipes"][""] = vroot
    recs = [c_recipe(d2, n) for n in sorted(d2["recipes"])]
    pj = "{| pj_recipes := %s; pj_sandbox := %s |}" % (c_list(recs, "recipe"), L.B(bool(step.get("sandbox"))))
    env = c_list(["(%s, %s)" % (c_str(k), c_str(v)) for k, v in sorted(root_env_of(step).items())], "(str * str)")
    names = c_strs(sorted(d2["recipes"]))
    return "(%s, %s, %s)" % (pj, env, names)


def I_L(s):
    return "L %s" % c_str(s)


def I_raw(ns):
    return "L [%s]" % ";".join(str(n) for n in ns)


def I_Nd(xs):
    return "Nd %s" % c_list(["(%s)" % x for x in xs], "idt")


def I_env(d):
    return I_Nd([I_Nd([I_L(k), I_L(v)]) for k, v in sorted(d.items())])


def I_tools(tools):
    return I_Nd([I_Nd([I_L(n), I_L(t["path"]), I_Nd([I_L(x) for x in t["libs"]]), I_env(t["env"])])
                 for n, t in sorted(tools.items())])


def node_lit(path, info):
    st = info["steps"]
    co, b, p = st["checkout"], st["build"], st["package"]
    sb = p.get("sandbox")
    ps = p.get("providedSandbox")
    return I_Nd([
        I_L(path), I_L(info["name"]), I_Nd([I_L(x) for x in info["direct"]]), I_Nd([I_L(x) for x in info["indirect"]]),
        I_Nd([I_env(co["env"]), I_env(co["digestEnv"])]) if co["valid"] else I_Nd([]),
        I_Nd([I_env(b["env"]), I_env(b["digestEnv"]), I_tools(b["tools"])]),
        I_Nd([I_env(p["env"]), I_env(p["digestEnv"]), I_tools(p["tools"])]),
        I_Nd([I_Nd([I_L(x) for x in sb["paths"]]), I_env(sb["env"])]) if sb else I_Nd([]),
        I_env(info["metaEnv"]), I_env(p["providedEnv"]), I_tools(p["providedToolSpecs"]),
        I_Nd([I_L(x) for x in p["providedDeps"]]),
        I_Nd([I_Nd([I_L(x) for x in ps["paths"]]), I_env(ps["env"])]) if ps else I_Nd([])])


def classes_of_list(xs):
    seen = {}
    out = []
    for x in xs:
        out.append(seen.setdefault(x, len(seen)))
    return out


def c_Ns(xs):
    return c_list([str(x) for x in xs], "N")


def expected_lit(plain, cold, names):
    """the verdict the model must produce: the package tree of the PLAIN run and the memo tables of the COLD run"""
    if "error" in plain:
        return "VErr"
    nodes, vids, rids = [], [], []
    for path, info in plain["packages"].items():
        if not info["steps"]["build"]["valid"]:
            return None
        nodes.append(node_lit(path, info))
        vids.append(info["steps"]["package"]["vid"])
        rids.append(info["steps"]["package"]["resultId"])
    tv = "{| tv_nodes := %s; tv_vid := %s; tv_rid := %s |}" % (c_list(nodes, "idt"), c_Ns(classes_of_list(vids)), c_Ns(classes_of_list(rids)))
    tabs, vals, erids = [], [], []
    memo = cold.get("memo", {})
    for n in names:
        ents = []
        for e in memo.get(n, []):
            ents.append(I_Nd([
                I_Nd([I_Nd([I_L(k), I_Nd([I_L(v)]) if v is not None else I_Nd([])]) for k, v in sorted(e["env"].items())]),
                I_Nd([I_Nd([I_L(k), I_raw([1]) if v is not None else I_raw([0])]) for k, v in sorted(e["tools"].items())]),
                I_raw([1]) if e["sandbox"] is not None else I_raw([0]),
                I_Nd([I_L(x) for x in sorted(e["sub"])])]))
            vals += ["t" + v for k, v in sorted(e["tools"].items()) if v is not None]
            if e["sandbox"] is not None:
                vals.append("s" + e["sandbox"])
            erids.append(e["rid"])
        tabs.append(I_Nd([I_L(n), I_Nd(ents)]))
    mv = "{| mv_tabs := %s; mv_vals := %s; mv_rid := %s |}" % (c_list(tabs, "idt"), c_Ns(classes_of_list(vals)), c_Ns(classes_of_list(erids)))
    return "(VOk %s %s)" % (tv, mv)


MODEL_FN = "(fun i => model_run (fst (fst i)) (snd (fst i)) (snd i))"


# ------------------------------------------------------------------ the check
def corpus_cases():
    out = []
    for f in sorted(glob.glob(os.path.join(core.VERIF, "corpus", "C04", "*.json"))):
        with open(f) as fh:
            c = json.load(fh)
        c["_file"] = os.path.basename(f)
        out.append(c)
    return out


def model_case(step, res):
    """(input literal, expected literal) or None"""
    plain, cold = res["PLAIN"], res["COLD"]
    if "infra" in plain or "infra" in cold:
        return None
    if plain.get("error") in ("too-large", "timeout", "server-died", "dump-crashed") or "harness_error" in plain:
        return None
    if "error" not in plain and ("error" in cold or "memo" not in cold):
        return None
    names = sorted(list(step["desc"]["recipes"]) + [""])
    try:
        exp = expected_lit(plain, cold, names)
    except KeyError:
        return None
    if exp is None:
        return None
    return c_project(step), exp


SHRUNK = [0]


def record(ctx, label, hist, results, cases, meta):
    """bookkeeping and verdicts of one executed history"""
    dev = hist.get("dev", False)
    for i, (res, verdicts, extras) in enumerate(results):
        step = hist["steps"][i]
        cold = res["COLD"]
        for cfgname in res:
            if cfgname == "COLD" or "infra" in res[cfgname] or "infra" in cold:
                continue
            ctx.evaluated()
            ctx.count("config:" + cfgname)
        ctx.count("edit:" + hist.get("kinds", ["corpus"] * len(hist["steps"]))[i])
        if "infra" in cold:
            pass
        elif "error" in cold:
            ctx.count("state:error:" + str(cold.get("slogan", cold["error"]))[:28].split("\n")[0])
        else:
            n = len(cold["packages"])
            ents = sum(len(v) for v in cold.get("memo", {}).values())
            ctx.count("state:tree-ok")
            ctx.count("tree-nodes", n)
            ctx.count("memo-entries", ents)
            if n + 1 > ents:
                ctx.count("state:with-memo-hits")
            if any(st["tools"] for pk in cold["packages"].values() for st in pk["steps"].values() if st.get("valid")):
                ctx.count("state:with-tools")
            if any(pk["steps"]["package"].get("sandbox") for pk in cold["packages"].values()):
                ctx.count("state:with-sandbox")
            key = json.dumps([sorted(cold["packages"]), sorted((p, pk["steps"]["package"]["vid"]) for p, pk in cold["packages"].items()),
                              state_of(step)], sort_keys=True)
            if n >= 3:
                ctx.nontrivial(hashlib.sha1(key.encode()).hexdigest())
        h_root = root_env_of(step)
        if "rootEnv" in cold and cold["rootEnv"] != h_root:
            ctx.tie_broken("root-environment-correspondence", {"label": label, "step": i, "expected": h_root, "got": cold["rootEnv"]})
        if len(ctx.cov["samples"]) < 5 and "packages" in cold and len(cold["packages"]) >= 4:
            ctx.sample({"history": label, "step": i, "edit": hist.get("kinds", ["-"] * 99)[i], "configs": sorted(res),
                        "packages": sorted(cold["packages"])[:12], "state": state_of(step)})
        for sig, what, cfgname in verdicts:
            if sig == "TIE":
                ctx.tie_broken("implementation-hook", {"detail": what, "config": cfgname})
                continue
            if sig == "INFRA":
                ctx.count("infra:" + str(what))
                ctx.note("%s step %d config %s not compared: %s" % (label, i, cfgname, what))
                continue
            replay = {"kind": "history", "label": label, "dev": dev, "steps": hist["steps"][:i + 1],
                      "extras": {str(i): [cfgname] if cfgname not in ("WARM", "PLAIN") else []}, "config": cfgname}
            if cfgname == "PLAIN":
                # the history is irrelevant for in-memory caches: minimise the project state
                small = step
                known = set(k["signature"] for k in ctx.known if k.get("status") == "known")
                if not label.startswith("corpus") and sig not in known and SHRUNK[0] < ctx.n(2, 4):
                    SHRUNK[0] += 1
                    try:
                        small = shrink_state(step, sig, budget=ctx.n(25, 50))
                    except Exception:
                        small = step
                replay = {"kind": "state", "label": label, "step": small, "dev": dev}
            ctx.violation(sig, what, replay)
        mc = model_case(step, res)
        if mc is not None:
            cases.append(mc)
            meta.append({"label": label, "step": i})
        else:
            ctx.count("model:skipped")


def run(ctx):
    rng = ctx.rng
    ctx.rule = ("generated recipe projects with shared sub-recipes reached under differing environments/tools/sandboxes, each with an "
                "edit history (recipe, class, included script, default.yaml, optional include, -c file, -D, sandbox switch, revert, touch); "
                "a case = (history step, cache configuration) compared with the cold run of that step; distinct non-trivial = "
                "distinct (package tree with >= 3 nodes and its variant ids, -D/-c/sandbox state)")
    ctx.assumptions += [
        "generic theorems are about the calculus of coq/C04/Model.v; Recipe.prepare is tied to it by the interpreter coq/C04/Instance.v "
        "compared on generated projects (plain package tree and memo tables), not by proof",
        "fp_determines: a tool/sandbox is determined by its result id (hypothesis of memo_transparent*; C02's territory)",
        "rid_determines_subtree: hypothesis of memo_transparent (merge by result id); FALSE for the implementation "
        "(known findings merge-by-result-id:*), exhibited by corpus witnesses and by merge_needs_rid_determines",
        "yaml_cache_transparent assumes equal (name, stat record) implies equal content (stat_faithful)",
        "YAML parsing, class linearisation, string substitution syntax, pickle/sqlite3 are exercised through the real code, not modelled",
        "model tree covers: names, stack paths, direct/indirect dependency lists, step environments (full and digest), used tools "
        "(name, path, libs, environment), sandbox (paths, environment), metaEnvironment, provided variables/tools/deps/sandbox, "
        "equalities of package-step variant ids and result ids, touched variable/tool/sandbox sets with values per memo entry; "
        "NOT covered by the model: script texts, SCMs, fingerprints, workspace paths, path queries (oracle only)",
    ]
    ctx.trusted_base += [
        "props/c04_dump.py: dumps the package tree through the public Package/Step getters of the repository under test; "
        "one fresh interpreter process per dump",
        "cache configurations are produced without editing the repository: deleting .bob-* files, PYTHONHASHSEED, "
        "bob.DEBUG['pkgck'], and two monkey patches in the dump process (PackageMatcher.matches -> False; "
        "Recipe.__corePackagesById replaced by a dict whose setdefault never reuses); if a patched name disappears the run "
        "reports a broken tie instead of passing",
        "harness-side class flattening and root-environment merge for the model input (checked against the real root environment)",
    ]
    cases, meta = [], []
    try:
        if ctx.replay:
            with open(ctx.replay) as fh:
                rp = json.load(fh)
            c = rp.get("case", rp)
            hist = {"steps": [c["step"]], "dev": c.get("dev", False), "kinds": ["replay"]} if c.get("kind") == "state" else \
                {"steps": c["steps"], "dev": c.get("dev", False), "extras": c.get("extras", {}), "kinds": ["replay"] * len(c["steps"])}
            results = run_history(hist, 0 if "extras" in hist else len(EXTRA_POOL), 1)
            record(ctx, "replay", hist, results, cases, meta)
        else:
            # corpus first (hand-written nasty cases and the witnesses of known findings), then generated histories
            jobs = []
            for c in ([] if os.environ.get("C04_NO_CORPUS") else corpus_cases()):   # (calibration of the generator only)
                if c.get("kind") == "state":
                    hist = {"steps": [c["step"]], "dev": c.get("dev", False), "kinds": ["corpus"],
                            "extras": {"0": c.get("extras", ["PKGCK", "REPEAT"])}}
                else:
                    hist = {"steps": c["steps"], "dev": c.get("dev", False), "kinds": ["corpus"] * len(c["steps"]),
                            "extras": c.get("extras", {})}
                jobs.append(("corpus:" + c["_file"], hist, 7, c.get("expect"), True))
            n_hist = ctx.n(12, 150)
            length = ctx.n(5, 9)
            n_extras = ctx.n(2, len(EXTRA_POOL))
            budget = ctx.n(180, 2100)
            for ix in range(n_hist):
                jobs.append(("gen%d" % ix, gen_history(rng, length), rng.randrange(1 << 30), None, ix < 3))
            t0 = time.time()

            def job(ix):
                label, hist, seed, expect, always = jobs[ix]
                if not always and time.time() - t0 > budget:
                    return ix, None, None
                try:
                    return ix, run_history(hist, n_extras, seed), None
                except Exception:
                    return ix, None, traceback.format_exc()[-1500:]
            with ThreadPoolExecutor(max_workers=4) as ex:
                for ix, results, err in ex.map(job, range(len(jobs))):
                    label, hist, seed, expect, always = jobs[ix]
                    if err:
                        ctx.tie_broken("harness-exception", err)
                    elif results is None:
                        ctx.count("histories-skipped-time-budget")
                    else:
                        n0 = len(ctx.violations)
                        record(ctx, label, hist, results, cases, meta)
                        if label.startswith("corpus"):
                            ctx.count("corpus-cases")
                            got = set(v["signature"] for v in ctx.violations[n0:])
                            if expect and expect not in got:
                                ctx.note("corpus case %s no longer shows %s (got %s)" % (label, expect, sorted(got)))
    finally:
        POOL.close()
    # model side
    if cases:
        bad, log = coq.run_cases(ctx, REQUIRES, MODEL_FN, "verdict_eqb", cases, shard=8, tag="c04")
        if bad is None:
            ctx.tie_broken("C04 model evaluation failed", log)
        else:
            ctx.validated(len(cases) - len(bad))
            ctx.count("model:compared", len(cases))
            if bad:
                terms = ["verdict_diff (%s %s) %s" % (MODEL_FN, cases[i][0], cases[i][1]) for i in bad[:8]]
                parts, _ = coq.eval_terms(ctx, REQUIRES, terms)
                for j, i in enumerate(bad[:8]):
                    ctx.tie_broken("prepare-model-correspondence",
                                   dict(meta[i], differs=(parts[j] if parts else "?"),
                                        legend="0 error-ness, 1 tree nodes, 2 variant-id classes, 3 result-id classes, 4 memo tables, 5 memo tool/sandbox classes, 6 memo result ids"))
