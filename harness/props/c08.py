"""C08 — artifact packing is lossless, corruption is rejected, extraction is confined.

Implementation side (all real code imported from core.REPO/pym, run inside a
chroot jail under /var/tmp so that a confinement breach of a mutated
implementation cannot touch the host):
  (A) hostile member lists  -> TarHelper._extract                 [confinement oracle]
  (B) generated trees       -> LocalArchive upload (TarHelper._pack) -> LocalArchive
                               download (TarHelper._extract)       [lossless oracle]
  (C) truncations / bit flips / re-packed artifacts of real artifacts -> LocalArchive
      download + the post-download check of builder.py             [corruption oracle]
  (D) a few end-to-end `bob dev --download=forced` runs against a tampered archive
Model side (BobV.C08.Model, vm_compute): bob_extract / pack / hash_dir / download on
the same inputs, compared with what the implementation did (file system listing of
the whole jail, outcome, member list of the real artifact, directory hash).
"""
import base64, errno, glob, gzip, hashlib, io, json, os, shutil, stat, struct, subprocess, sys, tarfile, time
from vlib import coq, core, coqlit as L

PROPERTY_FILES = ["C08/Properties.v"]

FUEL = 60
WS = "/p/q/ws"
AUDIT = "/p/q/audit.json.gz"
KINDS = {"reg": tarfile.REGTYPE, "dir": tarfile.DIRTYPE, "sym": tarfile.SYMTYPE, "lnk": tarfile.LNKTYPE,
         "fifo": tarfile.FIFOTYPE, "chr": tarfile.CHRTYPE, "blk": tarfile.BLKTYPE}
COQ_KIND = {"reg": "MReg", "dir": "MDir", "sym": "MSym", "lnk": "MLnk", "fifo": "MFifo", "chr": "MChr", "blk": "MBlk"}
DEVNUM = {"chr": (1, 3), "blk": (7, 123)}       # /dev/null, an unused loop device number; never opened


# ------------------------------------------------------------------ jail
class Jail:
    """chroot into a scratch directory and back (root only).  Everything the
    implementation does for a case happens inside."""

    def __init__(self):
        self.dir = core.scratch_dir("c08")
        os.chmod(self.dir, 0o755)
        self.root_fd = os.open("/", os.O_RDONLY)
        self.cwd = os.getcwd()
        self.inside = False

    def enter(self):
        os.chroot(self.dir)
        os.chdir("/")
        self.inside = True

    def leave(self):
        if self.inside:
            os.fchdir(self.root_fd)
            os.chroot(".")
            os.chdir(self.cwd)
            self.inside = False

    def close(self):
        self.leave()
        os.close(self.root_fd)
        shutil.rmtree(self.dir, ignore_errors=True)


def wipe_root():
    """(inside the jail) remove everything below /"""
    for n in os.listdir("/"):
        p = "/" + n
        if os.path.isdir(p) and not os.path.islink(p):
            for dp, dns, fns in os.walk(p):
                try:
                    os.chmod(dp, 0o700)
                except OSError:
                    pass
            shutil.rmtree(p)
        else:
            os.unlink(p)


def world_setup():
    """(inside the jail) the fixed initial world of the hostile cases"""
    wipe_root()
    os.umask(0o022)
    os.makedirs("/o/vdir")
    os.makedirs("/p/q/ws/old")
    def wr(p, data, mode):
        with open(p, "wb") as f:
            f.write(data)
        os.chmod(p, mode)
    wr("/o/victim", b"precious\n", 0o600)
    wr("/o/vdir/inner", b"inner", 0o644)
    os.chmod("/o/vdir", 0o750)
    wr("/o/hl1", b"linked", 0o644)
    os.link("/o/hl1", "/o/hl2")
    os.symlink("victim", "/o/lnk")
    wr("/p/victim2", b"v2", 0o640)
    wr("/p/q/sibling", b"sib", 0o644)
    wr("/p/q/ws/old/stale", b"stale", 0o644)
    os.symlink("../../../o", "/p/q/ws/old/esc")
    wr(AUDIT, b"old audit", 0o644)
    wr("/victim", b"root victim", 0o644)
    for dp, dns, fns in os.walk("/"):
        for n in dns + fns:
            p = os.path.join(dp, n)
            if not os.path.islink(p):
                os.utime(p, (1000, 1000))
    os.utime("/", (1000, 1000))


def snapshot(top="/"):
    """(inside the jail) path -> entry dict, everything below top (top itself as '')"""
    out = {}
    def ent(p):
        st = os.lstat(p)
        e = {"perm": stat.S_IMODE(st.st_mode), "ino": (st.st_dev, st.st_ino), "nlink": st.st_nlink,
             "mtime": int(st.st_mtime), "uid": st.st_uid, "gid": st.st_gid}
        if stat.S_ISDIR(st.st_mode):
            e["kind"] = "dir"
        elif stat.S_ISREG(st.st_mode):
            e["kind"] = "reg"
            with open(p, "rb") as f:
                e["data"] = f.read()
        elif stat.S_ISLNK(st.st_mode):
            e["kind"] = "sym"
            e["data"] = os.readlink(os.fsencode(p))
        elif stat.S_ISFIFO(st.st_mode):
            e["kind"] = "fifo"; e["data"] = b""
        elif stat.S_ISCHR(st.st_mode):
            e["kind"] = "chr"; e["data"] = struct.pack("<L", st.st_rdev)
        elif stat.S_ISBLK(st.st_mode):
            e["kind"] = "blk"; e["data"] = struct.pack("<L", st.st_rdev)
        else:
            e["kind"] = "other"; e["data"] = b""
        return e
    def walk(d):
        try:
            names = sorted(os.listdir(d))        # the order of tarfile.add()
        except OSError:
            names = []
        for n in names:
            p = os.path.join(d, n)
            e = ent(p)
            out[p] = e
            if e["kind"] == "dir":
                old = None
                if not os.access(p, os.R_OK | os.X_OK):
                    old = e["perm"]
                walk(p)
    walk(top)
    return out


def allowed(p):
    return p == AUDIT or p == WS or p.startswith(WS + "/")


def outside_view(snap):
    """what the confinement statement is about: everything but workspace and audit file.
    nlink, owner, mtime and mode included; directory mtimes excluded for the two
    directories that legitimately get/lose entries (parents of workspace and audit)."""
    v = {}
    for p, e in snap.items():
        if allowed(p):
            continue
        t = (e["kind"], e["perm"], e.get("data"), e["nlink"], e["uid"], e["gid"],
             None if (e["kind"] == "dir" and p == os.path.dirname(WS)) else e["mtime"])
        v[p] = t
    return v


def diff_outside(a, b):
    ch = []
    for p in sorted(set(a) | set(b)):
        if p not in b:
            ch.append(("removed", p))
        elif p not in a:
            ch.append(("created", p))
        elif a[p] != b[p]:
            x, y = a[p], b[p]
            if x[0] != y[0] or x[2] != y[2]:
                ch.append(("content", p))
            elif x[3] != y[3]:
                ch.append(("nlink", p))
            else:
                ch.append(("attrs", p))
    return ch


# ------------------------------------------------------------------ artifacts
def fsenc(s):
    return os.fsencode(s) if isinstance(s, str) else s


def build_tgz(pax, members, fmt=tarfile.PAX_FORMAT):
    """members: list of dicts name/kind/link/mode/data(bytes)"""
    buf = io.BytesIO()
    hdr = {} if pax is None else {"bob-archive-vsn": pax}
    with gzip.GzipFile(fileobj=buf, mode="wb", mtime=0) as gz:
        with tarfile.open(None, "w", fileobj=gz, format=fmt, pax_headers=hdr if fmt == tarfile.PAX_FORMAT else None) as tar:
            for m in members:
                ti = tarfile.TarInfo(m["name"])
                ti.type = KINDS[m["kind"]]
                ti.linkname = m.get("link", "")
                ti.mode = m.get("mode", 0o644)
                ti.mtime = 42
                data = m.get("data", b"") if m["kind"] == "reg" else b""
                ti.size = len(data)
                if m["kind"] in DEVNUM:
                    ti.devmajor, ti.devminor = DEVNUM[m["kind"]]
                tar.addfile(ti, io.BytesIO(data) if m["kind"] == "reg" else None)
    return buf.getvalue()


TYPE_KIND = {v: k for k, v in KINDS.items()}


def decode_tgz(tgz):
    """what tarfile delivers for these bytes (the model starts from decoded member lists):
    (pax version value or None, members, clean end of stream) or None when the header cannot be read"""
    members = []
    try:
        tar = tarfile.open(None, "r|*", fileobj=io.BytesIO(tgz))
    except Exception:
        return None
    pax = tar.pax_headers.get("bob-archive-vsn")
    ok = True
    try:
        while True:
            ti = tar.next()
            if ti is None:
                break
            kind = TYPE_KIND.get(ti.type, "reg")
            data = b""
            if kind == "reg":
                f = tar.extractfile(ti)
                data = f.read() if f is not None else b""
            members.append({"name": ti.name, "kind": kind, "link": ti.linkname, "mode": ti.mode, "data": data,
                            "dev": (ti.devmajor, ti.devminor)})
    except Exception:
        ok = False
    finally:
        try:
            tar.close()
        except Exception:
            pass
    return pax, members, ok


def impl_extract(tgz):
    """(inside the jail) the real TarHelper._extract; outcome, exception class"""
    from bob.archive import TarHelper
    from bob.errors import BuildError
    try:
        TarHelper()._extract(io.BytesIO(tgz), AUDIT, WS)
        return "extracted", None
    except BuildError as e:
        return "rejected", "BuildError"
    except Exception as e:
        return "rejected", type(e).__name__


def run_hostile(jail, case):
    """returns (outcome, exc, before, after)"""
    tgz = build_tgz(case["pax"], case["members"], tarfile.GNU_FORMAT if case.get("gnu") else tarfile.PAX_FORMAT)
    jail.enter()
    try:
        world_setup()
        before = snapshot()
        outcome, exc = impl_extract(tgz)
        after = snapshot()
    finally:
        jail.leave()
    return outcome, exc, before, after, decode_tgz(tgz)


# ------------------------------------------------------------------ Coq literals
def cpath(p):
    """'/a/b' -> [ [..]; [..] ]"""
    comps = [c for c in fsenc(p).split(b"/") if c]
    return L.lst([L.by(c) for c in comps]) if comps else "(@nil (list N))"


def cmember(m):
    if m["kind"] in DEVNUM:
        data = struct.pack("<L", os.makedev(*m.get("dev", DEVNUM[m["kind"]])))
    else:
        data = m.get("data", b"") if m["kind"] == "reg" else b""
    return "(mkMember %s %s %s %d %s)" % (L.by(fsenc(m["name"])), COQ_KIND[m["kind"]], L.by(fsenc(m.get("link", ""))),
                                          m.get("mode", 0o644), L.by(data))


def cartifact(pax, members, tail_ok=True):
    return "(mkArtifact %s %s %s)" % ("None" if pax is None else "(Some %s)" % L.by(pax.encode()),
                                      L.lst([cmember(m) for m in members]) if members else "(@nil member)", L.B(tail_ok))


COQ_IKIND = {"reg": "KReg", "sym": "KSym", "fifo": "KFifo", "chr": "KChr", "blk": "KBlk"}


def cfs(snap, top_perm=0o755):
    """snapshot -> fsys literal (tree + inode table)"""
    inos = {}
    table = []
    children = {}
    for p in snap:
        children.setdefault(os.path.dirname(p), []).append(p)
    def node(p):
        e = snap[p]
        if e["kind"] == "dir":
            return "(TDir %d %s)" % (e["perm"], entries(p))
        if e["ino"] not in inos:
            inos[e["ino"]] = len(inos) + 1
            table.append("(%d, mkInode %s %s %d)" % (inos[e["ino"]], COQ_IKIND[e["kind"]], L.by(e["data"]),
                                                     0o777 if e["kind"] == "sym" else e["perm"]))
        return "(TLeaf %d)" % inos[e["ino"]]
    def entries(d):
        cs = children.get(d, [])
        if not cs:
            return "(@nil (name * tree))"
        return L.lst(["(%s, %s)" % (L.by(fsenc(os.path.basename(c))), node(c)) for c in cs])
    root = "(TDir %d %s)" % (top_perm, entries("/"))
    return "(mkFs %s %s %d)" % (root, L.lst(table) if table else "(@nil (N * inode))", len(inos) + 1)


def clisting(snap, only=None):
    """snapshot -> list (path * xent); hard-link groups by representative path"""
    rep = {}
    for p in sorted(snap, key=fsenc):
        e = snap[p]
        if e["kind"] != "dir":
            rep.setdefault(e["ino"], p)
    out = []
    for p in sorted(snap, key=fsenc):
        if only is not None and not only(p):
            continue
        e = snap[p]
        if e["kind"] == "dir":
            out.append("(%s, XDir %d)" % (cpath(p), e["perm"]))
        else:
            out.append("(%s, XLeaf %s %s %d %s)" % (cpath(p), COQ_IKIND[e["kind"]], L.by(e["data"]), e["perm"], cpath(rep[e["ino"]])))
    return L.lst(out) if out else "(@nil (path * xent))"


def counts(snap):
    return len(snap), len(set(e["ino"] for e in snap.values() if e["kind"] != "dir"))


PREAMBLE = r"""
Inductive xent := XDir (mode : N) | XLeaf (k : ikind) (data : str) (mode : N) (rep : path).
Definition ikind_eqb (a b : ikind) : bool :=
  match a, b with KReg, KReg | KSym, KSym | KFifo, KFifo | KChr, KChr | KBlk, KBlk => true | _, _ => false end.
Definition check_ent (fs : fsys) (e : path * xent) : bool :=
  match e with
  | (p, XDir m) => match stat fs p with Some (SDir m') => m =? m' | _ => false end
  | (p, XLeaf k d m rep) =>
    match stat fs p, stat fs rep with
    | Some (SLeaf i), Some (SLeaf j) =>
      (i =? j) && match inode_of fs i with
                  | Some (mkInode k' d' m') => ikind_eqb k k' && eqb_str d d' && (ikind_eqb k KSym || (m =? m'))
                  | None => false
                  end
    | _, _ => false
    end
  end.
Fixpoint tree_size (t : tree) : N :=
  match t with
  | TLeaf _ => 1
  | TDir _ es => 1 + (fix go (es : list (name * tree)) : N := match es with [] => 0 | (_, c) :: r => tree_size c + go r end) es
  end.
Fixpoint tree_inos (t : tree) : list N :=
  match t with
  | TLeaf i => [i]
  | TDir _ es => (fix go (es : list (name * tree)) : list N := match es with [] => [] | (_, c) :: r => tree_inos c ++ go r end) es
  end.
Fixpoint memN (x : N) (l : list N) : bool := match l with [] => false | y :: r => (x =? y) || memN x r end.
Fixpoint distinct (l : list N) : N := match l with [] => 0 | x :: r => if memN x r then distinct r else 1 + distinct r end.
Definition outcome_eqb (a b : outcome) : bool := match a, b with Extracted, Extracted | Rejected, Rejected => true | _, _ => false end.
(* expected: outcome, listing of the whole jail, number of nodes, number of distinct inodes *)
Definition check_fs (fs : fsys) (lst : list (path * xent)) (n d : N) : bool :=
  forallb (check_ent fs) lst && (tree_size (f_root fs) =? 1 + n) && (distinct (tree_inos (f_root fs)) =? d).
Definition check_extract (r : fsys * outcome * bool) (e : outcome * list (path * xent) * N * N) : bool :=
  match e with (o, lst, n, d) => outcome_eqb (snd (fst r)) o && check_fs (fst (fst r)) lst n d end.
(* the same with the unchanged outside part of the listing factored out *)
Definition check_extract_in (out0 : list (path * xent)) (r : fsys * outcome * bool) (e : outcome * list (path * xent) * N * N) : bool :=
  match e with (o, lst, n, d) => outcome_eqb (snd (fst r)) o && check_fs (fst (fst r)) (out0 ++ lst) n d end.
"""


# ------------------------------------------------------------------ hostile grammar
SAFE_NAMES = ["a", "b", "d", "d/e", "d/e/f", "d/e/f/g", "x", "h", "s", "s2", "victim", "o", "o/victim", "é", "sp ace", "$(x)", ".git",
              "d1/d2/d3/s", "d/e/s", "etc/passwd"]
TRAVERSAL_NAMES = ["s/x", "s/victim", "s/vdir/inner", "s/o/victim", "s2/x", "s/hl1", "s/new/deep", "h/x", "d/s/x",
                   "../x", "../sibling", "a/../../sibling", "../../../o/victim", "s/../x", "s/planted/../q/ws/x",
                   "s/planted/../p/q/ws/x", "d/../x", "/abs", "/o/victim", "//o/victim", "/p/q/ws/x", "", "/", ".", "./a", "d/./e//f",
                   "a/", "d/e/", "s/", "s/.", "x/y"]
SYM_TARGETS = ["a", "d", "d/e", "x", "nowhere", ".", "..", "../..", "../../..", "../../../..", "../../../o", "../../../o/victim",
               "../sibling", "../audit.json.gz", "/o", "/o/victim", "/o/vdir", "/", "/p/q/ws", "/p/q/ws/d", "/victim",
               "s", "s2", "h", "../../../victim", "../../../../../../victim", "../../x", "d/../..", "/p/q", "é", "/o/lnk", "../../../o/lnk"]
LNK_TARGETS = ["content/a", "content/x", "content/s", "content/s2", "content/d", "content/h", "content/nothing", "content/s/victim",
               "content/s/hl1", "content/d1/d2/d3/s", "content/d/e/s", "content/../../../o/victim", "content/../sibling",
               "content/../audit.json.gz", "content//o/victim", "content//victim", "content//p/q/ws/a", "../../../o/victim", "/o/victim",
               "a", "content/", "content/.", "content/a/../x", "meta/audit.json.gz", "content/é"]
UNKNOWN_TOP = ["evil", "contentx", "content2/x", "meta/other", "metadata", "/etc/passwd", "../x", "Content/a", "meta/audit.json.gz/x", ""]
MODES = [0o644, 0o755, 0o600, 0o444, 0o4755, 0o777, 0o0, 0o2750, 0o1777]
AUDIT_M = {"name": "meta/audit.json.gz", "kind": "reg", "data": b"AUDIT", "mode": 0o644}


def C(name):
    return "content/" + name


def gen_member(rng, hot):
    r = rng.random()
    nm = rng.choice(TRAVERSAL_NAMES) if rng.random() < hot else rng.choice(SAFE_NAMES)
    mode = rng.choice(MODES)
    if r < 0.30:
        return {"name": C(nm), "kind": "reg", "data": rng.choice([b"", b"owned\n", b"hello", bytes([rng.randrange(256) for _ in range(rng.randint(1, 12))])]), "mode": mode}
    if r < 0.45:
        return {"name": C(nm), "kind": "dir", "mode": rng.choice([0o755, 0o700, 0o555, 0o777, 0o1777, 0o4755])}
    if r < 0.68:
        return {"name": C(nm), "kind": "sym", "link": rng.choice(SYM_TARGETS), "mode": 0o777}
    if r < 0.88:
        return {"name": C(nm), "kind": "lnk", "link": rng.choice(LNK_TARGETS), "mode": mode}
    if r < 0.93:
        return {"name": C(nm), "kind": rng.choice(["fifo", "chr", "blk"]), "mode": rng.choice([0o644, 0o600, 0o666])}
    if r < 0.96:
        return {"name": rng.choice(UNKNOWN_TOP), "kind": rng.choice(["reg", "dir", "sym"]), "data": b"u", "link": "x", "mode": 0o644}
    if r < 0.98:
        return {"name": rng.choice(["content", "meta", "content/", "meta/"]), "kind": "dir", "mode": 0o755}
    return dict(AUDIT_M, data=rng.choice([b"AUDIT", b"second", b""]), kind=rng.choice(["reg", "reg", "dir", "sym"]), link="x")


TEMPLATES = [
    # symlink then write through it
    lambda r: [dict(name=C("s"), kind="sym", link=r.choice(["../../../o", "/o", "../..", "/", "../../../o/vdir"])),
               dict(name=C(r.choice(["s/x", "s/victim", "s/inner", "s/o/victim", "s/new/deep/x"])), kind=r.choice(["reg", "dir", "fifo", "sym"]), data=b"owned\n", link="/o/victim", mode=0o777)],
    lambda r: [dict(name=C("s"), kind="sym", link=r.choice(["../../../o/victim", "/o/victim", "../sibling", "../audit.json.gz", "/victim", "../../../../../victim"])),
               dict(name=C("s"), kind=r.choice(["reg", "dir", "reg"]), data=b"owned\n", mode=0o4777)],
    # symlink then hard link through it, then write
    lambda r: [dict(name=C("s"), kind="sym", link=r.choice(["../../../o", "/o"])),
               dict(name=C("h"), kind="lnk", link=C(r.choice(["s/victim", "s/hl1", "s/vdir/inner"])), mode=0o666),
               dict(name=C("h"), kind="reg", data=b"owned\n", mode=0o666)],
    # F2: hard link to the outside, relative / absolute, with / without prefix
    lambda r: [dict(name=C("x"), kind="lnk", link=r.choice(["content/../../../o/victim", "content//o/victim", "../../../o/victim", "/o/victim",
                                                             "content/../sibling", "content//victim", "content/../../victim2"]), mode=0o666),
               dict(name=C("x"), kind="reg", data=b"owned\n", mode=0o666)],
    # hard link to a symlink that resolves differently from the new place (f10), both variants
    lambda r: [dict(name=C("victim"), kind="reg", data=b"in", mode=0o644)] * r.choice([0, 1]) +
              [dict(name=C("d1/d2/d3/s"), kind="sym", link=r.choice(["../../../victim", "../../../../../../o/victim", "../../../../sibling"])),
               dict(name=C("h"), kind="lnk", link=C("d1/d2/d3/s"), mode=0o4777)],
    lambda r: [dict(name=C("d/e/o/victim"), kind="reg", data=b"in", mode=0o644)] * r.choice([0, 1]) +
              [dict(name=C("d/e/s"), kind="sym", link="../../../../../o/victim"),
               dict(name=C("h"), kind="lnk", link=C("d/e/s"), mode=0o777)],
    # hard link over an existing name (link() fails -> tarfile searches the archive)
    lambda r: [dict(name=C("a"), kind="reg", data=b"aa"), dict(name=C("h"), kind=r.choice(["reg", "dir", "sym"]), data=b"hh", link="../../../o/victim"),
               dict(name=C("h"), kind="lnk", link=C(r.choice(["a", "./a", "s", "nothing"])), mode=0o4777)],
    # '..' behind a missing component (f11)
    lambda r: [dict(name=C("s"), kind="sym", link=r.choice(["../../..", "/", "../..", "../../../o"])),
               dict(name=C(r.choice(["s/planted/../p/q/ws/x", "s/planted/../q/ws/x", "s/planted/../ws/x", "s/planted/../vdir/../../p/q/ws/x"])), kind=r.choice(["reg", "dir"]), data=b"x")],
    # re-enter the workspace through an absolute link
    lambda r: [dict(name=C("s"), kind="sym", link="/"), dict(name=C("s/p/q/ws/in"), kind="reg", data=b"fine"),
               dict(name=C("s/o/victim"), kind="reg", data=b"owned\n")],
    # devices / fifos
    lambda r: [dict(name=C(r.choice(["p", "../p", "s/p"])), kind=r.choice(["fifo", "chr", "blk"]), mode=0o666)],
    # symlink loops
    lambda r: [dict(name=C("s"), kind="sym", link=r.choice(["s", "s2", "s/x"])), dict(name=C("s2"), kind="sym", link="s"),
               dict(name=C(r.choice(["s", "s/x", "s2"])), kind=r.choice(["reg", "dir", "sym", "lnk"]), data=b"q", link=r.choice(["x", C("s")]))],
    # replace things by other kinds
    lambda r: [dict(name=C("a"), kind=r.choice(["reg", "dir", "sym", "fifo"]), data=b"1", link="x"),
               dict(name=C("a"), kind=r.choice(["reg", "dir", "sym", "fifo", "lnk"]), data=b"2", link=r.choice(["../../../o/victim", C("a"), C("x")]), mode=0o600)],
    # chmod of outside directory through a directory member
    lambda r: [dict(name=C("s"), kind="sym", link=r.choice(["../../../o/vdir", "..", "../../../o"])), dict(name=C("s"), kind="dir", mode=0o777)],
    # re-targeting: a name that members were already extracted through appears again with another target / kind
    lambda r: [dict(name=C("real"), kind="dir", mode=0o755), dict(name=C("lnk"), kind="sym", link="real"),
               dict(name=C("lnk/a"), kind="reg", data=b"fine"),
               dict(name=C("lnk"), kind="sym", link=r.choice(["../../../o", "/o", "../..", "/", "../../../o/vdir", "/p/q"])),
               dict(name=C(r.choice(["lnk/pwned", "lnk/victim", "lnk/inner", "lnk/a", "lnk/sub/deep", "lnk/sibling"])),
                    kind=r.choice(["reg", "reg", "dir", "sym", "fifo"]), data=b"owned\n", link="/o/victim", mode=0o4777)],
    lambda r: [dict(name=C("real"), kind="dir", mode=0o755), dict(name=C("lnk"), kind="sym", link="real"),
               dict(name=C("lnk/a"), kind="reg", data=b"fine"),
               dict(name=C("lnk"), kind="sym", link=r.choice(["../../../o", "/o"])),
               dict(name=C("h"), kind="lnk", link=C(r.choice(["lnk/victim", "lnk/hl1", "lnk/a"])), mode=0o666),
               dict(name=C("h"), kind="reg", data=b"owned\n", mode=0o666)],
    # a directory members were extracted into is followed by a symlink member of the same name (tarfile cannot unlink
    # a directory), and a symlink is followed by a directory member of the same name (mkdir fails, chmod follows)
    lambda r: [dict(name=C("d"), kind="dir", mode=0o755), dict(name=C("d/a"), kind="reg", data=b"1"),
               dict(name=C("d"), kind="sym", link=r.choice(["../../../o", "/o", "x"])),
               dict(name=C(r.choice(["d/victim", "d/b", "d/a"])), kind=r.choice(["reg", "dir", "lnk"]), data=b"owned\n", link=C("d/a"))],
    lambda r: [dict(name=C("x"), kind="dir", mode=0o755), dict(name=C("s"), kind="sym", link="x"), dict(name=C("s/a"), kind="reg", data=b"1"),
               dict(name=C("s"), kind="dir", mode=r.choice([0o700, 0o777])), dict(name=C("s/b"), kind="reg", data=b"2"),
               dict(name=C("s"), kind="sym", link=r.choice(["../../../o", "/o/vdir"])), dict(name=C("s/c"), kind=r.choice(["reg", "dir"]), data=b"owned\n")],
    # prefix chains: a/b/... where a is re-targeted after a/b was used
    lambda r: [dict(name=C("in/b"), kind="dir", mode=0o755), dict(name=C("a"), kind="sym", link="in"), dict(name=C("a/b/f"), kind="reg", data=b"1"),
               dict(name=C("a"), kind="sym", link=r.choice(["../../..", "/", "../../../o"])),
               dict(name=C(r.choice(["a/b/g", "a/o/victim", "a/vdir/inner", "a/b", "a/victim", "a/p/q/sibling"])),
                    kind=r.choice(["reg", "dir", "sym", "lnk"]), data=b"owned\n", link=r.choice(["/o/victim", C("a/b/f")]), mode=0o777)],
    # third time lucky: target flips outside and back inside
    lambda r: [dict(name=C("real"), kind="dir", mode=0o755), dict(name=C("l"), kind="sym", link="real"), dict(name=C("l/a"), kind="reg", data=b"1"),
               dict(name=C("l"), kind="sym", link="../../../o"), dict(name=C("l"), kind="sym", link=r.choice(["real", "../../../o", "/p"])),
               dict(name=C(r.choice(["l/victim", "l/b", "l/victim2"])), kind="reg", data=b"owned\n")],
    # duplicates of every kind
    lambda r: [dict(name=C("a"), kind="reg", data=b"1", mode=0o600), dict(name=C("a"), kind="reg", data=b"22", mode=0o644),
               dict(name=C("d"), kind="dir", mode=0o700), dict(name=C("d"), kind="dir", mode=0o755),
               dict(name=C("s"), kind="sym", link="a"), dict(name=C("s"), kind="sym", link="d"), dict(name=C("s/x"), kind="reg", data=b"3"),
               dict(name=C("h"), kind="lnk", link=C("a")), dict(name=C("h"), kind="lnk", link=C("a"))][:r.choice([5, 7, 8, 9])],
    # the workspace itself
    lambda r: [dict(name=r.choice(["content/", "content//", "content/."]), kind=r.choice(["dir", "sym", "reg", "lnk"]), link=r.choice([".", C("a"), "/o"]), mode=0o700, data=b"z")],
]


def gen_hostile(rng):
    pax = "1"
    members = []
    r = rng.random()
    if r < 0.55:
        members = [dict(m) for m in rng.choice(TEMPLATES)(rng)]
        for m in members:
            m.setdefault("mode", 0o644)
        # interleave random members
        for _ in range(rng.choice([0, 0, 1, 2])):
            members.insert(rng.randint(0, len(members)), gen_member(rng, 0.3))
    else:
        n = rng.choice([1, 2, 2, 3, 3, 4, 5, 7])
        hot = rng.choice([0.1, 0.4, 0.8])
        members = [gen_member(rng, hot) for _ in range(n)]
    # audit: present first / last / middle / missing / duplicated
    a = rng.random()
    if a < 0.7:
        members.insert(0, dict(AUDIT_M))
    elif a < 0.8:
        members.append(dict(AUDIT_M))
    elif a < 0.88:
        members.insert(rng.randint(0, len(members)), dict(AUDIT_M))
    elif a < 0.93:
        members.insert(0, dict(AUDIT_M)); members.append(dict(AUDIT_M, data=b"second"))
    if rng.random() < 0.15:
        members.insert(rng.randint(0, len(members)), {"name": rng.choice(["content", "meta"]), "kind": "dir", "mode": 0o755})
    if rng.random() < 0.08 and members:
        members.insert(rng.randint(0, len(members)), dict(rng.choice(members)))     # duplicate member
    v = rng.random()
    gnu = False
    if v < 0.06:
        pax = rng.choice([None, "0", "2", "1 ", "", "01"])
    elif v < 0.08:
        gnu = True
    case = {"pax": pax, "members": members}
    if gnu:
        case["gnu"] = True
        case["pax"] = None
    return case


def modelable(case):
    """inputs outside the modelled fragment of tarfile (kept on the implementation side for the oracle)"""
    for m in case["members"]:
        if m["kind"] in ("sym", "lnk") and m.get("link", "") == "":
            return False
        if case.get("gnu") and len(fsenc(m["name"])) > 99:
            return False
    return True


def hangs(case):
    """a regular member written over an extracted fifo blocks in open(), over a device node it talks to the
    device (not a file system effect): do not run those"""
    seen = False
    for m in case["members"]:
        if m["kind"] in ("fifo", "chr", "blk"):
            seen = True
        elif seen and m["kind"] in ("reg", "lnk"):
            return True
    return False


SEVERITY = {"nlink": 1, "attrs": 2, "created": 3, "removed": 4, "content": 5}


def signature(changes, members):
    cls = sorted(set(c for c, _ in changes))
    kinds = sorted(set(m["kind"] for m in members if m["name"].startswith("content/")))
    dd = any(".." in m["name"].split("/") for m in members)
    return "outside-%s:%s%s" % ("+".join(cls), ",".join(kinds), "+dotdot-name" if dd else "")


def json_case(case):
    return {"pax": case["pax"], "gnu": bool(case.get("gnu")),
            "members": [dict(name=m["name"], kind=m["kind"], link=m.get("link", ""), mode=m.get("mode", 0o644),
                             data=base64.b64encode(m.get("data", b"")).decode()) for m in case["members"]]}


def unjson_case(c):
    return {"pax": c["pax"], "gnu": c.get("gnu", False),
            "members": [dict(name=m["name"], kind=m["kind"], link=m.get("link", ""), mode=m.get("mode", 0o644),
                             data=base64.b64decode(m.get("data", ""))) for m in c["members"]]}


def shrink_members(case, fails):
    ms = list(case["members"])
    changed = True
    while changed:
        changed = False
        for i in range(len(ms)):
            cand = ms[:i] + ms[i + 1:]
            c2 = dict(case, members=cand)
            if cand and fails(c2):
                ms = cand
                changed = True
                break
    return dict(case, members=ms)


def hostile_part(ctx, jail, cases):
    """run cases on the implementation (oracle) and collect the Coq cases"""
    coq_cases = []
    meta = []
    fs0 = None
    out0 = None
    for case in cases:
        if hangs(case):
            ctx.count("hostile:skipped-write-after-fifo-or-device")
            continue
        outcome, exc, before, after, dec = run_hostile(jail, case)
        ctx.evaluated()
        ctx.count("hostile:" + outcome + (":" + exc if exc else ""))
        for m in case["members"]:
            ctx.count("member:" + m["kind"])
        if len(case["members"]) >= 2:
            ctx.nontrivial(("hostile", json.dumps(json_case(case), sort_keys=True)))
        if fs0 is None:
            fs0 = (cfs(before), clisting(before, only=lambda p: not allowed(p)))
        ch = diff_outside(outside_view(before), outside_view(after))
        if ch:
            worst = max(SEVERITY[c] for c, _ in ch)
            def fails(c2):
                o2, e2, b2, a2, _ = run_hostile(jail, c2)
                ch2 = diff_outside(outside_view(b2), outside_view(a2))
                return bool(ch2) and max(SEVERITY[c] for c, _ in ch2) >= worst
            small = shrink_members(case, fails)
            o2, e2, b2, a2, _ = run_hostile(jail, small)
            ch2 = diff_outside(outside_view(b2), outside_view(a2))
            ctx.violation(signature(ch2, small["members"]),
                          "extraction changed the file system outside workspace and audit file: %r (outcome %s)" % (ch2, o2),
                          {"kind": "hostile", "case": json_case(small), "changes": ch2, "original": json_case(case)})
        if outcome == "extracted" and dec is not None:
            # statement: wrong-format artifacts are never accepted (judged on what tarfile decodes, independent of the model)
            def known(nm):
                return nm.startswith("content/") or nm in ("meta/audit.json.gz", "content", "meta")
            unknown = [m["name"] for m in dec[1] if not known(m["name"])]
            if unknown:
                ctx.violation("unknown-member-accepted", "artifact with unknown entries %r was extracted without error" % unknown[:3],
                              {"kind": "hostile", "case": json_case(case)})
            if dec[0] != "1":
                ctx.violation("wrong-version-accepted", "artifact with version header %r was extracted without error" % (dec[0],),
                              {"kind": "hostile", "case": json_case(case)})
            if any(m["name"] == "meta/audit.json.gz" and m["kind"] == "reg" for m in dec[1]) != (AUDIT in after):
                ctx.violation("audit-file-mismatch", "audit member present = %r but audit file present = %r after extraction" % (
                    AUDIT not in after, AUDIT in after), {"kind": "hostile", "case": json_case(case)})
        if len(ctx.cov["samples"]) < 4:
            ctx.sample({"hostile": json_case(case), "impl": outcome, "exception": exc})
        if not modelable(case):
            ctx.count("hostile:not-modelled")
            continue
        n, d = counts(after)
        if ch:
            # outside changed (a violation was reported): the model is still compared on the whole jail
            exp = "(%s, %s, %d, %d)" % ("Extracted" if outcome == "extracted" else "Rejected",
                                        clisting(after, only=lambda p: allowed(p) or p not in before or
                                                 outside_view({p: after[p]}) != outside_view({p: before[p]})), n, d)
            ctx.count("hostile:outside-changed")
        else:
            exp = "(%s, %s, %d, %d)" % ("Extracted" if outcome == "extracted" else "Rejected", clisting(after, only=allowed), n, d)
        if dec is None:
            ctx.count("hostile:undecodable")
            continue
        coq_cases.append((cartifact(dec[0], dec[1], dec[2]), exp))
        meta.append({"case": json_case(case), "impl": outcome, "exception": exc})
    return coq_cases, meta, fs0


def eval_hostile(ctx, coq_cases, meta, fs0, tag):
    if not coq_cases:
        return
    fs0, out0 = fs0
    pre = PREAMBLE + "Definition fs0 : fsys := %s.\nDefinition AUDITP : path := %s.\nDefinition DEST : path := %s.\nDefinition out0 : list (path * xent) := %s.\n" % (
        fs0, cpath(AUDIT), cpath(WS), out0)
    bad, log = coq.run_cases(ctx, ["BobV.C08.Model"], "(fun a => bob_extract %d%%nat fs0 AUDITP DEST a)" % FUEL, "(check_extract_in out0)",
                             coq_cases, preamble=pre, tag=tag, shard=130)
    if bad is None:
        ctx.tie_broken("C08 model evaluation failed (%s)" % tag, log)
        return
    ctx.validated(len(coq_cases) - len(bad))
    for i in bad[:8]:
        ctx.tie_broken("extract-correspondence", meta[i])
    if bad:
        ctx.count("hostile:model-mismatch", len(bad))


# ------------------------------------------------------------------ (B) lossless round trip
SHA_PRE = r"""
Definition w32 : N := 4294967296.
Definition add32 (a b : N) : N := (a + b) mod w32.
Definition rotl (x n : N) : N := N.lor ((N.shiftl x n) mod w32) (N.shiftr x (32 - n)).
Definition not32 (x : N) : N := N.lxor x 4294967295.
Fixpoint be_bytes (k : nat) (n : N) : list N :=
  match k with O => [] | S k' => be_bytes k' (n / 256) ++ [n mod 256] end.
Definition sha_pad (msg : list N) : list N :=
  let l := N.of_nat (length msg) in
  let z := (64 - ((l + 9) mod 64)) mod 64 in
  msg ++ [128] ++ repeat 0 (N.to_nat z) ++ be_bytes 8 (8 * l).
Fixpoint words (fuel : nat) (l : list N) : list N :=
  match fuel with O => [] | S f =>
    match l with a :: b :: c :: d :: r => (((a * 256 + b) * 256 + c) * 256 + d) :: words f r | _ => [] end end.
Fixpoint sched (n : nat) (win : list N) : list N :=
  match n with O => [] | S n' =>
    let x := rotl (N.lxor (N.lxor (nth 13 win 0) (nth 8 win 0)) (N.lxor (nth 2 win 0) (nth 0 win 0))) 1 in
    x :: sched n' (tl win ++ [x]) end.
Definition sha_f (t : nat) (b c d : N) : N * N :=
  if Nat.ltb t 20 then (N.lor (N.land b c) (N.land (not32 b) d), 1518500249)
  else if Nat.ltb t 40 then (N.lxor (N.lxor b c) d, 1859775393)
  else if Nat.ltb t 60 then (N.lor (N.lor (N.land b c) (N.land b d)) (N.land c d), 2400959708)
  else (N.lxor (N.lxor b c) d, 3395469782).
Fixpoint rounds (ws : list N) (t : nat) (s : N * N * N * N * N) : N * N * N * N * N :=
  match ws with [] => s | w :: r =>
    let '(a, b, c, d, e) := s in
    let '(f, k) := sha_f t b c d in
    let tmp := add32 (add32 (add32 (add32 (rotl a 5) f) e) k) w in
    rounds r (S t) (tmp, a, rotl b 30, c, d) end.
Fixpoint blocks (fuel : nat) (l : list N) (h : N * N * N * N * N) : N * N * N * N * N :=
  match fuel with O => h | S f =>
    match l with [] => h | _ =>
      let w16 := words 16 (firstn 64 l) in
      let ws := w16 ++ sched 64 w16 in
      let '(a, b, c, d, e) := rounds ws 0 h in
      let '(h0, h1, h2, h3, h4) := h in
      blocks f (skipn 64 l) (add32 h0 a, add32 h1 b, add32 h2 c, add32 h3 d, add32 h4 e) end end.
Definition sha1 (msg : list N) : list N :=
  let p := sha_pad msg in
  let '(a, b, c, d, e) := blocks (S (Nat.div (length p) 64)) p (1732584193, 4023233417, 2562383102, 271733878, 3285377520) in
  be_bytes 4 a ++ be_bytes 4 b ++ be_bytes 4 c ++ be_bytes 4 d ++ be_bytes 4 e.

Definition mkind_eqb (a b : mkind) : bool :=
  match a, b with MReg, MReg | MDir, MDir | MSym, MSym | MLnk, MLnk | MFifo, MFifo | MChr, MChr | MBlk, MBlk => true | _, _ => false end.
Definition member_eqb (a b : member) : bool :=
  eqb_str (m_name a) (m_name b) && mkind_eqb (m_kind a) (m_kind b) && eqb_str (m_link a) (m_link b)
  && (m_mode a =? m_mode b) && eqb_str (m_data a) (m_data b).
Definition artifact_eqb (a b : option artifact) : bool :=
  match a, b with
  | Some x, Some y => eqb_option eqb_str (a_pax x) (a_pax y) && eqb_list member_eqb (a_members x) (a_members y)
                      && Bool.eqb (a_tail_ok x) (a_tail_ok y)
  | None, None => true
  | _, _ => false
  end.
Definition SRC_AUDIT : path := [[115;114;99]; [97;117;100;105;116;46;106;115;111;110;46;103;122]].
Definition SRC_CONTENT : path := [[115;114;99]; [99;111;110;116;101;110;116]].
(* a lossless case: (source fs, world fs) ; expected: (members of the real artifact, hash of the source,
   listing/counts of the world after the real extraction, hash of the extracted tree) *)
Definition check_lossless (i : fsys * fsys)
    (e : option artifact * list N * (list (path * xent) * N * N) * list N) : bool :=
  match e with
  | (art, hsrc, (lst, n, d), hdst) =>
    artifact_eqb (pack (fst i) SRC_AUDIT SRC_CONTENT) art
    && eqb_option eqb_str (hash_dir sha1 (fst i) SRC_CONTENT) (Some hsrc)
    && match art with
       | Some a =>
         let r := bob_extract FUELN (snd i) AUDITP DEST a in
         outcome_eqb (snd (fst r)) Extracted && check_fs (fst (fst r)) lst n d
         && eqb_option eqb_str (hash_dir sha1 (fst (fst r)) DEST) (Some hdst)
       | None => false
       end
  end.
"""

NASTY_NAMES = ["ä ö", "日本語", "\U0001F600", "sp ace", "$(touch x)", "`id`", "a;b", "a&b|c", "'q'", '"dq"', "back\\slash",
               "new\nline", "tab\there", "-rf", "*", "?", ".hidden", "...", "a.", "CON", "content", "meta", "audit.json.gz",
               "x" * 120, "é" * 90, ".git", ".svn", "BaseDirList.txt", "%s", "{}", "~", "#c", "a=b", "\x7f", "\x01ctl", " lead", "trail "]
FILE_MODES = [0o644, 0o755, 0o600, 0o444, 0o400, 0o000, 0o4755, 0o2755, 0o1644, 0o664, 0o777]
DIR_MODES = [0o755, 0o700, 0o555, 0o500, 0o1777, 0o2775, 0o750, 0o000 | 0o700]


def gen_tree(rng, small):
    """list of (relpath, kind, attrs) in creation order"""
    ents = []
    names_used = set()
    dirs = [""]
    n = rng.randint(0, 9) if small else rng.randint(0, 40)
    files = []
    def fresh(d):
        for _ in range(20):
            nm = rng.choice(NASTY_NAMES) if rng.random() < 0.45 else rng.choice("abcdefgh") + str(rng.randrange(100))
            if rng.random() < 0.04:
                nm = os.fsdecode(bytes([0xff, 0xfe, rng.randrange(0x80, 0x100)]) + b"bin")
            if small and len(os.fsencode(nm)) > 40:
                continue
            p = (d + "/" + nm) if d else nm
            if p not in names_used and len(os.fsencode(p)) < 900:
                names_used.add(p)
                return p
        p = (d + "/n%d" % len(names_used)) if d else "n%d" % len(names_used)
        names_used.add(p)
        return p
    for _ in range(n):
        d = rng.choice(dirs)
        r = rng.random()
        p = fresh(d)
        if r < 0.25 and d.count("/") < 4:
            ents.append((p, "dir", {"mode": rng.choice(DIR_MODES)}))
            if not os.path.basename(p) in (".git", ".svn"):
                dirs.append(p)
            else:
                dirs.append(p)
        elif r < 0.60:
            size = rng.choice([0, 1, 5, 20, 40]) if small else rng.choice([0, 1, 10, 100, 511, 512, 513, 1024, 5000, 70000])
            data = bytes(rng.getrandbits(8) for _ in range(size)) if size < 2000 else rng.randbytes(size)
            ents.append((p, "reg", {"mode": rng.choice(FILE_MODES), "data": data}))
            files.append(p)
        elif r < 0.78:
            tgt = rng.choice(["nowhere", "..", "../..", "/", "/etc/passwd", ".", "ä ö", "a b/c", "x" * (30 if small else 200), "../content",
                              os.path.basename(rng.choice(files)) if files else "f", rng.choice(dirs) or "."])
            ents.append((p, "sym", {"link": tgt}))
        elif r < 0.92 and files:
            ents.append((p, "hard", {"to": rng.choice(files)}))
            files.append(p)
        elif r < 0.96:
            ents.append((p, "fifo", {"mode": rng.choice([0o644, 0o600])}))
        else:
            ents.append((p, rng.choice(["chr", "blk"]), {"mode": rng.choice([0o644, 0o600, 0o660])}))
    return ents


def build_tree(root, ents):
    os.makedirs(root)
    later = []
    for p, kind, at in ents:
        fp = os.path.join(root, p)
        if kind == "dir":
            os.mkdir(fp)
            later.append((fp, at["mode"]))
        elif kind == "reg":
            with open(fp, "wb") as f:
                f.write(at["data"])
            os.chmod(fp, at["mode"])
        elif kind == "sym":
            os.symlink(at["link"], fp)
        elif kind == "hard":
            os.link(os.path.join(root, at["to"]), fp)
        elif kind == "fifo":
            os.mkfifo(fp)
            os.chmod(fp, at["mode"])
        else:
            os.mknod(fp, (stat.S_IFCHR if kind == "chr" else stat.S_IFBLK) | at["mode"], os.makedev(*DEVNUM[kind]))
            os.chmod(fp, at["mode"])
    for fp, mode in reversed(later):
        os.chmod(fp, mode)


def archive_path(bid):
    from bob.archive import buildIdToName
    n = buildIdToName(bid)
    return "/arch/%s/%s/%s.tgz" % (n[0:2], n[2:4], n[4:])


def post_download_check(audit, content):
    """builder.py after a successful downloadPackage(): audit present, recorded result hash = hash of workspace.
    The same library calls as builder.py; returns (accepted, reason)"""
    from bob.utils import hashDirectory
    from bob.audit import Audit
    if not os.path.exists(audit):
        return False, "missing-audit"
    h = hashDirectory(content, os.path.join(os.path.dirname(content), "cache.bin"))
    if Audit.fromFile(audit).getArtifact().getResultHash() != h:
        return False, "hash-mismatch"
    return True, h


def impl_fetch(bid):
    """(inside the jail) LocalArchive._downloadPackage (open, Tee, TarHelper._extract). -> None | failure reason"""
    from bob.archive import LocalArchive, ARTIFACT_SUFFIX
    from bob.errors import BobError
    a = LocalArchive({"backend": "file", "path": "/arch"})
    a.wantDownloadLocal(True)
    try:
        ret = a._downloadPackage(bid, ARTIFACT_SUFFIX, AUDIT, WS, [], WS)
    except BobError as e:
        return "BuildError"
    except Exception as e:
        return "exception:" + type(e).__name__
    if not ret[0]:
        return "not-downloaded"
    return None


def impl_check():
    """(inside the jail) the builder's check of a downloaded package -> ("accepted", hash) | ("failed", reason)"""
    from bob.errors import BobError
    try:
        ok, why = post_download_check(AUDIT, WS)
    except BobError:
        return "failed", "audit-unreadable"
    except Exception as e:
        return "failed", "check-exception:" + type(e).__name__
    return ("accepted", why) if ok else ("failed", why)


def make_artifact(jail, ents, bid):
    """(enters the jail) build the tree, a real audit trail, upload through LocalArchive.
    -> (tgz bytes, source snapshot below /src, source hash, audit bytes)"""
    from bob.archive import LocalArchive, ARTIFACT_SUFFIX
    from bob.utils import hashDirectory
    from bob.audit import Audit
    jail.enter()
    try:
        wipe_root()
        os.umask(0o022)
        os.mkdir("/src")
        build_tree("/src/content", ents)
        hsrc = hashDirectory("/src/content")
        Audit.create(b"\x11" * 20, bid, hsrc).save("/src/audit.json.gz")
        os.unlink("/src/audit.json.gz.pickle")
        with open("/src/audit.json.gz", "rb") as f:
            ab = f.read()
        a = LocalArchive({"backend": "file", "path": "/arch"})
        a.wantUploadLocal(True)
        r = a._uploadPackage(bid, ARTIFACT_SUFFIX, "/src/audit.json.gz", "/src/content")
        with open(archive_path(bid), "rb") as f:
            tgz = f.read()
        snap = snapshot("/src")
        snap["/src"] = {"kind": "dir", "perm": 0o755, "ino": (0, 0), "nlink": 2, "mtime": 0, "uid": 0, "gid": 0}
    finally:
        jail.leave()
    return tgz, snap, hsrc, ab, r


def download_in_world(jail, tgz, bid):
    """(enters the jail) fresh world + archive file; real download + check. -> verdict, before, after"""
    jail.enter()
    try:
        world_setup()
        os.makedirs(os.path.dirname(archive_path(bid)))
        with open(archive_path(bid), "wb") as f:
            f.write(tgz)
        before = {p: e for p, e in snapshot().items() if not p.startswith("/arch")}
        why = impl_fetch(bid)
        after = {p: e for p, e in snapshot().items() if not p.startswith("/arch")}
        verdict = ("failed", why) if why else impl_check()
        try:
            from bob.utils import hashDirectory
            hdst = hashDirectory(WS) if os.path.isdir(WS) else None
        except Exception:
            hdst = None
    finally:
        jail.leave()
    return verdict, before, after, hdst


def strict_diff(src, dst, src_root, dst_root):
    """beyond the hash: kinds, modes, data, link targets, hard link groups, ignored directories too"""
    diffs = []
    def rel(snap, root):
        return {p[len(root):]: e for p, e in snap.items() if p.startswith(root + "/")}
    a, b = rel(src, src_root), rel(dst, dst_root)
    for p in sorted(set(a) | set(b)):
        if p not in a or p not in b:
            diffs.append(("presence", p)); continue
        x, y = a[p], b[p]
        if (x["kind"], x["perm"], x.get("data")) != (y["kind"], y["perm"], y.get("data")):
            diffs.append(("node", p))
    def groups(m):
        g = {}
        for p, e in m.items():
            if e["kind"] == "reg":
                g.setdefault(e["ino"], []).append(p)
        return sorted(sorted(v) for v in g.values() if len(v) > 1)
    if groups(a) != groups(b):
        diffs.append(("hardlinks", ""))
    return diffs


def lossless_part(ctx, jail, n_real, n_model):
    rng = ctx.rng
    coq_cases = []
    meta = []
    fs0 = None
    for k in range(n_real + n_model):
        small = k < n_model
        ents = gen_tree(rng, small)
        bid = bytes(rng.getrandbits(8) for _ in range(20))
        tgz, src, hsrc, ab, upl = make_artifact(jail, ents, bid)
        verdict, before, after, hdst = download_in_world(jail, tgz, bid)
        ctx.evaluated()
        for p, kind, at in ents:
            ctx.count("tree:" + kind)
        ctx.count("lossless:" + verdict[0])
        if len(ents) >= 3:
            ctx.nontrivial(("tree", hashlib.sha1(tgz).hexdigest()))
        desc = {"kind": "lossless", "entries": [[p, kind, {a: (base64.b64encode(v).decode() if isinstance(v, bytes) else v) for a, v in at.items()}] for p, kind, at in ents]}
        ok = verdict[0] == "accepted" and hdst == hsrc
        if ok:
            audit_after = after.get(AUDIT, {}).get("data")
            if audit_after != ab:
                ok = False
        if not ok:
            ctx.violation("lossless-roundtrip:" + (verdict[1] if verdict[0] != "accepted" else "hash-or-audit-differs"),
                          "pack+extract of a generated tree: verdict %r, source hash %s, extracted hash %s" % (
                              verdict, hsrc.hex(), hdst.hex() if hdst else None), desc)
            continue
        sd = strict_diff(src, after, "/src/content", WS)
        if sd:
            ctx.count("lossless:beyond-hash-difference", 1)
            ctx.note("tree equal by hash but not node by node: %r" % sd[:3])
        if diff_outside(outside_view(before), outside_view(after)):
            ctx.violation("outside-changed-by-benign-artifact", "benign extraction changed the outside", desc)
        if len(ctx.cov["samples"]) < 6 and k < 2:
            ctx.sample({"tree": [[p, kind] for p, kind, at in ents][:8], "source_hash": hsrc.hex(), "extracted_hash": hdst.hex()})
        if not small:
            continue
        dec = decode_tgz(tgz)
        if dec is None or not dec[2]:
            ctx.tie_broken("lossless-decode", "real artifact not decodable")
            continue
        if fs0 is None:
            fs0 = cfs(before)
        n, d = counts(after)
        inp = "(%s, fs0)" % cfs(src)
        exp = "(Some %s, %s, (%s, %d, %d), %s)" % (cartifact(dec[0], dec[1], True), L.by(hsrc), clisting(after), n, d, L.by(hdst))
        coq_cases.append((inp, exp))
        meta.append(desc)
    return coq_cases, meta, fs0


def eval_lossless(ctx, coq_cases, meta, fs0):
    if not coq_cases:
        return
    pre = PREAMBLE + "Definition fs0 : fsys := %s.\nDefinition AUDITP : path := %s.\nDefinition DEST : path := %s.\nDefinition FUELN : nat := %d%%nat.\n" % (
        fs0, cpath(AUDIT), cpath(WS), FUEL) + SHA_PRE
    # self-test of the SHA-1 used to run hash_dir
    msgs = [b"", b"abc", bytes(range(200))]
    bad, log = coq.run_cases(ctx, ["BobV.C08.Model"], "sha1", "eqb_str", [(L.by(m), L.by(hashlib.sha1(m).digest())) for m in msgs],
                             preamble=pre, tag="sha")
    if bad is None or bad:
        ctx.tie_broken("sha1-selftest", log if bad is None else "SHA-1 of the case evaluator differs from hashlib")
        return
    bad, log = coq.run_cases(ctx, ["BobV.C08.Model"], "(fun i => i)", "check_lossless", coq_cases, preamble=pre, tag="loss", shard=6)
    if bad is None:
        ctx.tie_broken("C08 model evaluation failed (lossless)", log)
        return
    ctx.validated(len(coq_cases) - len(bad))
    for i in bad[:5]:
        ctx.tie_broken("lossless-correspondence (pack / hash_dir / extract of the real artifact)", meta[i])
    if bad:
        ctx.count("lossless:model-mismatch", len(bad))


# ------------------------------------------------------------------ (C) corruption
def recorded_hash(audit_bytes):
    """independent reading of the result hash recorded in an audit trail (None: unreadable)"""
    try:
        tree = json.loads(gzip.decompress(audit_bytes).decode("utf8"))
        return bytes.fromhex(tree["artifact"]["result-hash"])
    except Exception:
        return None


def repack(dec, edit):
    """re-pack a decoded artifact after a tampering edit -> tgz bytes, label"""
    pax, members, _ = dec
    members = [dict(m) for m in members]
    label = edit(members)
    newpax = "1"
    fmt = tarfile.PAX_FORMAT
    if label == "wrong-version":
        newpax = "2"
    elif label == "no-version":
        newpax = None
    elif label == "gnu-format":
        fmt = tarfile.GNU_FORMAT
        newpax = None
    buf = io.BytesIO()
    hdr = {} if newpax is None else {"bob-archive-vsn": newpax}
    with gzip.GzipFile(fileobj=buf, mode="wb", mtime=0) as gz:
        with tarfile.open(None, "w", fileobj=gz, format=fmt, pax_headers=hdr if fmt == tarfile.PAX_FORMAT else None) as tar:
            for m in members:
                ti = tarfile.TarInfo(m["name"])
                ti.type = KINDS[m["kind"]]
                ti.linkname = m.get("link", "")
                ti.mode = m["mode"]
                ti.mtime = 42
                data = m.get("data", b"") if m["kind"] == "reg" else b""
                ti.size = len(data)
                if m["kind"] in DEVNUM:
                    ti.devmajor, ti.devminor = m.get("dev", DEVNUM[m["kind"]])
                tar.addfile(ti, io.BytesIO(data) if m["kind"] == "reg" else None)
    return buf.getvalue(), label


def tamper_edits(rng, other_audit):
    def content(ms):
        return [m for m in ms if m["name"].startswith("content/")]
    def e_data(ms):
        c = [m for m in content(ms) if m["kind"] == "reg"]
        if not c:
            ms.append({"name": "content/added", "kind": "reg", "link": "", "mode": 0o644, "data": b"x"}); return "add-file"
        m = rng.choice(c); m["data"] = m["data"] + b"!" if rng.random() < 0.5 else m["data"][:-1] if m["data"] else b"!"
        return "change-data"
    def e_drop(ms):
        c = content(ms)
        if not c:
            return e_data(ms)
        victim = rng.choice(c)
        ms[:] = [m for m in ms if not (m["name"] == victim["name"] or m["name"].startswith(victim["name"] + "/")
                                       or (m["kind"] == "lnk" and m["link"] == victim["name"]))]
        return "drop-entry"
    def e_add(ms):
        ms.append({"name": "content/zz-added", "kind": rng.choice(["reg", "dir", "sym"]), "link": "x", "mode": 0o644, "data": b"new"}); return "add-entry"
    def e_mode(ms):
        c = [m for m in content(ms) if m["kind"] in ("reg", "dir")]
        if not c:
            return e_add(ms)
        m = rng.choice(c); m["mode"] ^= 0o100; return "change-mode"
    def e_link(ms):
        c = [m for m in content(ms) if m["kind"] == "sym"]
        if not c:
            return e_add(ms)
        rng.choice(c)["link"] += "x"; return "change-symlink"
    def e_rename(ms):
        c = [m for m in content(ms) if m["kind"] in ("reg", "sym")]
        if not c:
            return e_add(ms)
        rng.choice(c)["name"] += "~"; return "rename"
    def e_noaudit(ms):
        ms[:] = [m for m in ms if m["name"] != "meta/audit.json.gz"]; return "missing-audit"
    def e_badaudit(ms):
        for m in ms:
            if m["name"] == "meta/audit.json.gz":
                m["data"] = b"this is not gzip"
        return "garbage-audit"
    def e_otheraudit(ms):
        for m in ms:
            if m["name"] == "meta/audit.json.gz":
                m["data"] = other_audit
        return "foreign-audit"
    def e_vsn(ms):
        return "wrong-version"
    def e_novsn(ms):
        return "no-version"
    def e_gnu(ms):
        if any(len(os.fsencode(m["name"])) > 99 or len(os.fsencode(m.get("link", ""))) > 99 for m in ms):
            return "wrong-version"
        return "gnu-format"
    def e_unknown(ms):
        ms.append({"name": rng.choice(["evil", "content2/x", "meta/extra"]), "kind": "reg", "link": "", "mode": 0o644, "data": b"?"}); return "unknown-member"
    def e_none(ms):
        return "untampered-repack"
    return [e_data, e_drop, e_add, e_mode, e_link, e_rename, e_noaudit, e_badaudit, e_otheraudit, e_vsn, e_novsn, e_gnu, e_unknown, e_none]


def corruption_part(ctx, jail, n_art, n_trunc, n_flip, n_model):
    """truncations, bit flips and tampered re-packs of real artifacts through LocalArchive download +
    post-download check; never accepted with a tree that is not the recorded one"""
    rng = ctx.rng
    coq_cases = []
    meta = []
    fs0 = None
    rec_table = {}
    budget_model = n_model
    other_audit = None
    for ai in range(n_art):
        ents = gen_tree(rng, True)
        while len(ents) < 3:
            ents = gen_tree(rng, True)
        bid = bytes(rng.getrandbits(8) for _ in range(20))
        tgz, src, hsrc, ab, _ = make_artifact(jail, ents, bid)
        if other_audit is None:
            jail.enter()
            try:
                from bob.audit import Audit
                Audit.create(b"\x22" * 20, b"\x33" * 20, b"\x44" * 20).save("/other.json.gz")
                with open("/other.json.gz", "rb") as f:
                    other_audit = f.read()
            finally:
                jail.leave()
        dec0 = decode_tgz(tgz)
        variants = []
        L_ = len(tgz)
        if n_trunc >= L_:
            lens = list(range(L_))
        else:
            lens = sorted(set([0, 1, 2, 9, 10, 11, 17, 18, 19, 20, L_ - 1, L_ - 2, L_ - 8, L_ - 9, L_ - 10] +
                              [rng.randrange(L_) for _ in range(n_trunc)]))
            lens = [x for x in lens if 0 <= x < L_]
        for n in lens:
            variants.append(("truncate", n, tgz[:n]))
        for _ in range(n_flip):
            pos = rng.randrange(L_); bit = rng.randrange(8)
            b = bytearray(tgz); b[pos] ^= 1 << bit
            variants.append(("bitflip", (pos, bit), bytes(b)))
        for ed in tamper_edits(rng, other_audit):
            data, label = repack(dec0, ed)
            variants.append(("tamper:" + label, None, data))
        variants.append(("original", None, tgz))
        for kind, arg, data in variants:
            verdict, before, after, hdst = download_in_world(jail, data, bid)
            ctx.evaluated()
            ctx.count("corrupt:%s:%s" % (kind.split(":")[0], verdict[0] + ("" if verdict[0] == "accepted" else ":" + verdict[1])))
            if data != tgz:
                ctx.nontrivial(("corrupt", hashlib.sha1(data).hexdigest()))
            desc = {"kind": "corrupt", "what": kind, "arg": arg, "artifact": base64.b64encode(data).decode(), "bid": bid.hex(),
                    "source_hash": hsrc.hex()}
            if fs0 is None:
                fs0 = cfs(before)
            if verdict[0] == "accepted":
                rec = recorded_hash(after.get(AUDIT, {}).get("data", b""))
                if hdst is None or rec is None or hdst != rec:
                    ctx.violation("accepted-with-unverified-content:" + kind.split(":")[0],
                                  "%s of a real artifact was accepted although the tree hash %s differs from the recorded %s" % (
                                      kind, hdst.hex() if hdst else None, rec.hex() if rec else None), desc)
                elif kind.split(":")[0] in ("truncate", "bitflip", "original") and hdst != hsrc:
                    ctx.violation("accepted-corrupt-stream:" + kind, "accepted tree differs from the packed one", desc)
            elif kind == "original" or kind == "tamper:untampered-repack":
                ctx.violation("intact-artifact-rejected", "an intact artifact was not accepted: %r" % (verdict,), desc)
            if diff_outside(outside_view(before), outside_view(after)):
                ctx.violation("outside-changed-by-corrupt-artifact", "download of a corrupt artifact changed the outside", desc)
            # model: download on the decoded stream
            if budget_model > 0 and (kind.startswith("tamper") or rng.random() < 0.15):
                dec = decode_tgz(data)
                if dec is None:
                    art = "(@None artifact)"
                else:
                    art = "(Some %s)" % cartifact(dec[0], dec[1], dec[2])
                    for m in dec[1]:
                        if m["name"] == "meta/audit.json.gz" and m["kind"] == "reg":
                            rec_table[m["data"]] = recorded_hash(m["data"])
                coq_cases.append((art, "Accepted %s" % L.by(verdict[1]) if verdict[0] == "accepted" else "Failed"))
                meta.append({k: v for k, v in desc.items() if k != "artifact"} | {"impl": list(verdict[:1]) + [verdict[1].hex() if isinstance(verdict[1], bytes) else verdict[1]]})
                budget_model -= 1
    return coq_cases, meta, fs0, rec_table


def eval_corruption(ctx, coq_cases, meta, fs0, rec_table):
    if not coq_cases:
        return
    rec = "fun ab => " + "".join("if eqb_str ab %s then %s else " % (L.by(k), "(Some %s)" % L.by(v) if v is not None else "(@None (list N))")
                                 for k, v in rec_table.items()) + "(@None (list N))"
    pre = PREAMBLE + "Definition fs0 : fsys := %s.\nDefinition AUDITP : path := %s.\nDefinition DEST : path := %s.\n" % (
        fs0, cpath(AUDIT), cpath(WS)) + SHA_PRE.split("Definition mkind_eqb")[0] + """
Definition recorded : list N -> option (list N) := %s.
Definition verdict_eqb (a b : verdict) : bool :=
  match a, b with Accepted x, Accepted y => eqb_str x y | Failed, Failed => true | _, _ => false end.
""" % rec
    bad, log = coq.run_cases(ctx, ["BobV.C08.Model"], "(fun a => snd (download sha1 recorded %d%%nat fs0 AUDITP DEST a))" % FUEL,
                             "verdict_eqb", coq_cases, preamble=pre, tag="corr", shard=12)
    if bad is None:
        ctx.tie_broken("C08 model evaluation failed (download)", log)
        return
    ctx.validated(len(coq_cases) - len(bad))
    for i in bad[:5]:
        ctx.tie_broken("download-correspondence", meta[i])
    if bad:
        ctx.count("corrupt:model-mismatch", len(bad))


# ------------------------------------------------------------------ (D) end to end through the builder
def e2e_part(ctx, n_variants):
    """bob build --download=forced against a local archive whose artifact was tampered with"""
    rng = ctx.rng
    d = core.scratch_dir("c08e")
    env = dict(os.environ, PYTHONPATH=os.path.join(core.REPO, "pym"))
    def bob(args, cwd):
        return subprocess.run([sys.executable, os.path.join(core.REPO, "bob")] + args, cwd=cwd, env=env,
                              stdout=subprocess.PIPE, stderr=subprocess.STDOUT, text=True, timeout=300)
    try:
        proj = os.path.join(d, "proj"); arch = os.path.join(d, "arch")
        os.makedirs(os.path.join(proj, "recipes"))
        with open(os.path.join(proj, "config.yaml"), "w") as f:
            f.write('bobMinimumVersion: "0.25"\n')
        with open(os.path.join(proj, "default.yaml"), "w") as f:
            f.write("archive:\n  backend: file\n  path: %s\n" % arch)
        with open(os.path.join(proj, "recipes", "root.yaml"), "w") as f:
            f.write("root: True\npackageScript: |\n  mkdir -p d/e\n  echo hello > d/e/f\n  ln -s d/e/f l\n  ln d/e/f h\n  chmod 750 d\n")
        r = bob(["build", "root", "--upload"], proj)
        arts = glob.glob(os.path.join(arch, "*", "*", "*.tgz"))
        if r.returncode != 0 or len(arts) != 1:
            ctx.tie_broken("e2e-setup", r.stdout[-1500:])
            return
        art = arts[0]
        orig = open(art, "rb").read()
        dec0 = decode_tgz(orig)
        edits = tamper_edits(rng, b"")
        chosen = [edits[-1]] + rng.sample(edits[:-1], min(n_variants, len(edits) - 1))
        variants = [("truncate", orig[:len(orig) * 2 // 3]), ("bitflip", bytes(b ^ (0x10 if i == len(orig) // 2 else 0) for i, b in enumerate(orig)))]
        for ed in chosen:
            data, label = repack(dec0, ed)
            if label == "foreign-audit":
                continue
            variants.append((label, data))
        rel = os.path.relpath(art, arch)
        shutil.rmtree(os.path.join(proj, "work"), ignore_errors=True)
        for fn in glob.glob(os.path.join(proj, ".bob-*")):
            os.unlink(fn) if os.path.isfile(fn) else shutil.rmtree(fn)
        def one(iv):
            i, (label, data) = iv
            pd = os.path.join(d, "v%d" % i)
            shutil.copytree(proj, os.path.join(pd, "proj"), symlinks=True)
            ad = os.path.join(pd, "arch", os.path.dirname(rel))
            os.makedirs(ad)
            with open(os.path.join(pd, "arch", rel), "wb") as f:
                f.write(data)
            with open(os.path.join(pd, "proj", "default.yaml"), "w") as f:
                f.write("archive:\n  backend: file\n  path: %s\n" % os.path.join(pd, "arch"))
            r1 = bob(["build", "root", "--download=forced"], os.path.join(pd, "proj"))
            # what every user does after a failed build: the very same command again (seed C08-2: the project state
            # must not have recorded the rejected workspace as a valid download); then the intact artifact arrives
            r2 = bob(["build", "root", "--download=forced"], os.path.join(pd, "proj"))
            with open(os.path.join(pd, "arch", rel), "wb") as f:
                f.write(orig)
            r3 = bob(["build", "root", "--download=forced"], os.path.join(pd, "proj"))
            got = None
            try:
                with open(os.path.join(pd, "proj", "work", "root", "dist", "1", "workspace", "d", "e", "f"), "rb") as f:
                    got = f.read()
            except OSError:
                pass
            return label, r1, r2, r3, got
        from concurrent.futures import ThreadPoolExecutor
        with ThreadPoolExecutor(max_workers=4) as ex:
            results = list(ex.map(one, enumerate(variants)))
        for label, r, r2, r3, got in results:
            ctx.evaluated(3)
            if label != "untampered-repack":
                ctx.count("e2e-retry:%s:%s" % (label, "built" if r2.returncode == 0 else "failed"))
                if r.returncode != 0 and r2.returncode == 0:
                    ctx.violation("builder-accepted-tampered-artifact-on-retry:" + label,
                                  "the repeated bob build --download=forced succeeded with the tampered artifact (%s) that the first run "
                                  "had rejected" % label, {"kind": "e2e", "label": label, "log": r2.stdout[-1500:]})
                ctx.count("e2e-recover:%s:%s" % (label, "built" if r3.returncode == 0 else "failed"))
                if r.returncode != 0 and r2.returncode != 0 and (r3.returncode != 0 or got != b"hello\n"):
                    ctx.violation("intact-artifact-rejected-after-corrupt-one:" + label,
                                  "after a rejected tampered artifact (%s) the intact artifact is not downloaded (exit %d, content %r)"
                                  % (label, r3.returncode, got), {"kind": "e2e", "label": label, "log": r3.stdout[-1500:]})
            ctx.nontrivial(("e2e", label))
            ok = r.returncode == 0
            ctx.count("e2e:%s:%s" % (label, "built" if ok else "failed"))
            if label == "untampered-repack":
                if not ok:
                    ctx.violation("intact-artifact-rejected", "bob build --download=forced failed on an intact artifact", {"kind": "e2e", "label": label, "log": r.stdout[-1500:]})
            elif ok:
                ctx.violation("builder-accepted-tampered-artifact:" + label,
                              "bob build --download=forced succeeded with a tampered artifact (%s)" % label,
                              {"kind": "e2e", "label": label, "log": r.stdout[-1500:]})
    finally:
        shutil.rmtree(d, ignore_errors=True)


# ------------------------------------------------------------------ main
def load_corpus():
    out = []
    for p in sorted(glob.glob(os.path.join(core.VERIF, "corpus", "C08", "*.json")),
                    key=lambda x: (os.path.basename(x) != "f2_hardlink.json", x)):
        with open(p) as f:
            d = json.load(f)
        d["_file"] = os.path.basename(p)
        out.append(d)
    return out


def preload():
    """import everything the implementation needs before the first chroot"""
    import bob.archive, bob.utils, bob.errors, bob.audit, bob.tty       # noqa
    import encodings.idna, encodings.utf_8, encodings.latin_1, encodings.ascii   # noqa
    import pwd, grp, zlib, bz2, lzma, pickle, platform                  # noqa
    platform.uname()
    d = core.scratch_dir("c08w")
    try:
        from bob.archive import TarHelper
        os.makedirs(d + "/c/x")
        with open(d + "/c/x/f", "w") as f:
            f.write("1")
        with open(d + "/audit.json.gz", "w") as f:
            f.write("a")
        TarHelper()._pack(d + "/t.tgz", None, d + "/audit.json.gz", d + "/c")
        with open(d + "/t.tgz", "rb") as f:
            TarHelper()._extract(f, d + "/a2", d + "/c2")
    finally:
        shutil.rmtree(d, ignore_errors=True)


def scaled(n):
    """C08_SCALE=0.2 shrinks the budgets (used for the mutation self-test only)"""
    return max(1, int(n * float(os.environ.get("C08_SCALE", "1"))))


def run(ctx):
    rng = ctx.rng
    ctx.rule = ("(A) hostile member lists from attack templates (symlink-then-write, hard links to/through the outside, '..', absolute, "
                "devices, loops, unknown entries, audit placement, pax version) mixed with random members; (B) random trees with all "
                "supported file kinds; (C) every/sampled truncation and bit flips of real artifacts; a case is non-trivial when the "
                "artifact has >= 2 members / the tree >= 3 entries / the corruption changes the byte stream; distinct by content")
    ctx.assumptions += [
        "proved (unbounded, Coq): extraction of any artifact is confined to workspace + audit file (extract_confined_partial, "
        "accepted_extraction_confined, member_extraction_confined); kernel resolution agrees with realpath; acceptance implies version 1, "
        "only known members, clean end of stream, audit present and recorded hash = hash of the extracted tree; pack followed by extract "
        "reproduces the tree as a path->node map and the audit bytes (pack_extract_roundtrip_partial)",
        "not proved, exercised by correspondence and oracle only: equality of hash_dir after a round trip (the proof stops at equal "
        "path->node maps); confinement of a REJECTED extraction in the corner where tarfile's makelink fall-back re-creates a parent directory "
        "(corpus/C08/relink_through_itself.json)",
        "tar and gzip codecs are CPython's (the model starts from decoded member lists). Bit flips in member data are NOT caught by zlib's CRC "
        "on this path (tarfile stops reading at the end-of-archive marker); the guard is the post-download hash check of builder.py, which is "
        "driven end to end with `bob build --download=forced` on tampered artifacts and re-stated in the harness for the in-process volume",
        "kernel path resolution, open/link/symlink/mkdir/mkfifo/mknod/chmod semantics, os.makedirs, os.path.realpath and "
        "tarfile._extract_member/makelink (incl. its fall-back) as modelled in C08/Model.v (MAXSYMLINKS, owner, time stamps, umask other than "
        "022 not modelled); validated against the real kernel and CPython on every generated case (whole-jail listing compared)",
        "confinement theorems assume that no symbolic link exists outside workspace and audit file before extraction and that the ancestors of "
        "the workspace are directories (a pre-existing outside link that leads back into the workspace is not excluded by the code)",
        "runs as root inside a chroot jail under /var/tmp; a regular member written over an extracted fifo blocks in open() and is not executed; "
        "sockets are not packed by tarfile (not part of the property text)",
        "SHA-1 is a parameter H of hash_dir (no injectivity assumed); for the correspondence it is instantiated with a Gallina SHA-1 that is "
        "self-tested against hashlib on every run",
    ]
    if os.geteuid() != 0:
        ctx.tie_broken("harness", "C08 needs root (chroot jail, device nodes)")
        return
    preload()
    if ctx.replay:
        return replay(ctx)
    jail = Jail()
    T = [time.time()]
    def lap(name):
        T.append(time.time())
        ctx.count("seconds:" + name, int(T[-1] - T[-2]))
    try:
        corpus = [unjson_case(c["case"]) for c in load_corpus() if c.get("kind") == "hostile"]
        n = scaled(ctx.n(500, 8000))
        cases = corpus + [gen_hostile(rng) for _ in range(n)]
        cc, meta, fs0 = hostile_part(ctx, jail, cases)
        lap("hostile-impl")
        lc, lmeta, lfs0 = lossless_part(ctx, jail, scaled(ctx.n(100, 2500)), scaled(ctx.n(12, 300)))
        lap("lossless-impl")
        kc, kmeta, kfs0, ktab = corruption_part(ctx, jail, ctx.n(2, 6), scaled(ctx.n(40, 10 ** 9)), scaled(ctx.n(60, 1500)), scaled(ctx.n(24, 500)))
        lap("corruption-impl")
    finally:
        jail.close()
    e2e_part(ctx, ctx.n(3, 13))
    lap("e2e")
    # the three model evaluations are independent: run their coqc shards side by side
    from concurrent.futures import ThreadPoolExecutor
    with ThreadPoolExecutor(max_workers=3) as ex:
        futs = [ex.submit(eval_hostile, ctx, cc, meta, fs0, "host"),
                ex.submit(eval_lossless, ctx, lc, lmeta, lfs0),
                ex.submit(eval_corruption, ctx, kc, kmeta, kfs0, ktab)]
        for f in futs:
            f.result()
    lap("model-evaluation")


def replay(ctx):
    with open(ctx.replay) as f:
        d = json.load(f)
    c = d["case"] if "property" in d else d
    kind = c.get("kind")
    if kind == "hostile":
        jail = Jail()
        try:
            cc, meta, fs0 = hostile_part(ctx, jail, [unjson_case(c["case"])])
        finally:
            jail.close()
        print("replayed hostile case: %s" % (json.dumps(meta[0]) if meta else "not modelled"))
        print("violations: %r" % [(v["signature"], v["what"]) for v in ctx.violations])
        eval_hostile(ctx, cc, meta, fs0, "replay")
    elif kind == "corrupt":
        jail = Jail()
        try:
            data = base64.b64decode(c["artifact"])
            bid = bytes.fromhex(c["bid"])
            verdict, before, after, hdst = download_in_world(jail, data, bid)
        finally:
            jail.close()
        ctx.evaluated()
        rec = recorded_hash(after.get(AUDIT, {}).get("data", b""))
        print("replayed %s: verdict %r, extracted hash %s, recorded %s" % (c.get("what"), verdict, hdst.hex() if hdst else None, rec.hex() if rec else None))
        if verdict[0] == "accepted" and (hdst is None or rec is None or hdst != rec):
            ctx.violation("accepted-with-unverified-content:" + str(c.get("what", "")).split(":")[0], "replayed", c)
        if diff_outside(outside_view(before), outside_view(after)):
            ctx.violation("outside-changed-by-corrupt-artifact", "replayed", c)
    elif kind == "lossless":
        ents = [(p, k, {a: (base64.b64decode(v) if a == "data" else v) for a, v in at.items()}) for p, k, at in c["entries"]]
        jail = Jail()
        try:
            bid = b"\x55" * 20
            tgz, src, hsrc, ab, _ = make_artifact(jail, ents, bid)
            verdict, before, after, hdst = download_in_world(jail, tgz, bid)
        finally:
            jail.close()
        ctx.evaluated()
        print("replayed tree: verdict %r, source hash %s, extracted hash %s" % (verdict, hsrc.hex(), hdst.hex() if hdst else None))
        if verdict[0] != "accepted" or hdst != hsrc or after.get(AUDIT, {}).get("data") != ab:
            ctx.violation("lossless-roundtrip:replayed", "replayed", c)
    else:
        print("replay of %r cases: run ./check C08 quick" % kind)
