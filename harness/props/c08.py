"""C08 — artifact packing is lossless, corruption is rejected, extraction is confined.

Implementation side (all real code imported from core.REPO/pym, run inside a
chroot jail under /var/tmp so that a confinement breach of a mutated
implementation cannot touch the host):
  (A) hostile member lists  -> TarHelper._extract                 [confinement oracle]
  (B) generated trees       -> LocalArchive upload (TarHelper._pack) -> LocalArchive
                               download (TarHelper._extract)       [lossless oracle]
  (C) truncations / bit flips / re-packed artifacts of real artifacts -> LocalArchive
      download + the post-download check of builder.py             [corruption oracle]
  (D) a few end-to-end `bob dev --download=forced` runs against a tampered archive
Model side (BobV.C08.Model, vm_compute): bob_extract / pack / hash_dir / download on
the same inputs, compared with what the implementation did (file system listing of
the whole jail, outcome, member list of the real artifact, directory hash).
"""
import base64, errno, glob, gzip, hashlib, io, json, os, shutil, stat, struct, subprocess, sys, tarfile, time
from vlib import coq, core, coqlit as L

PROPERTY_FILES = ["C08/Properties.v"]

FUEL = 60
WS = "/p/q/ws"
AUDIT = "/p/q/audit.json.gz"
KINDS = {"reg": tarfile.REGTYPE, "dir": tarfile.DIRTYPE, "sym": tarfile.SYMTYPE, "lnk": tarfile.LNKTYPE,
         "fifo": tarfile.FIFOTYPE, "chr": tarfile.CHRTYPE, "blk": tarfile.BLKTYPE}
COQ_KIND = {"reg": "MReg", "dir": "MDir", "sym": "MSym", "lnk": "MLnk", "fifo": "MFifo", "chr": "MChr", "blk": "MBlk"}
DEVNUM = {"chr": (1, 3), "blk": (7, 123)}       # /dev/null, an unused loop device number; never opened


# ------------------------------------------------------------------ jail
class Jail:
    """chroot into a scratch directory and back (root only).  Everything the
    implementation does for a case happens inside."""

    def __init__(self):
        self.dir = core.scratch_dir("c08")
        os.chmod(self.dir, 0o755)
        self.root_fd = os.open("/", os.O_RDONLY)
        self.cwd = os.getcwd()
        self.inside = False

    def enter(self):
        os.chroot(self.dir)
        os.chdir("/")
        self.inside = True

    def leave(self):
        if self.inside:
            os.fchdir(self.root_fd)
            os.chroot(".")
            os.chdir(self.cwd)
            self.inside = False

    def close(self):
        self.leave()
        os.close(self.root_fd)
        shutil.rmtree(self.dir, ignore_errors=True)


def wipe_root():
    """(inside the jail) remove everything below /"""
    for n in os.listdir("/"):
        p = "/" + n
        if os.path.isdir(p) and not os.path.islink(p):
            for dp, dns, fns in os.walk(p):
                try:
                    os.chmod(dp, 0o700)
                except OSError:
                    pass
            shutil.rmtree(p)
        else:
            os.unlink(p)


def world_setup():
    """(inside the jail) the fixed initial world of the hostile cases"""
    wipe_root()
    os.umask(0o022)
    os.makedirs("/o/vdir")
    os.makedirs("/p/q/ws/old")
    def wr(p, data, mode):
        with open(p, "wb") as f:
            f.write(data)
        os.chmod(p, mode)
    wr("/o/victim", b"precious\n", 0o600)
    wr("/o/vdir/inner", b"inner", 0o644)
    os.chmod("/o/vdir", 0o750)
    wr("/o/hl1", b"linked", 0o644)
    os.link("/o/hl1", "/o/hl2")
    os.symlink("victim", "/o/lnk")
    wr("/p/victim2", b"v2", 0o640)
    wr("/p/q/sibling", b"sib", 0o644)
    wr("/p/q/ws/old/stale", b"stale", 0o644)
    os.symlink("../../../o", "/p/q/ws/old/esc")
    wr(AUDIT, b"old audit", 0o644)
    wr("/victim", b"root victim", 0o644)
    for dp, dns, fns in os.walk("/"):
        for n in dns + fns:
            p = os.path.join(dp, n)
            if not os.path.islink(p):
                os.utime(p, (1000, 1000))
    os.utime("/", (1000, 1000))


def snapshot(top="/"):
    """(inside the jail) path -> entry dict, everything below top (top itself as '')"""
    out = {}
    def ent(p):
        st = os.lstat(p)
        e = {"perm": stat.S_IMODE(st.st_mode), "ino": (st.st_dev, st.st_ino), "nlink": st.st_nlink,
             "mtime": int(st.st_mtime), "uid": st.st_uid, "gid": st.st_gid}
        if stat.S_ISDIR(st.st_mode):
            e["kind"] = "dir"
        elif stat.S_ISREG(st.st_mode):
            e["kind"] = "reg"
            with open(p, "rb") as f:
                e["data"] = f.read()
        elif stat.S_ISLNK(st.st_mode):
            e["kind"] = "sym"
            e["data"] = os.readlink(os.fsencode(p))
        elif stat.S_ISFIFO(st.st_mode):
            e["kind"] = "fifo"; e["data"] = b""
        elif stat.S_ISCHR(st.st_mode):
            e["kind"] = "chr"; e["data"] = struct.pack("<L", st.st_rdev)
        elif stat.S_ISBLK(st.st_mode):
            e["kind"] = "blk"; e["data"] = struct.pack("<L", st.st_rdev)
        else:
            e["kind"] = "other"; e["data"] = b""
        return e
    def walk(d):
        try:
            names = sorted(os.listdir(d), key=os.fsencode)
        except OSError:
            names = []
        for n in names:
            p = os.path.join(d, n)
            e = ent(p)
            out[p] = e
            if e["kind"] == "dir":
                old = None
                if not os.access(p, os.R_OK | os.X_OK):
                    old = e["perm"]
                walk(p)
    walk(top)
    return out


def allowed(p):
    return p == AUDIT or p == WS or p.startswith(WS + "/")


def outside_view(snap):
    """what the confinement statement is about: everything but workspace and audit file.
    nlink, owner, mtime and mode included; directory mtimes excluded for the two
    directories that legitimately get/lose entries (parents of workspace and audit)."""
    v = {}
    for p, e in snap.items():
        if allowed(p):
            continue
        t = (e["kind"], e["perm"], e.get("data"), e["nlink"], e["uid"], e["gid"],
             None if (e["kind"] == "dir" and p == os.path.dirname(WS)) else e["mtime"])
        v[p] = t
    return v


def diff_outside(a, b):
    ch = []
    for p in sorted(set(a) | set(b)):
        if p not in b:
            ch.append(("removed", p))
        elif p not in a:
            ch.append(("created", p))
        elif a[p] != b[p]:
            x, y = a[p], b[p]
            if x[0] != y[0] or x[2] != y[2]:
                ch.append(("content", p))
            elif x[3] != y[3]:
                ch.append(("nlink", p))
            else:
                ch.append(("attrs", p))
    return ch


# ------------------------------------------------------------------ artifacts
def fsenc(s):
    return os.fsencode(s) if isinstance(s, str) else s


def build_tgz(pax, members, fmt=tarfile.PAX_FORMAT):
    """members: list of dicts name/kind/link/mode/data(bytes)"""
    buf = io.BytesIO()
    hdr = {} if pax is None else {"bob-archive-vsn": pax}
    with gzip.GzipFile(fileobj=buf, mode="wb", mtime=0) as gz:
        with tarfile.open(None, "w", fileobj=gz, format=fmt, pax_headers=hdr if fmt == tarfile.PAX_FORMAT else None) as tar:
            for m in members:
                ti = tarfile.TarInfo(m["name"])
                ti.type = KINDS[m["kind"]]
                ti.linkname = m.get("link", "")
                ti.mode = m.get("mode", 0o644)
                ti.mtime = 42
                data = m.get("data", b"") if m["kind"] == "reg" else b""
                ti.size = len(data)
                if m["kind"] in DEVNUM:
                    ti.devmajor, ti.devminor = DEVNUM[m["kind"]]
                tar.addfile(ti, io.BytesIO(data) if m["kind"] == "reg" else None)
    return buf.getvalue()


TYPE_KIND = {v: k for k, v in KINDS.items()}


def decode_tgz(tgz):
    """what tarfile delivers for these bytes (the model starts from decoded member lists):
    (pax version value or None, members, clean end of stream) or None when the header cannot be read"""
    members = []
    try:
        tar = tarfile.open(None, "r|*", fileobj=io.BytesIO(tgz))
    except Exception:
        return None
    pax = tar.pax_headers.get("bob-archive-vsn")
    ok = True
    try:
        while True:
            ti = tar.next()
            if ti is None:
                break
            kind = TYPE_KIND.get(ti.type, "reg")
            data = b""
            if kind == "reg":
                f = tar.extractfile(ti)
                data = f.read() if f is not None else b""
            members.append({"name": ti.name, "kind": kind, "link": ti.linkname, "mode": ti.mode, "data": data,
                            "dev": (ti.devmajor, ti.devminor)})
    except Exception:
        ok = False
    finally:
        try:
            tar.close()
        except Exception:
            pass
    return pax, members, ok


def impl_extract(tgz):
    """(inside the jail) the real TarHelper._extract; outcome, exception class"""
    from bob.archive import TarHelper
    from bob.errors import BuildError
    try:
        TarHelper()._extract(io.BytesIO(tgz), AUDIT, WS)
        return "extracted", None
    except BuildError as e:
        return "rejected", "BuildError"
    except Exception as e:
        return "rejected", type(e).__name__


def run_hostile(jail, case):
    """returns (outcome, exc, before, after)"""
    tgz = build_tgz(case["pax"], case["members"], tarfile.GNU_FORMAT if case.get("gnu") else tarfile.PAX_FORMAT)
    jail.enter()
    try:
        world_setup()
        before = snapshot()
        outcome, exc = impl_extract(tgz)
        after = snapshot()
    finally:
        jail.leave()
    return outcome, exc, before, after, decode_tgz(tgz)


# ------------------------------------------------------------------ Coq literals
def cpath(p):
    """'/a/b' -> [ [..]; [..] ]"""
    comps = [c for c in fsenc(p).split(b"/") if c]
    return L.lst([L.by(c) for c in comps]) if comps else "(@nil (list N))"


def cmember(m):
    if m["kind"] in DEVNUM:
        data = struct.pack("<L", os.makedev(*m.get("dev", DEVNUM[m["kind"]])))
    else:
        data = m.get("data", b"") if m["kind"] == "reg" else b""
    return "(mkMember %s %s %s %d %s)" % (L.by(fsenc(m["name"])), COQ_KIND[m["kind"]], L.by(fsenc(m.get("link", ""))),
                                          m.get("mode", 0o644), L.by(data))


def cartifact(pax, members, tail_ok=True):
    return "(mkArtifact %s %s %s)" % ("None" if pax is None else "(Some %s)" % L.by(pax.encode()),
                                      L.lst([cmember(m) for m in members]) if members else "(@nil member)", L.B(tail_ok))


COQ_IKIND = {"reg": "KReg", "sym": "KSym", "fifo": "KFifo", "chr": "KChr", "blk": "KBlk"}


def cfs(snap, top_perm=0o755):
    """snapshot -> fsys literal (tree + inode table)"""
    inos = {}
    table = []
    children = {}
    for p in snap:
        children.setdefault(os.path.dirname(p), []).append(p)
    def node(p):
        e = snap[p]
        if e["kind"] == "dir":
            return "(TDir %d %s)" % (e["perm"], entries(p))
        if e["ino"] not in inos:
            inos[e["ino"]] = len(inos) + 1
            table.append("(%d, mkInode %s %s %d)" % (inos[e["ino"]], COQ_IKIND[e["kind"]], L.by(e["data"]),
                                                     0o777 if e["kind"] == "sym" else e["perm"]))
        return "(TLeaf %d)" % inos[e["ino"]]
    def entries(d):
        cs = children.get(d, [])
        if not cs:
            return "(@nil (name * tree))"
        return L.lst(["(%s, %s)" % (L.by(fsenc(os.path.basename(c))), node(c)) for c in cs])
    root = "(TDir %d %s)" % (top_perm, entries("/"))
    return "(mkFs %s %s %d)" % (root, L.lst(table) if table else "(@nil (N * inode))", len(inos) + 1)


def clisting(snap, only=None):
    """snapshot -> list (path * xent); hard-link groups by representative path"""
    rep = {}
    for p in sorted(snap, key=fsenc):
        e = snap[p]
        if e["kind"] != "dir":
            rep.setdefault(e["ino"], p)
    out = []
    for p in sorted(snap, key=fsenc):
        if only is not None and not only(p):
            continue
        e = snap[p]
        if e["kind"] == "dir":
            out.append("(%s, XDir %d)" % (cpath(p), e["perm"]))
        else:
            out.append("(%s, XLeaf %s %s %d %s)" % (cpath(p), COQ_IKIND[e["kind"]], L.by(e["data"]), e["perm"], cpath(rep[e["ino"]])))
    return L.lst(out) if out else "(@nil (path * xent))"


def counts(snap):
    return len(snap), len(set(e["ino"] for e in snap.values() if e["kind"] != "dir"))


PREAMBLE = r"""
Inductive xent := XDir (mode : N) | XLeaf (k : ikind) (data : str) (mode : N) (rep : path).
Definition ikind_eqb (a b : ikind) : bool :=
  match a, b with KReg, KReg | KSym, KSym | KFifo, KFifo | KChr, KChr | KBlk, KBlk => true | _, _ => false end.
Definition check_ent (fs : fsys) (e : path * xent) : bool :=
  match e with
  | (p, XDir m) => match stat fs p with Some (SDir m') => m =? m' | _ => false end
  | (p, XLeaf k d m rep) =>
    match stat fs p, stat fs rep with
    | Some (SLeaf i), Some (SLeaf j) =>
      (i =? j) && match inode_of fs i with
                  | Some (mkInode k' d' m') => ikind_eqb k k' && eqb_str d d' && (ikind_eqb k KSym || (m =? m'))
                  | None => false
                  end
    | _, _ => false
    end
  end.
Fixpoint tree_size (t : tree) : N :=
  match t with
  | TLeaf _ => 1
  | TDir _ es => 1 + (fix go (es : list (name * tree)) : N := match es with [] => 0 | (_, c) :: r => tree_size c + go r end) es
  end.
Fixpoint tree_inos (t : tree) : list N :=
  match t with
  | TLeaf i => [i]
  | TDir _ es => (fix go (es : list (name * tree)) : list N := match es with [] => [] | (_, c) :: r => tree_inos c ++ go r end) es
  end.
Fixpoint memN (x : N) (l : list N) : bool := match l with [] => false | y :: r => (x =? y) || memN x r end.
Fixpoint distinct (l : list N) : N := match l with [] => 0 | x :: r => if memN x r then distinct r else 1 + distinct r end.
Definition outcome_eqb (a b : outcome) : bool := match a, b with Extracted, Extracted | Rejected, Rejected => true | _, _ => false end.
(* expected: outcome, listing of the whole jail, number of nodes, number of distinct inodes *)
Definition check_fs (fs : fsys) (lst : list (path * xent)) (n d : N) : bool :=
  forallb (check_ent fs) lst && (tree_size (f_root fs) =? 1 + n) && (distinct (tree_inos (f_root fs)) =? d).
Definition check_extract (r : fsys * outcome * bool) (e : outcome * list (path * xent) * N * N) : bool :=
  match e with (o, lst, n, d) => outcome_eqb (snd (fst r)) o && check_fs (fst (fst r)) lst n d end.
"""


# ------------------------------------------------------------------ hostile grammar
SAFE_NAMES = ["a", "b", "d", "d/e", "d/e/f", "d/e/f/g", "x", "h", "s", "s2", "victim", "o", "o/victim", "é", "sp ace", "$(x)", ".git",
              "d1/d2/d3/s", "d/e/s", "etc/passwd"]
TRAVERSAL_NAMES = ["s/x", "s/victim", "s/vdir/inner", "s/o/victim", "s2/x", "s/hl1", "s/new/deep", "h/x", "d/s/x",
                   "../x", "../sibling", "a/../../sibling", "../../../o/victim", "s/../x", "s/planted/../q/ws/x",
                   "s/planted/../p/q/ws/x", "d/../x", "/abs", "/o/victim", "//o/victim", "/p/q/ws/x", "", "/", ".", "./a", "d/./e//f",
                   "a/", "d/e/", "s/", "s/.", "x/y"]
SYM_TARGETS = ["a", "d", "d/e", "x", "nowhere", ".", "..", "../..", "../../..", "../../../..", "../../../o", "../../../o/victim",
               "../sibling", "../audit.json.gz", "/o", "/o/victim", "/o/vdir", "/", "/p/q/ws", "/p/q/ws/d", "/victim",
               "s", "s2", "h", "../../../victim", "../../../../../../victim", "../../x", "d/../..", "/p/q", "é", "/o/lnk", "../../../o/lnk"]
LNK_TARGETS = ["content/a", "content/x", "content/s", "content/s2", "content/d", "content/h", "content/nothing", "content/s/victim",
               "content/s/hl1", "content/d1/d2/d3/s", "content/d/e/s", "content/../../../o/victim", "content/../sibling",
               "content/../audit.json.gz", "content//o/victim", "content//victim", "content//p/q/ws/a", "../../../o/victim", "/o/victim",
               "a", "content/", "content/.", "content/a/../x", "meta/audit.json.gz", "content/é"]
UNKNOWN_TOP = ["evil", "contentx", "content2/x", "meta/other", "metadata", "/etc/passwd", "../x", "Content/a", "meta/audit.json.gz/x", ""]
MODES = [0o644, 0o755, 0o600, 0o444, 0o4755, 0o777, 0o0, 0o2750, 0o1777]
AUDIT_M = {"name": "meta/audit.json.gz", "kind": "reg", "data": b"AUDIT", "mode": 0o644}


def C(name):
    return "content/" + name


def gen_member(rng, hot):
    r = rng.random()
    nm = rng.choice(TRAVERSAL_NAMES) if rng.random() < hot else rng.choice(SAFE_NAMES)
    mode = rng.choice(MODES)
    if r < 0.30:
        return {"name": C(nm), "kind": "reg", "data": rng.choice([b"", b"owned\n", b"hello", bytes([rng.randrange(256) for _ in range(rng.randint(1, 12))])]), "mode": mode}
    if r < 0.45:
        return {"name": C(nm), "kind": "dir", "mode": rng.choice([0o755, 0o700, 0o555, 0o777, 0o1777, 0o4755])}
    if r < 0.68:
        return {"name": C(nm), "kind": "sym", "link": rng.choice(SYM_TARGETS), "mode": 0o777}
    if r < 0.88:
        return {"name": C(nm), "kind": "lnk", "link": rng.choice(LNK_TARGETS), "mode": mode}
    if r < 0.93:
        return {"name": C(nm), "kind": rng.choice(["fifo", "chr", "blk"]), "mode": rng.choice([0o644, 0o600, 0o666])}
    if r < 0.96:
        return {"name": rng.choice(UNKNOWN_TOP), "kind": rng.choice(["reg", "dir", "sym"]), "data": b"u", "link": "x", "mode": 0o644}
    if r < 0.98:
        return {"name": rng.choice(["content", "meta", "content/", "meta/"]), "kind": "dir", "mode": 0o755}
    return dict(AUDIT_M, data=rng.choice([b"AUDIT", b"second", b""]), kind=rng.choice(["reg", "reg", "dir", "sym"]), link="x")


TEMPLATES = [
    # symlink then write through it
    lambda r: [dict(name=C("s"), kind="sym", link=r.choice(["../../../o", "/o", "../..", "/", "../../../o/vdir"])),
               dict(name=C(r.choice(["s/x", "s/victim", "s/inner", "s/o/victim", "s/new/deep/x"])), kind=r.choice(["reg", "dir", "fifo", "sym"]), data=b"owned\n", link="/o/victim", mode=0o777)],
    lambda r: [dict(name=C("s"), kind="sym", link=r.choice(["../../../o/victim", "/o/victim", "../sibling", "../audit.json.gz", "/victim", "../../../../../victim"])),
               dict(name=C("s"), kind=r.choice(["reg", "dir", "reg"]), data=b"owned\n", mode=0o4777)],
    # symlink then hard link through it, then write
    lambda r: [dict(name=C("s"), kind="sym", link=r.choice(["../../../o", "/o"])),
               dict(name=C("h"), kind="lnk", link=C(r.choice(["s/victim", "s/hl1", "s/vdir/inner"])), mode=0o666),
               dict(name=C("h"), kind="reg", data=b"owned\n", mode=0o666)],
    # F2: hard link to the outside, relative / absolute, with / without prefix
    lambda r: [dict(name=C("x"), kind="lnk", link=r.choice(["content/../../../o/victim", "content//o/victim", "../../../o/victim", "/o/victim",
                                                             "content/../sibling", "content//victim", "content/../../victim2"]), mode=0o666),
               dict(name=C("x"), kind="reg", data=b"owned\n", mode=0o666)],
    # hard link to a symlink that resolves differently from the new place (f10), both variants
    lambda r: [dict(name=C("victim"), kind="reg", data=b"in", mode=0o644)] * r.choice([0, 1]) +
              [dict(name=C("d1/d2/d3/s"), kind="sym", link=r.choice(["../../../victim", "../../../../../../o/victim", "../../../../sibling"])),
               dict(name=C("h"), kind="lnk", link=C("d1/d2/d3/s"), mode=0o4777)],
    lambda r: [dict(name=C("d/e/o/victim"), kind="reg", data=b"in", mode=0o644)] * r.choice([0, 1]) +
              [dict(name=C("d/e/s"), kind="sym", link="../../../../../o/victim"),
               dict(name=C("h"), kind="lnk", link=C("d/e/s"), mode=0o777)],
    # hard link over an existing name (link() fails -> tarfile searches the archive)
    lambda r: [dict(name=C("a"), kind="reg", data=b"aa"), dict(name=C("h"), kind=r.choice(["reg", "dir", "sym"]), data=b"hh", link="../../../o/victim"),
               dict(name=C("h"), kind="lnk", link=C(r.choice(["a", "./a", "s", "nothing"])), mode=0o4777)],
    # '..' behind a missing component (f11)
    lambda r: [dict(name=C("s"), kind="sym", link=r.choice(["../../..", "/", "../..", "../../../o"])),
               dict(name=C(r.choice(["s/planted/../p/q/ws/x", "s/planted/../q/ws/x", "s/planted/../ws/x", "s/planted/../vdir/../../p/q/ws/x"])), kind=r.choice(["reg", "dir"]), data=b"x")],
    # re-enter the workspace through an absolute link
    lambda r: [dict(name=C("s"), kind="sym", link="/"), dict(name=C("s/p/q/ws/in"), kind="reg", data=b"fine"),
               dict(name=C("s/o/victim"), kind="reg", data=b"owned\n")],
    # devices / fifos
    lambda r: [dict(name=C(r.choice(["p", "../p", "s/p"])), kind=r.choice(["fifo", "chr", "blk"]), mode=0o666)],
    # symlink loops
    lambda r: [dict(name=C("s"), kind="sym", link=r.choice(["s", "s2", "s/x"])), dict(name=C("s2"), kind="sym", link="s"),
               dict(name=C(r.choice(["s", "s/x", "s2"])), kind=r.choice(["reg", "dir", "sym", "lnk"]), data=b"q", link=r.choice(["x", C("s")]))],
    # replace things by other kinds
    lambda r: [dict(name=C("a"), kind=r.choice(["reg", "dir", "sym", "fifo"]), data=b"1", link="x"),
               dict(name=C("a"), kind=r.choice(["reg", "dir", "sym", "fifo", "lnk"]), data=b"2", link=r.choice(["../../../o/victim", C("a"), C("x")]), mode=0o600)],
    # chmod of outside directory through a directory member
    lambda r: [dict(name=C("s"), kind="sym", link=r.choice(["../../../o/vdir", "..", "../../../o"])), dict(name=C("s"), kind="dir", mode=0o777)],
    # the workspace itself
    lambda r: [dict(name=r.choice(["content/", "content//", "content/."]), kind=r.choice(["dir", "sym", "reg", "lnk"]), link=r.choice([".", C("a"), "/o"]), mode=0o700, data=b"z")],
]


def gen_hostile(rng):
    pax = "1"
    members = []
    r = rng.random()
    if r < 0.55:
        members = [dict(m) for m in rng.choice(TEMPLATES)(rng)]
        for m in members:
            m.setdefault("mode", 0o644)
        # interleave random members
        for _ in range(rng.choice([0, 0, 1, 2])):
            members.insert(rng.randint(0, len(members)), gen_member(rng, 0.3))
    else:
        n = rng.choice([1, 2, 2, 3, 3, 4, 5, 7])
        hot = rng.choice([0.1, 0.4, 0.8])
        members = [gen_member(rng, hot) for _ in range(n)]
    # audit: present first / last / middle / missing / duplicated
    a = rng.random()
    if a < 0.7:
        members.insert(0, dict(AUDIT_M))
    elif a < 0.8:
        members.append(dict(AUDIT_M))
    elif a < 0.88:
        members.insert(rng.randint(0, len(members)), dict(AUDIT_M))
    elif a < 0.93:
        members.insert(0, dict(AUDIT_M)); members.append(dict(AUDIT_M, data=b"second"))
    if rng.random() < 0.15:
        members.insert(rng.randint(0, len(members)), {"name": rng.choice(["content", "meta"]), "kind": "dir", "mode": 0o755})
    if rng.random() < 0.08 and members:
        members.insert(rng.randint(0, len(members)), dict(rng.choice(members)))     # duplicate member
    v = rng.random()
    gnu = False
    if v < 0.06:
        pax = rng.choice([None, "0", "2", "1 ", "", "01"])
    elif v < 0.08:
        gnu = True
    case = {"pax": pax, "members": members}
    if gnu:
        case["gnu"] = True
        case["pax"] = None
    return case


def modelable(case):
    """inputs outside the modelled fragment of tarfile (kept on the implementation side for the oracle)"""
    for m in case["members"]:
        if m["kind"] in ("sym", "lnk") and m.get("link", "") == "":
            return False
        if case.get("gnu") and len(fsenc(m["name"])) > 99:
            return False
    return True


def hangs(case):
    """a regular member written over a fifo blocks in open(); do not run those"""
    fifo_names = set()
    for m in case["members"]:
        n = os.path.normpath("/" + m["name"])
        if m["kind"] == "fifo":
            fifo_names.add(n)
    if not fifo_names:
        return False
    # conservative: any fifo together with a regular/hard-link/audit member after it, or symlinks around
    seen = False
    for m in case["members"]:
        if m["kind"] == "fifo":
            seen = True
        elif seen and m["kind"] in ("reg", "lnk"):
            return True
    return False


def signature(changes, members):
    cls = sorted(set(c for c, _ in changes))
    kinds = sorted(set(m["kind"] for m in members if m["name"].startswith("content/")))
    dd = any(".." in m["name"].split("/") for m in members)
    return "outside-%s:%s%s" % ("+".join(cls), ",".join(kinds), "+dotdot-name" if dd else "")


def json_case(case):
    return {"pax": case["pax"], "gnu": bool(case.get("gnu")),
            "members": [dict(name=m["name"], kind=m["kind"], link=m.get("link", ""), mode=m.get("mode", 0o644),
                             data=base64.b64encode(m.get("data", b"")).decode()) for m in case["members"]]}


def unjson_case(c):
    return {"pax": c["pax"], "gnu": c.get("gnu", False),
            "members": [dict(name=m["name"], kind=m["kind"], link=m.get("link", ""), mode=m.get("mode", 0o644),
                             data=base64.b64decode(m.get("data", ""))) for m in c["members"]]}


def shrink_members(case, fails):
    ms = list(case["members"])
    changed = True
    while changed:
        changed = False
        for i in range(len(ms)):
            cand = ms[:i] + ms[i + 1:]
            c2 = dict(case, members=cand)
            if cand and fails(c2):
                ms = cand
                changed = True
                break
    return dict(case, members=ms)


def hostile_part(ctx, jail, cases):
    """run cases on the implementation (oracle) and collect the Coq cases"""
    coq_cases = []
    meta = []
    fs0 = None
    out0 = None
    for case in cases:
        if hangs(case):
            ctx.count("hostile:skipped-fifo-write")
            continue
        outcome, exc, before, after, dec = run_hostile(jail, case)
        ctx.evaluated()
        ctx.count("hostile:" + outcome + (":" + exc if exc else ""))
        for m in case["members"]:
            ctx.count("member:" + m["kind"])
        if len(case["members"]) >= 2:
            ctx.nontrivial(("hostile", json.dumps(json_case(case), sort_keys=True)))
        if fs0 is None:
            fs0 = cfs(before)
            out0 = outside_view(before)
        ch = diff_outside(outside_view(before), outside_view(after))
        if ch:
            def fails(c2):
                o2, e2, b2, a2, _ = run_hostile(jail, c2)
                return bool(diff_outside(outside_view(b2), outside_view(a2)))
            small = shrink_members(case, fails)
            o2, e2, b2, a2, _ = run_hostile(jail, small)
            ch2 = diff_outside(outside_view(b2), outside_view(a2))
            ctx.violation(signature(ch2, small["members"]),
                          "extraction changed the file system outside workspace and audit file: %r (outcome %s)" % (ch2, o2),
                          {"kind": "hostile", "case": json_case(small), "changes": ch2, "original": json_case(case)})
        if outcome == "extracted":
            # an accepted hostile artifact must at least have an audit file and only classified members
            if AUDIT not in after and any(m["name"] == "meta/audit.json.gz" for m in case["members"]):
                ctx.violation("audit-member-not-written", "audit member present but no audit file after extraction", {"kind": "hostile", "case": json_case(case)})
        if len(ctx.cov["samples"]) < 4:
            ctx.sample({"hostile": json_case(case), "impl": outcome, "exception": exc})
        if not modelable(case):
            ctx.count("hostile:not-modelled")
            continue
        n, d = counts(after)
        exp = "(%s, %s, %d, %d)" % ("Extracted" if outcome == "extracted" else "Rejected", clisting(after), n, d)
        if dec is None:
            ctx.count("hostile:undecodable")
            continue
        coq_cases.append((cartifact(dec[0], dec[1], dec[2]), exp))
        meta.append({"case": json_case(case), "impl": outcome, "exception": exc})
    return coq_cases, meta, fs0


def eval_hostile(ctx, coq_cases, meta, fs0, tag):
    if not coq_cases:
        return
    pre = PREAMBLE + "Definition fs0 : fsys := %s.\nDefinition AUDITP : path := %s.\nDefinition DEST : path := %s.\n" % (fs0, cpath(AUDIT), cpath(WS))
    bad, log = coq.run_cases(ctx, ["BobV.C08.Model"], "(fun a => bob_extract %d%%nat fs0 AUDITP DEST a)" % FUEL, "check_extract",
                             coq_cases, preamble=pre, tag=tag, shard=150)
    if bad is None:
        ctx.tie_broken("C08 model evaluation failed (%s)" % tag, log)
        return
    ctx.validated(len(coq_cases) - len(bad))
    for i in bad[:8]:
        ctx.tie_broken("extract-correspondence", meta[i])
    if bad:
        ctx.count("hostile:model-mismatch", len(bad))


# ------------------------------------------------------------------ main
def load_corpus():
    out = []
    for p in sorted(glob.glob(os.path.join(core.VERIF, "corpus", "C08", "*.json"))):
        with open(p) as f:
            d = json.load(f)
        d["_file"] = os.path.basename(p)
        out.append(d)
    return out


def preload():
    """import everything the implementation needs before the first chroot"""
    import bob.archive, bob.utils, bob.errors, bob.audit, bob.tty       # noqa
    import encodings.idna, encodings.utf_8, encodings.latin_1, encodings.ascii   # noqa
    import pwd, grp, zlib, bz2, lzma, pickle, platform                  # noqa
    platform.uname()
    d = core.scratch_dir("c08w")
    try:
        from bob.archive import TarHelper
        os.makedirs(d + "/c/x")
        with open(d + "/c/x/f", "w") as f:
            f.write("1")
        with open(d + "/audit.json.gz", "w") as f:
            f.write("a")
        TarHelper()._pack(d + "/t.tgz", None, d + "/audit.json.gz", d + "/c")
        with open(d + "/t.tgz", "rb") as f:
            TarHelper()._extract(f, d + "/a2", d + "/c2")
    finally:
        shutil.rmtree(d, ignore_errors=True)


def run(ctx):
    rng = ctx.rng
    ctx.rule = ("(A) hostile member lists from attack templates (symlink-then-write, hard links to/through the outside, '..', absolute, "
                "devices, loops, unknown entries, audit placement, pax version) mixed with random members; (B) random trees with all "
                "supported file kinds; (C) every/sampled truncation and bit flips of real artifacts; a case is non-trivial when the "
                "artifact has >= 2 members / the tree >= 3 entries / the corruption changes the byte stream; distinct by content")
    ctx.assumptions += [
        "tar and gzip codecs are CPython's (modelled at the level of decoded member lists); bit-flip detection before the hash check is zlib's CRC",
        "kernel path resolution, open/link/symlink/mkdir/chmod semantics as modelled in C08/Model.v (MAXSYMLINKS, owner and time stamps not modelled); validated against the real kernel on every generated case",
        "confinement theorem assumes that no symbolic link exists outside workspace and audit file before extraction (outside links that lead back into the workspace are not excluded by the code)",
        "runs as root inside a chroot jail; a regular member written over an extracted fifo blocks in open() and is not executed",
        "SHA-1 is a parameter H of hash_dir; no injectivity assumed",
    ]
    if os.geteuid() != 0:
        ctx.tie_broken("harness", "C08 needs root (chroot jail, device nodes)")
        return
    preload()
    if ctx.replay:
        return replay(ctx)
    jail = Jail()
    try:
        corpus = [unjson_case(c["case"]) for c in load_corpus() if c.get("kind") == "hostile"]
        n = ctx.n(900, 12000)
        cases = corpus + [gen_hostile(rng) for _ in range(n)]
        cc, meta, fs0 = hostile_part(ctx, jail, cases)
    finally:
        jail.close()
    eval_hostile(ctx, cc, meta, fs0, "host")


def replay(ctx):
    with open(ctx.replay) as f:
        d = json.load(f)
    c = d.get("case", d)
    if c.get("kind") == "hostile":
        jail = Jail()
        try:
            cc, meta, fs0 = hostile_part(ctx, jail, [unjson_case(c["case"])])
        finally:
            jail.close()
        print("replayed hostile case: %s" % (meta[0] if meta else "not modelled"))
        eval_hostile(ctx, cc, meta, fs0, "replay")
