"""C20 — Jenkins job graph is acyclic, complete and faithful.

Per generated recipe project (written to a scratch directory and parsed by the
real bob.input.RecipeSet in-process):

  implementation   bob.cmds.jenkins.jenkins.genJenkinsJobs / genJenkinsBuildOrder, run untouched;
                   the AbstractJob objects and the JobNameCalculator it creates are recorded by
                   harness subclasses installed into the module for the duration of the call
  Coq model        BobV.C20.Model.run on the step graph extracted from the same project through the
                   public Step API (vm_compute)
  oracle           the property statement evaluated on the implementation's result, independent of
                   the model (unique names, acyclic, every needed variant in exactly one job, upstream
                   jobs of all dependencies, embedded job specification reproduces the live steps)
"""
import base64, glob, json, lzma, os, re, shutil, sys, traceback
from vlib import coq, core, coqlit as L

PROPERTY_FILES = ["C20/Properties.v"]

SIG_F4 = "jenkins-internal-name-collision"
SIG_UNNAMED = "jenkins-unnamed-dependency-variant"
SIG_F13 = "jenkins-jobs-cyclic-without-collision"


# ---------------------------------------------------------------------------------------------
# projects on disk

def write_project(root, proj):
    import yaml
    os.makedirs(os.path.join(root, "recipes"), exist_ok=True)
    with open(os.path.join(root, "config.yaml"), "w") as f:
        yaml.safe_dump(proj.get("config") or {"bobMinimumVersion": "0.25"}, f)
    for name, body in proj["recipes"].items():
        p = os.path.join(root, "recipes", *name.split("::")) + ".yaml"
        os.makedirs(os.path.dirname(p), exist_ok=True)
        with open(p, "w") as f:
            yaml.safe_dump(body, f, default_flow_style=False, sort_keys=False)
    for name, body in (proj.get("classes") or {}).items():
        p = os.path.join(root, "classes", name + ".yaml")
        os.makedirs(os.path.dirname(p), exist_ok=True)
        with open(p, "w") as f:
            yaml.safe_dump(body, f, default_flow_style=False, sort_keys=False)


class Quiet:
    """silence the policy notices Bob prints while parsing"""
    def __enter__(self):
        self.out, self.err = sys.stdout, sys.stderr
        self.null = open(os.devnull, "w")
        sys.stdout = sys.stderr = self.null
        return self

    def __exit__(self, *a):
        sys.stdout, sys.stderr = self.out, self.err
        self.null.close()


# ---------------------------------------------------------------------------------------------
# implementation side

def step_label(step):
    return "src" if step.isCheckoutStep() else ("build" if step.isBuildStep() else "dist")


def step_key(step):
    return ("/".join(step.getPackage().getStack()), step_label(step))


class Unencodable(Exception):
    pass


def extract_graph(rootSteps, isolate_rx):
    """Walk the live Step objects through the public API and produce the model input.
    Returns dict(steps=[...], roots=[idx...], vids={bytes: N}, keys=[(stack,label)...])."""
    from bob.cmds.jenkins.intermediate import getJenkinsVariantId
    nodes = {}      # key -> dict
    order = []      # keys, dependencies first

    def visit(step):
        k = step_key(step)
        if k in nodes:
            return k
        nodes[k] = None     # sentinel (the instance graph is a DAG)
        args = step.getArguments()
        tools = [t.getStep() for _n, t in sorted(step.getTools().items())]
        sbx = step.getSandbox()
        sbxStep = sbx.getStep() if sbx is not None else None
        alld = step.getAllDepSteps()
        mine = args + tools + ([sbxStep] if sbxStep is not None else [])
        if [step_key(s) for s in alld] != [step_key(s) for s in mine]:
            raise Unencodable("getAllDepSteps() is not arguments + sorted tools + sandbox for %r" % (k,))
        ak = [visit(s) for s in args]
        tk = [visit(s) for s in tools]
        sk = visit(sbxStep) if sbxStep is not None else None
        pk = visit(step.getPackage().getPackageStep())
        pkg = step.getPackage()
        nodes[k] = {"key": k, "kind": step_label(step), "jvid": getJenkinsVariantId(step), "pkgstep": pk,
                    "name": pkg.getName(), "recipe": pkg.getRecipe().getName(),
                    "isolate": bool(isolate_rx.search(pkg.getName())) if isolate_rx is not None else False,
                    "valid": bool(step.isValid()), "args": ak, "tools": tk, "sandbox": sk, "step": step}
        order.append(k)
        return k

    rootKeys = [visit(s) for s in rootSteps]
    # the package step of a package may only be entered through visit(getPackageStep()) of one of its own
    # steps while that step is still open: make sure every node is complete
    for k in order:
        assert nodes[k] is not None
    # topological indices: dependencies first; a non-package step precedes its package step because the
    # package step (transitively) depends on it -- except when it was reached from elsewhere first
    index = {}
    final = []

    def place(k):
        if k in index:
            return
        index[k] = -1
        n = nodes[k]
        for d in n["args"] + n["tools"] + ([n["sandbox"]] if n["sandbox"] else []):
            place(d)
        index[k] = len(final)
        final.append(k)
    for k in order:
        place(k)
    # variant ids: package steps even, topologically numbered over the union of all instances;
    # other steps odd
    pkgvid = {}
    vedges = {}

    def pdeps(k, acc):
        n = nodes[k]
        for d in n["args"] + n["tools"] + ([n["sandbox"]] if n["sandbox"] else []):
            if nodes[d]["kind"] == "dist":
                acc.append(d)
            else:
                pdeps(d, acc)
        return acc
    for k in final:
        n = nodes[k]
        if n["kind"] == "dist":
            vedges.setdefault(n["jvid"], set()).update(nodes[d]["jvid"] for d in pdeps(k, []))
    state = {}
    cyc = []

    def number(v):
        if state.get(v) == 2:
            return
        if state.get(v) == 1:
            cyc.append(v)       # instances of one variant depend on each other through different sandboxes
            return
        state[v] = 1
        for w in sorted(vedges.get(v, ())):
            number(w)
        state[v] = 2
        pkgvid[v] = 2 * (len(pkgvid) + 1)
    for k in final:
        if nodes[k]["kind"] == "dist":
            number(nodes[k]["jvid"])
    othervid = {}
    for k in final:
        n = nodes[k]
        if n["kind"] != "dist":
            if n["jvid"] in pkgvid:
                raise Unencodable("a non-package step has the variant id of a package step")
            othervid.setdefault(n["jvid"], 2 * len(othervid) + 1)
    stacks = {}
    steps = []
    for k in final:
        n = nodes[k]
        steps.append({
            "kind": n["kind"], "vid": pkgvid[n["jvid"]] if n["kind"] == "dist" else othervid[n["jvid"]],
            "pkgstep": index[n["pkgstep"]], "stack": stacks.setdefault(k[0], len(stacks)),
            "name": n["name"], "recipe": n["recipe"], "isolate": n["isolate"], "valid": n["valid"],
            "args": [index[d] for d in n["args"]], "tools": [index[d] for d in n["tools"]],
            "sandbox": index[n["sandbox"]] if n["sandbox"] else None})
    # the instances sanitize() discovers first (depth first over getAllDepSteps, memo on the variant id) and
    # the variant graph they span
    ref = {}

    def discover(k):
        n = nodes[k]
        if n["kind"] == "dist":
            if n["jvid"] in ref:
                return
            ref[n["jvid"]] = k
        for d in n["args"] + n["tools"] + ([n["sandbox"]] if n["sandbox"] else []):
            discover(d)
    for k in rootKeys:
        discover(k)
    redges = {v: set(nodes[d]["jvid"] for d in pdeps(k, [])) for v, k in ref.items()}
    rstate = {}
    rcyc = []

    def rvisit(v):
        if rstate.get(v) == 2:
            return
        if rstate.get(v) == 1:
            rcyc.append(v)
            return
        rstate[v] = 1
        for w in redges.get(v, ()):
            rvisit(w)
        rstate[v] = 2
    for v in list(redges):
        rvisit(v)
    return {"steps": steps, "roots": [index[k] for k in rootKeys], "pkgvid": pkgvid, "othervid": othervid,
            "vid_graph_cyclic": bool(cyc), "ref_graph_cyclic": bool(rcyc),
            "keys": final, "live": [nodes[k]["step"] for k in final]}


def run_impl(projdir, cfg, want_spec=True):
    """Run the real genJenkinsJobs on the project in `projdir` (cwd is switched there).
    Returns a dict: graph (model input), result (canonical, numbers instead of hashes), oracle findings."""
    import bob.cmds.jenkins.jenkins as J
    from bob.cmds.jenkins.intermediate import getJenkinsVariantId
    from bob.input import RecipeSet
    from bob.state import BobState, JenkinsConfig, finalize
    from bob.errors import BobError, ParseError
    from bob.utils import SandboxMode

    out = {"cfg": cfg}
    old = os.getcwd()
    os.chdir(projdir)
    recorded_jobs = []
    recorded_calcs = []
    origAJ, origCalc = J.AbstractJob, J.JobNameCalculator

    class RecJob(origAJ):
        __slots__ = []

        def __init__(self, *a, **kw):
            super().__init__(*a, **kw)
            recorded_jobs.append(self)

    class RecCalc(origCalc):
        def __init__(self, *a, **kw):
            super().__init__(*a, **kw)
            recorded_calcs.append(self)

    packages = None
    try:
        with Quiet():
            config = JenkinsConfig("http://localhost:1/", "c20c-20c2")
            config.roots = list(cfg["roots"])
            config.prefix = cfg.get("prefix", "")
            config.sandbox = SandboxMode(cfg.get("sandbox", "yes"))
            config.shortdescription = bool(cfg.get("short", False))

            def bad(msg):
                raise Unencodable("option rejected: " + msg)
            if cfg.get("isolate"):
                config.setOption("jobs.isolate", cfg["isolate"], bad)
            BobState().setAsynchronous()
            BobState().addJenkins("test", config)
            recipes = RecipeSet()
            recipes.defineHook('jenkinsNameFormatter', J.jenkinsNameFormatter)
            recipes.setConfigFiles([])
            # --- the unit under test, untouched
            J.AbstractJob, J.JobNameCalculator = RecJob, RecCalc
            try:
                try:
                    jobs = J.genJenkinsJobs(recipes, "test")
                    out["gen"] = "ok"
                except ParseError as e:
                    jobs = None
                    out["gen"] = "parse-error"
                    out["gen_msg"] = str(e)[:300]
                except BobError as e:
                    jobs = None
                    out["gen"] = "bob-error"
                    out["gen_msg"] = str(e)[:300]
                except Exception as e:
                    jobs = None
                    tb = traceback.extract_tb(e.__traceback__)
                    where = [f.name for f in tb if f.filename.endswith("jenkins.py") or "intermediate" in f.filename]
                    out["gen"] = "exception"
                    out["gen_exc"] = type(e).__name__
                    out["gen_where"] = where[-3:]
                    out["gen_msg"] = repr(e)[:200]
            finally:
                J.AbstractJob, J.JobNameCalculator = origAJ, origCalc
            if jobs is None:
                # genJenkinsJobs did not reach packages.close(): drop its frames so that the
                # package graph database is released before we open our own view
                import gc
                gc.collect()
            order = None
            if jobs is not None:
                try:
                    order = J.genJenkinsBuildOrder(jobs)
                    out["order"] = "ok"
                except ParseError as e:
                    out["order"] = "cyclic" if "cyclic" in str(e).lower() else "parse-error"
                    out["order_msg"] = str(e)[:300]
                except Exception as e:
                    out["order"] = "exception:" + type(e).__name__
            # --- our own view of the same package graph
            nameFormatter = recipes.getHook('jenkinsNameFormatter')
            cfg2 = BobState().getJenkinsConfig("test")
            try:
                packages = recipes.generatePackages(J.jenkinsNamePersister("test", nameFormatter, cfg2.uuid),
                                                    cfg2.sandbox.sandboxEnabled, cfg2.sandbox.stablePaths)
                rootPackages = []
                for r in cfg2.roots:
                    rootPackages.extend(packages.queryPackagePath(r))
            except BobError as e:
                # the project itself does not parse (missing tools, cyclic recipes, ...): not a case
                out["unparsable"] = True
                out["gen_msg"] = str(e)[:200]
                return out
            except AttributeError:
                if out["gen"] in ("parse-error", "bob-error"):   # RecipeSet.parse() itself failed
                    out["unparsable"] = True
                    return out
                raise
            if not rootPackages:
                out["unparsable"] = True
                return out
            isolate_rx = re.compile(cfg["isolate"]) if cfg.get("isolate") else None
            gr = extract_graph([p.getPackageStep() for p in rootPackages], isolate_rx)
            sroots = [p.getPackageStep() for p in sorted(rootPackages, key=lambda p: p.getName())]
            keyidx = {k: i for i, k in enumerate(gr["keys"])}
            gr["sroots"] = [keyidx[step_key(s)] for s in sroots]
            out["graph"] = {k: gr[k] for k in ("steps", "roots", "sroots")}
            out["vid_graph_cyclic"] = gr["vid_graph_cyclic"]
            out["ref_graph_cyclic"] = gr["ref_graph_cyclic"]
            out["npkgs"] = len(gr["pkgvid"])
            vnum = dict(gr["pkgvid"]); vnum.update(gr["othervid"])
            prefix = cfg.get("prefix", "")

            # --- canonical result of the implementation
            res = {}
            # abstract jobs: maximal package sets among the recorded AbstractJob objects
            live = [j for j in recorded_jobs if j.pkgs]
            sets = {}
            for j in live:
                sets.setdefault(frozenset(j.pkgs), j)
            maximal = [j for s, j in sets.items() if not any(s < t for t in sets)]
            try:
                res["abstract"] = sorted(
                    [sorted(vnum[v] for v in j.pkgs), sorted(vnum[v] for v in j.parents),
                     sorted(vnum[v] for v in j.childs)] for j in maximal)
            except KeyError:
                raise Unencodable("an AbstractJob refers to a variant id that is not reachable through the Step API")
            out["abstract_observed"] = bool(recorded_jobs)
            calc = recorded_calcs[-1] if recorded_calcs else None
            names = {}
            if calc is not None:
                for st, s in zip(gr["steps"], gr["live"]):
                    if st["kind"] != "dist":
                        continue
                    try:
                        d = calc.getJobDisplayName(s)
                        if not d.startswith(prefix):
                            raise Unencodable("display name does not start with the prefix")
                        names[st["vid"]] = (d[len(prefix):], calc.getJobInternalName(s))
                    except KeyError:
                        pass
            res["names"] = sorted([v, n[0]] for v, n in names.items())
            out["internal"] = {v: n[1] for v, n in names.items()}
            if jobs is not None:
                jl = []
                for name, jj in jobs.items():
                    disp = getattr(jj, "_JenkinsJob__displayName", None)
                    if disp is None:
                        raise Unencodable("JenkinsJob display name is not observable")
                    if jj.getName() != name:
                        raise Unencodable("jobs dict key differs from JenkinsJob.getName()")
                    jl.append([name, disp, bool(jj.isRoot()),
                               sorted(vnum[getJenkinsVariantId(s)] for s in jj.getCheckoutSteps()),
                               sorted(vnum[getJenkinsVariantId(s)] for s in jj.getBuildSteps()),
                               sorted(vnum[getJenkinsVariantId(s)] for s in jj.getPackageSteps()),
                               sorted(jj.getUpstreamJobs())])
                res["jobs"] = sorted(jl)
                res["cyclic"] = out.get("order") == "cyclic"
            out["result"] = res
            # --- the property statement on the implementation
            out["oracle"] = oracle(gr, jobs, order, out, names, maximal, vnum, want_spec)
            return out
    finally:
        try:
            if packages is not None:
                packages.close()
        except Exception:
            pass
        try:
            BobState().setSynchronous()
        except Exception:
            pass
        try:
            finalize()
        except Exception:
            pass
        os.chdir(old)


# ---------------------------------------------------------------------------------------------
# the property statement, evaluated on the implementation (independent of the Coq model)

def oracle(gr, jobs, order, out, names, maximal, vnum, want_spec):
    """Returns a list of (signature, what). Empty = the statement holds on this project."""
    from bob.cmds.jenkins.intermediate import getJenkinsVariantId
    bad = []
    steps = gr["steps"]
    # (1) unique names: two distinct abstract jobs (as left behind by sanitize) with one internal job name
    jobname = {}
    for j in maximal:
        ns = set()
        for v in j.pkgs:
            n = names.get(vnum[v])
            if n is not None:
                ns.add(n)
        if len(ns) > 1:
            bad.append(("abstract-job-with-two-names", "packages of one merged job got different names %r" % sorted(ns)))
        for n in ns:
            jobname.setdefault(n[1], []).append((n[0], sorted(vnum[v] for v in j.pkgs)))
    collisions = {k: v for k, v in jobname.items() if len(v) > 1}
    if collisions:
        # known finding F4 is about DIFFERENT job names that only the internal (sanitised) naming identifies
        # (lib / Lib, a.b / a_b); two distinct jobs with the very same name are another matter (seed C20-3)
        same = sorted(k for k, v in collisions.items() if len(set(d for d, _ in v)) < len(v))
        diff = sorted(k for k, v in collisions.items() if len(set(d for d, _ in v)) > 1)
        if diff:
            bad.append((SIG_F4, "distinct jobs %r all get the internal Jenkins job name %r" % (
                sorted(set(d for d, _ in collisions[diff[0]])), diff[0])))
        for k in same:
            # the pinned tree's counting suffix (q -> q-1, q-2 for the jobs of a split recipe) may hit the name of
            # another recipe (q-1): known, corpus f4_numbering_collision. Anything else is a different violation.
            numbered = re.match(r"^.+-[0-9]+$", k) is not None
            bad.append(("jenkins-job-name-not-unique" + (":counting-suffix-equals-other-name" if numbered else ""),
                        "%d distinct jobs (packages %r) are all named %r" % (len(collisions[k]), [pk for _, pk in collisions[k]], k)))
    if out["gen"] == "exception":
        if collisions:
            pass    # consequence of the collision (jobs merged by name): reported under the collision signature
        elif out.get("gen_exc") == "KeyError" and "getJobDisplayName" in (out.get("gen_where") or []):
            bad.append((SIG_UNNAMED, "genJenkinsJobs raised KeyError in getJobDisplayName: a dependency variant was never named by sanitize()"))
        else:
            bad.append(("jenkins-internal-exception:%s" % out.get("gen_exc"), "genJenkinsJobs raised %s in %s" % (out.get("gen_msg"), out.get("gen_where"))))
        return bad
    if out["gen"] != "ok":
        bad.append(("jenkins-genjobs-error", "genJenkinsJobs failed on a valid project: %s" % out.get("gen_msg")))
        return bad
    # (2) acyclic
    if out.get("order") != "ok":
        if collisions:
            pass    # jobs merged by name: reported under the collision signature
        elif out.get("order") == "cyclic" and out.get("ref_graph_cyclic"):
            # the package instances that sanitize() discovers first for each variant id already depend on each
            # other cyclically (one variant inside and outside of a sandbox whose image needs it)
            bad.append((SIG_F13, "genJenkinsBuildOrder: %s (no name collision; the first discovered instances of the "
                        "variants form a cycle through different sandboxes)" % out.get("order_msg")))
        elif out.get("order") == "cyclic":
            bad.append(("jenkins-jobs-cyclic-on-acyclic-variants", "genJenkinsBuildOrder: %s" % out.get("order_msg")))
        else:
            bad.append(("jenkins-build-order-error", "genJenkinsBuildOrder: %s" % out.get("order_msg", out.get("order"))))
    else:
        pos = {n: i for i, n in enumerate(order)}
        if sorted(order) != sorted(jobs):
            bad.append(("build-order-not-a-permutation", "order %r jobs %r" % (order, sorted(jobs))))
        for n, jj in jobs.items():
            for u in jj.getUpstreamJobs():
                if u not in pos or pos[u] >= pos[n]:
                    bad.append(("build-order-not-topological", "%s is built before its upstream job %s" % (n, u)))
    # (3) every needed variant is built by exactly one job that depends on the jobs of its dependencies
    where = {}      # interned vid of a package step -> [job names]
    for n, jj in jobs.items():
        for s in jj.getPackageSteps():
            where.setdefault(vnum[getJenkinsVariantId(s)], []).append(n)
    for v, ns in where.items():
        if len(ns) != 1 and not collisions:
            bad.append(("variant-in-several-jobs", "package variant %d is built by jobs %r" % (v, ns)))
    for r in gr["roots"]:
        if steps[r]["vid"] not in where:
            bad.append(("root-not-built", "root package %s is in no job" % steps[r]["name"]))
    keyidx = {k: i for i, k in enumerate(gr["keys"])}
    for n, jj in jobs.items():
        ups = set(jj.getUpstreamJobs())
        if n in ups and not collisions:
            bad.append(("job-depends-on-itself", n))
        for u in ups:
            if u not in jobs:
                bad.append(("upstream-job-missing", "%s -> %s" % (n, u)))
        for s in jj.getPackageSteps():
            i = keyidx.get(step_key(s))
            if i is None:
                bad.append(("built-package-not-reachable", "/".join(s.getPackage().getStack())))
                continue
            # the steps of this package instance
            todo = [i]
            own = []
            while todo:
                x = todo.pop()
                own.append(x)
                for d in steps[x]["args"]:
                    if steps[d]["kind"] != "dist" and steps[d]["valid"]:
                        todo.append(d)
            # all three steps must be in this job
            have = set(vnum[getJenkinsVariantId(t)] for t in list(jj.getCheckoutSteps()) + list(jj.getBuildSteps()) + list(jj.getPackageSteps()))
            for x in own:
                if steps[x]["vid"] not in have:
                    bad.append(("step-of-built-package-missing", "%s step of %s is not in job %s" % (steps[x]["kind"], steps[x]["name"], n)))
                deps = [d for d in steps[x]["args"] if steps[d]["kind"] == "dist" and steps[d]["valid"]]
                deps += steps[x]["tools"] + ([steps[x]["sandbox"]] if steps[x]["sandbox"] is not None else [])
                for d in deps:
                    dj = where.get(steps[d]["vid"])
                    if not dj:
                        bad.append(("dependency-not-built", "%s (needed by %s in job %s) is built by no job" % (steps[d]["name"], steps[x]["name"], n)))
                    elif dj[0] != n and dj[0] not in ups:
                        bad.append(("upstream-job-not-declared", "job %s builds %s but does not depend on job %s of %s" % (n, steps[x]["name"], dj[0], steps[d]["name"])))
                    elif dj[0] == n and not collisions:
                        bad.append(("dependency-in-same-job", "job %s builds %s and its dependency %s" % (n, steps[x]["name"], steps[d]["name"])))
    # (4) the embedded specification reproduces the live steps
    if want_spec:
        for n, jj in jobs.items():
            bad.extend(spec_roundtrip(n, jj, gr, keyidx))
    seen = set()
    uniq = []
    for s, w in bad:
        if s not in seen:
            seen.add(s)
            uniq.append((s, w))
    return uniq


def spec_roundtrip(name, jj, gr, keyidx):
    """The job specification embedded in the job (JenkinsJob.dumpJobSpec, decoded as bob _jexec does:
    a85 -> lzma -> json -> PartialIR.fromData) is compared getter by getter with the intermediate
    representation the originating project itself builds from (ExecutableStep.fromStep of the live step)."""
    from bob.cmds.jenkins.intermediate import PartialIR, getJenkinsVariantId
    from bob.cmds.build.build import ExecutableStep, LazyIR
    from bob.utils import runInEventLoop
    import hashlib
    bad = []
    try:
        blob = jj.dumpJobSpec()
        ir = PartialIR.fromData(json.loads(lzma.decompress(base64.a85decode(blob))))
        ir.scmAudit = {}
        roots = ir.getRoots()
    except Exception as e:
        return [("spec-not-decodable:" + type(e).__name__, "job %s: %r" % (name, e))]
    live = {getJenkinsVariantId(s): s for s in jj.getPackageSteps()}
    if sorted(getJenkinsVariantId(r) for r in roots) != sorted(live):
        bad.append(("spec-roots-differ", "job %s: roots of the spec are not the package steps of the job" % name))
        return bad

    async def vidcalc(ss):
        return [s.getVariantId() for s in ss]

    async def bidcalc(ss):
        return [hashlib.sha1(b"bid" + s.getVariantId() + s.getWorkspacePath().encode()).digest() for s in ss]

    def chk(path, what, x, y):
        if x != y:
            bad.append(("spec-differs:" + what, "job %s %s: %s spec=%r live=%r" % (name, path, what, x, y)))

    def cmp_light(a, b, path, own=False):
        """what a job needs to know about any step it refers to"""
        chk(path, "variantId", a.getVariantId(), b.getVariantId())
        chk(path, "isValid", a.isValid(), b.isValid())
        if not b.isValid():
            # steps without a script all have one variant id and are never executed; the spec keeps one of them
            return
        chk(path, "kind", (a.isCheckoutStep(), a.isBuildStep(), a.isPackageStep()),
            (b.isCheckoutStep(), b.isBuildStep(), b.isPackageStep()))
        chk(path, "isRelocatable", a.isRelocatable(), b.isRelocatable())
        chk(path, "isShared", a.isShared(), b.isShared())
        chk(path, "stablePaths", a.stablePaths(), b.stablePaths())
        sa, sb = a.getSandbox(), b.getSandbox()
        chk(path, "sandbox.present", sa is not None, sb is not None)
        if sa is not None and sb is not None:
            chk(path, "sandbox.paths", sa.getPaths(), sb.getPaths())
            chk(path, "sandbox.mounts", [list(m) for m in sa.getMounts()], [list(m) for m in sb.getMounts()])
            chk(path, "sandbox.user", sa.getUser(), sb.getUser())
            chk(path, "sandbox.step", sa.getStep().getVariantId(), sb.getStep().getVariantId())
            if own:
                # (a dependency is identified by its variant id and the variant id of its sandbox; the sandbox
                # image itself may have been built in yet another sandbox, i.e. in another workspace)
                chk(path, "sandbox.workspace", sa.getStep().getWorkspacePath(), sb.getStep().getWorkspacePath())
        if b.isValid():
            chk(path, "workspacePath", a.getWorkspacePath(), b.getWorkspacePath())
            chk(path, "execPath", a.getExecPath(), b.getExecPath())

    def cmp_full(a, b, identity, path, depth):
        """a: step decoded from the spec, b: ExecutableStep of the live step; both fully dumped"""
        cmp_light(a, b, path, own=True)
        if not b.isValid():
            return
        chk(path, "partial", a.partial, False)
        if identity:
            chk(path, "package.name", a.getPackage().getName(), b.getPackage().getName())
            chk(path, "package.stack", a.getPackage().getStack(), b.getPackage().getStack())
            chk(path, "package.metaEnv", a.getPackage().getMetaEnv(), b.getPackage().getMetaEnv())
            chk(path, "recipe.name", a.getPackage().getRecipe().getName(), b.getPackage().getRecipe().getName())
            chk(path, "package.packageStep", a.getPackage().getPackageStep().getVariantId(),
                b.getPackage().getPackageStep().getVariantId())
        chk(path, "digestScript", a.getDigestScript(), b.getDigestScript())
        chk(path, "mainScript", a.getMainScript(), b.getMainScript())
        chk(path, "setupScript", a.getSetupScript(), b.getSetupScript())
        chk(path, "updateScript", a.getUpdateScript(), b.getUpdateScript())
        chk(path, "postRunCmds", a.getPostRunCmds(), b.getPostRunCmds())
        chk(path, "env", a.getEnv(), b.getEnv())
        chk(path, "label", a.getLabel(), b.getLabel())
        chk(path, "paths", a.getPaths(), b.getPaths())
        chk(path, "libraryPaths", a.getLibraryPaths(), b.getLibraryPaths())
        chk(path, "isDeterministic", a.isDeterministic(), b.isDeterministic())
        chk(path, "fingerprinted", a._isFingerprinted(), b._isFingerprinted())
        chk(path, "fingerprintScript", a._getFingerprintScript(), b._getFingerprintScript())
        chk(path, "hasNetAccess", a.hasNetAccess(), b.hasNetAccess())
        chk(path, "jobServer", a.jobServer(), b.jobServer())
        chk(path, "updateScriptDigest", a.getUpdateScriptDigest(), b.getUpdateScriptDigest())
        ta, tb = a.getTools(), b.getTools()
        chk(path, "tools", sorted(ta), sorted(tb))
        for t in sorted(set(ta) & set(tb)):
            chk(path, "tool.path", ta[t].getPath(), tb[t].getPath())
            chk(path, "tool.libs", ta[t].getLibs(), tb[t].getLibs())
            cmp_light(ta[t].getStep(), tb[t].getStep(), path + ">tool:" + t)
        aa, ab = a.getArguments(), b.getArguments()
        chk(path, "arguments", [x.getVariantId() for x in aa], [x.getVariantId() for x in ab])
        chk(path, "allDepSteps", [x.getVariantId() for x in a.getAllDepSteps()],
            [x.getVariantId() for x in b.getAllDepSteps()])
        # Variant-Id and Build-Id are recomputed on the build node from the spec
        try:
            chk(path, "variantId-recomputed", runInEventLoop(a.getDigestCoro(vidcalc)), runInEventLoop(b.getDigestCoro(vidcalc)))
            chk(path, "buildId-recomputed", runInEventLoop(a.getDigestCoro(bidcalc, fingerprint=b"fp")),
                runInEventLoop(b.getDigestCoro(bidcalc, fingerprint=b"fp")))
            chk(path, "buildId-relaxed", runInEventLoop(a.getDigestCoro(bidcalc, fingerprint=b"fp", relaxTools=True)),
                runInEventLoop(b.getDigestCoro(bidcalc, fingerprint=b"fp", relaxTools=True)))
        except Exception as e:
            bad.append(("spec-digest-exception:" + type(e).__name__, "job %s %s: %r" % (name, path, e)))
        if len(aa) == len(ab):
            for x, y in zip(aa, ab):
                sub = path + ">" + y.getLabel() + ":" + y.getPackage().getName()
                own = y.getPackage().getStack() == b.getPackage().getStack()
                if own and depth > 0:
                    # checkout/build step of the built package: fully dumped. Another instance with the very
                    # same variant id may stand in for it (the steps dict of the spec is keyed by variant id)
                    same = x.getPackage().getStack() == a.getPackage().getStack()
                    cmp_full(x, y, identity and same, sub, depth - 1)
                else:
                    cmp_light(x, y, sub)

    for r in roots:
        b = live[getJenkinsVariantId(r)]
        try:
            cmp_full(r, ExecutableStep.fromStep(b, LazyIR), True, "/".join(b.getPackage().getStack()), 3)
        except Exception as e:
            bad.append(("spec-getter-exception:" + type(e).__name__, "job %s: %r" % (name, e)))
    return bad


# ---------------------------------------------------------------------------------------------
# Coq literals

KIND = {"src": "KCheckout", "build": "KBuild", "dist": "KPackage"}


def coq_step(s):
    return "(mkS %s %d %d %d %s %s %s %s %s %s %s)" % (
        KIND[s["kind"]], s["vid"], s["pkgstep"], s["stack"], L.s(s["name"]), L.s(s["recipe"]), L.B(s["isolate"]),
        L.B(s["valid"]), L.lst([str(x) for x in s["args"]]) if s["args"] else "(@nil N)",
        L.lst([str(x) for x in s["tools"]]) if s["tools"] else "(@nil N)",
        "None" if s["sandbox"] is None else "(Some %d)" % s["sandbox"])


def nlist(xs):
    return L.lst([str(x) for x in xs]) if xs else "(@nil N)"


def coq_input(cfg, graph):
    return "(%s, %s, %s, %s, %s)" % (
        L.s(cfg.get("prefix", "")), L.B(bool(cfg.get("short"))),
        L.lst([coq_step(s) for s in graph["steps"]]), nlist(graph["roots"]), nlist(graph["sroots"]))


def coq_abs(a):
    return L.lst(["(%s, (%s, %s))" % (nlist(j[0]), nlist(j[1]), nlist(j[2])) for j in a]) if a else "(@nil job_view)"


def coq_names(ns):
    return L.lst(["(%d, %s)" % (v, L.s(n)) for v, n in ns]) if ns else "(@nil (N * str))"


def coq_jobs(js):
    if not js:
        return "(@nil jjob_view)"
    return L.lst(["(%s, (%s, (%s, (%s, (%s, (%s, %s))))))" % (
        L.s(j[0]), L.s(j[1]), L.B(j[2]), nlist(j[3]), nlist(j[4]), nlist(j[5]),
        L.lst([L.s(u) for u in j[6]]) if j[6] else "(@nil str)") for j in js])


def coq_expected(out):
    """(strict, outcome): strict = the whole outcome is compared; otherwise only the result of sanitize()
    (abstract jobs and names) because the implementation failed in a part that is not modelled"""
    r = out["result"]
    # the variant ids can be numbered topologically over all instances <-> the model's [wf] holds
    wf = L.B(not out.get("vid_graph_cyclic"))
    if out["gen"] == "ok":
        return "(true, Jobs %s %s %s %s, %s)" % (coq_abs(r["abstract"]), coq_names(r["names"]), coq_jobs(r["jobs"]),
                                                 L.B(r["cyclic"]), wf)
    if out["gen"] == "exception" and out.get("gen_exc") == "KeyError":
        where = out.get("gen_where") or []
        if "sanitize" in where:
            return "(true, SanitizeKeyError, %s)" % wf
        if "partial" in where or "addPackage" in where or "fromStep" in where:
            # PartialIR (job specification) is not modelled
            return "(false, GenKeyError %s %s, %s)" % (coq_abs(r["abstract"]), coq_names(r["names"]), wf)
        return "(true, GenKeyError %s %s, %s)" % (coq_abs(r["abstract"]), coq_names(r["names"]), wf)
    return None


PREAMBLE = r"""
Definition input := (str * bool * list step * list N * list N)%type.
Definition run_in (i : input) : outcome * bool :=
  let '(prefix, short, g, roots, sroots) := i in
  (run prefix short g (map N.to_nat roots) (map N.to_nat sroots), wf g && wf_roots g (map N.to_nat roots)).
Definition eqN := N.eqb.
Definition eq_ns := eqb_list N.eqb.
Definition eq_str := eqb_list N.eqb.
Definition eq_abs := eqb_list (eqb_prod eq_ns (eqb_prod eq_ns eq_ns)).
Definition eq_names := eqb_list (eqb_prod N.eqb eq_str).
Definition eq_jobs : list jjob_view -> list jjob_view -> bool :=
  eqb_list (eqb_prod eq_str (eqb_prod eq_str (eqb_prod Bool.eqb (eqb_prod eq_ns (eqb_prod eq_ns (eqb_prod eq_ns (eqb_list eq_str))))))).
Definition outcome_eqb (a b : outcome) : bool :=
  match a, b with
  | Jobs a1 n1 j1 c1, Jobs a2 n2 j2 c2 => eq_abs a1 a2 && eq_names n1 n2 && eq_jobs j1 j2 && Bool.eqb c1 c2
  | SanitizeKeyError, SanitizeKeyError => true
  | GenKeyError a1 n1, GenKeyError a2 n2 => eq_abs a1 a2 && eq_names n1 n2
  | _, _ => false
  end.
Definition sanitized (o : outcome) : option (list job_view * list (N * str)) :=
  match o with Jobs a n _ _ => Some (a, n) | GenKeyError a n => Some (a, n) | _ => None end.
Definition expected_eqb (r : outcome * bool) (e : bool * outcome * bool) : bool :=
  let '(a, w) := r in
  let '(strict, o, we) := e in
  Bool.eqb w we &&
  if strict then outcome_eqb a o
  else match sanitized a, sanitized o with
       | Some (a1, n1), Some (a2, n2) => eq_abs a1 a2 && eq_names n1 n2
       | _, _ => false
       end.
"""


def features(g, out):
    fs = []
    steps = out["graph"]["steps"]
    npk = out["npkgs"]
    fs.append("pkgs:%s" % ("1-2" if npk <= 2 else "3-5" if npk <= 5 else "6-9" if npk <= 9 else "10+"))
    nabs = len(out["result"]["abstract"])
    if nabs < npk:
        fs.append("merged-jobs")
    names = {}
    for v, n in out["result"]["names"]:
        names.setdefault(n, 0)
    byname = {}
    for s in steps:
        if s["kind"] == "dist":
            byname.setdefault(s["recipe"], set()).add(s["vid"])
    if any(len(v) > 1 for v in byname.values()):
        fs.append("same-recipe-variants")
    if any(re.search(r"-[0-9]+$", n) for _v, n in out["result"]["names"]):
        fs.append("numbered-or-digit-name")
    if any(s["tools"] for s in steps):
        fs.append("tools")
    if any(s["sandbox"] is not None for s in steps):
        fs.append("sandbox")
    if len(out["graph"]["roots"]) > 1:
        fs.append("multi-root")
    stacks = {}
    for s in steps:
        if s["kind"] == "dist":
            stacks.setdefault(s["vid"], set()).add(s["stack"])
    if any(len(v) > 1 for v in stacks.values()):
        fs.append("variant-with-several-instances")
    if any(s["isolate"] for s in steps):
        fs.append("isolated")
    if g["cfg"].get("short"):
        fs.append("shortdescription")
    if g["cfg"].get("prefix"):
        fs.append("prefix")
    if any(not s["valid"] and s["kind"] == "build" for s in steps):
        fs.append("invalid-build-step")
    return fs


def nontrivial(out):
    """more than two package variants and the naming logic has something to decide (variants of one
    recipe, tools or sandboxes)"""
    steps = out["graph"]["steps"]
    byname = {}
    for s in steps:
        if s["kind"] == "dist":
            byname.setdefault(s["recipe"], set()).add(s["vid"])
    return out["npkgs"] >= 3 and (any(len(v) > 1 for v in byname.values()) or any(s["tools"] for s in steps)
                                  or any(s["sandbox"] is not None for s in steps))


def load_corpus():
    out = []
    for p in sorted(glob.glob(os.path.join(core.VERIF, "corpus", "C20", "*.json"))):
        with open(p) as f:
            c = json.load(f)
        c["_file"] = os.path.basename(p)
        out.append(c)
    return out


def case_of(c):
    """corpus / replay object -> (abstract project or None, raw rendered project or None, cfg)"""
    if "packages" in c:
        return {"packages": c["packages"], "cfg": c["cfg"]}, None
    return {"cfg": c["cfg"]}, {"recipes": c["recipes"], "config": c.get("config") or {"bobMinimumVersion": "0.25"}}


def signatures(out):
    return [s for s, _w in out.get("oracle") or []]


def report(ctx, g, raw, out, shrunk_sigs):
    """turn the oracle findings of one project into ctx.violation calls (shrinking the first of a class)"""
    for sig, what in out.get("oracle") or []:
        rep = {"cfg": g["cfg"], "what": what}
        if raw is not None:
            rep["recipes"] = raw["recipes"]
        else:
            small = g
            if sig not in shrunk_sigs:
                shrunk_sigs.add(sig)

                def fails(cand, sig=sig):
                    o = run_project(cand, want_spec=sig.startswith("spec"))
                    return (not o.get("unparsable")) and sig in signatures(o)
                small = shrink_project(g, fails, budget=ctx.n(150, 400))
                o2 = run_project(small, want_spec=sig.startswith("spec"))
                for s2, w2 in o2.get("oracle") or []:
                    if s2 == sig:
                        rep["what"] = what = w2
            rep["packages"] = small["packages"]
            rep["cfg"] = small["cfg"]
            rep["recipes"] = render_project(small)["recipes"]
        ctx.violation(sig, what, rep)


def run(ctx):
    rng = ctx.rng
    ctx.rule = ("random recipe projects (2-10 packages grouped into plain and multiPackage recipes, dependency DAG with "
                "environment overrides producing several variants per recipe, provideTools/provideSandbox with use/forward, "
                "tool providers depending on sibling variants, isolate regexes, prefixes, several roots, name pools with "
                "case/character/numbering collisions) parsed by the real RecipeSet; a case is non-trivial when it has >= 3 "
                "package variants and variants of one recipe, tools or sandboxes; distinct by (step graph, options)")
    ctx.assumptions += [
        "the step graph handed to the model is read from the live Step objects through the public API (getArguments, getTools, getSandbox, isValid, getPackage); Step.getAllDepSteps = arguments + tools sorted by name + sandbox is checked on every step",
        "the jobs.isolate regular expression is evaluated by Python's re in the harness (one boolean per package)",
        "variant ids are interned as small numbers: package steps even and numbered topologically, other steps odd (SHA-1 values are assumed collision free across step kinds and acyclic)",
        "the faithfulness of the embedded job specification (PartialIR round trip: variant ids, recomputed variant/build ids, scripts, environments, workspace paths, tools, sandbox) is a differential test on the implementation only; it is not modelled and no theorem covers it",
        "XML rendering of jobs, the Jenkins server protocol and the execution of jobs on a build node (bob _jexec) are out of scope",
    ]
    ctx.note("PROVED (Coq, unbounded, for every step graph with [wf g]): the childs sets are closed under job level "
             "reachability after spanning and after every merge; the abstract job graph (recorded parents AND the real "
             "direct package dependencies of the reference instances) is acyclic after all merges; every needed variant "
             "is in exactly one abstract job; a job's childs/parents record the jobs of all its dependencies; the display "
             "name is a total function of the abstract job. REFUTED by witness (vm_compute): names_unique (F4), "
             "job_graph_acyclic without the hypothesis that the variant graph over all instances is acyclic (F13).")
    ctx.note("ONLY EXERCISED (correspondence model vs implementation + oracle on the implementation): prefix naming and "
             "numbering (apart from name = function of job), internal names, _genJenkinsJobs/JenkinsJob.addStep "
             "(job membership, upstream sets, roots), genJenkinsBuildOrder, shortdescription, isolate; the PartialIR job "
             "specification round trip is implementation-only (not modelled).")
    if ctx.replay:
        return replay(ctx)
    cases, meta = [], []
    shrunk = set()
    seen_unenc = 0

    def process(g, raw=None, tag="gen", expect=None):
        nonlocal seen_unenc
        try:
            out = run_project(g, raw=raw)
        except Unencodable as e:
            seen_unenc += 1
            ctx.count("skipped:unencodable")
            if seen_unenc <= 3:
                ctx.tie_broken("c20-extraction", str(e))
            return
        if out.get("unparsable"):
            ctx.count("skipped:project-does-not-parse")
            if tag == "corpus":
                ctx.tie_broken("c20-corpus", "corpus project no longer parses: %s" % out.get("gen_msg"))
            return
        ctx.evaluated()
        key = json.dumps([out["graph"], g["cfg"].get("prefix"), g["cfg"].get("short")], sort_keys=True)
        if nontrivial(out):
            ctx.nontrivial(key)
        ctx.count("%s:%s" % (tag, "genJenkinsJobs-" + out["gen"] + ("/order-" + out["order"] if out.get("order") else "")))
        for f in features(g, out):
            ctx.count("feature:" + f)
        sigs = signatures(out)
        for s_ in sigs:
            ctx.count("oracle:" + s_)
        if expect is not None and sorted(set(sigs)) != sorted(set(expect)):
            ctx.note("corpus case %s: expected oracle verdict %r, got %r" % (tag, expect, sigs))
        report(ctx, g, raw, out, shrunk)
        exp = coq_expected(out)
        if exp is None:
            ctx.count("not-compared:implementation-raised-" + str(out.get("gen_exc") or out["gen"]))
            return
        if out.get("vid_graph_cyclic"):
            ctx.count("compared:variant-graph-cyclic(not wf)")
        if exp.startswith("(false"):
            ctx.count("compared-sanitize-only:KeyError-in-PartialIR")
        cases.append((coq_input(g["cfg"], out["graph"]), exp))
        meta.append({"cfg": g["cfg"], "recipes": (raw or render_project(g))["recipes"], "impl": out["result"],
                     "gen": out["gen"], "order": out.get("order")})
        if len(ctx.cov["samples"]) < 4 and nontrivial(out):
            ctx.sample({"recipes": (raw or render_project(g))["recipes"], "cfg": g["cfg"],
                        "jobs": [[j[0], j[5], j[6]] for j in out["result"].get("jobs", [])],
                        "order": out.get("order")})

    for c in load_corpus():
        g, raw = case_of(c)
        process(g, raw, tag="corpus", expect=c.get("expect"))
    n = ctx.n(350, 3000)
    for i in range(n):
        big = ctx.tier == "thorough" and i % 4 == 0
        process(gen_project(rng, size=rng.choice([9, 11, 12, 14]) if big else None))
    bad, log = coq.run_cases(ctx, ["BobV.C20.Model"], "run_in", "expected_eqb", cases, preamble=PREAMBLE,
                             tag="jobs", shard=60 if ctx.tier == "quick" else 150)
    if bad is None:
        ctx.tie_broken("C20 model evaluation failed", log)
    else:
        ctx.validated(len(cases) - len(bad))
        for i in bad[:8]:
            ctx.tie_broken("jobs-correspondence", meta[i])
        if bad:
            ctx.count("model-mismatch", len(bad))


def replay(ctx):
    with open(ctx.replay) as f:
        d = json.load(f)
    c = d.get("case", d)
    if "cfg" not in c:
        print("replay file has no failing input (broken tie): %s" % json.dumps(d)[:400])
        return
    if "packages" in c:
        g, raw = {"packages": c["packages"], "cfg": c["cfg"]}, None
    else:
        g, raw = {"cfg": c["cfg"]}, {"recipes": c["recipes"], "config": {"bobMinimumVersion": "0.25"}}
    out = run_project(g, raw=raw)
    ctx.evaluated()
    print("genJenkinsJobs: %s %s; build order: %s" % (out.get("gen"), out.get("gen_msg", ""), out.get("order")))
    for sig, what in out.get("oracle") or []:
        print("  %s: %s" % (sig, what))
        rep = dict(c)
        ctx.violation(sig, what, rep)


# ---------------------------------------------------------------------------------------------
# generator of recipe projects
#
# A project is a list of packages P0..Pn-1; Pi may depend on Pj only for j > i (the package graph is a
# DAG by construction).  Packages are grouped into recipes (several packages of one recipe = multiPackage).

BASE_NAMES = ["app", "lib", "core", "util", "tc", "sbx", "r", "q"]
COLLIDING = [["lib", "Lib"], ["a.b", "a+b", "a_b"], ["r", "R"], ["x.y", "x_y"], ["q-1", "q"], ["cat::m", "cat_m"],
             ["util", "UTIL"], ["r-1", "r"]]
SUBS = ["a", "b", "c", "dev", "tgt", "x-1", "x-2", "1", "2", "a-b", "a-c"]
VALS = ["0", "1", "2"]


def gen_project(rng, size=None, collide=None):
    n = size or rng.choice([2, 3, 4, 4, 5, 5, 6, 7, 8, 10])
    collide = (rng.random() < 0.12) if collide is None else collide
    # recipes
    names = list(BASE_NAMES)
    rng.shuffle(names)
    nrec = max(1, min(len(names), rng.randint(1, max(1, n - 1))))
    recs = names[:nrec]
    if collide:
        grp = rng.choice(COLLIDING)
        recs = [x for x in recs if x not in grp and x.lower() not in [y.lower() for y in grp]]
        recs = (grp + recs)[:max(2, nrec)]
    pk = []
    used = set()
    for i in range(n):
        for _try in range(20):
            rec = recs[i] if (i < len(recs) and rng.random() < 0.7) else rng.choice(recs)
            sub = "" if rng.random() < 0.35 else rng.choice(SUBS)
            if (rec, sub) not in used:
                break
        else:
            continue
        used.add((rec, sub))
        pk.append({"recipe": rec, "sub": sub, "deps": [], "root": False})
    n = len(pk)
    # several packages of a recipe that is used only once need a multiPackage key
    cnt = {}
    for p in pk:
        cnt[p["recipe"]] = cnt.get(p["recipe"], 0) + 1
    for p in pk:
        if cnt[p["recipe"]] == 1 and rng.random() < 0.7:
            p["sub"] = ""
    tools = [i for i in range(n) if rng.random() < 0.25]
    sbxs = [i for i in range(n) if rng.random() < 0.2]
    for i, p in enumerate(pk):
        if i in tools:
            p["provideTools"] = {"t%d" % i: "."}
        if i in sbxs:
            p["provideSandbox"] = True
        p["vars"] = rng.choice([[], [], ["V"], ["V"], ["W"], ["V", "W"]])
        p["varstep"] = rng.choice(["build", "build", "package"])
        p["build"] = rng.random() < 0.85
        p["checkout"] = rng.random() < 0.3
        p["packageDepends"] = rng.random() < 0.1
        cands = list(range(i + 1, n))
        rng.shuffle(cands)
        k = min(len(cands), rng.choice([0, 1, 1, 2, 2, 3]))
        scope = set()
        for j in sorted(cands[:k]):
            d = {"to": j}
            use = ["result"] if rng.random() < 0.8 else []
            if j in tools and rng.random() < 0.85:
                use.append("tools")
                scope.add("t%d" % j)
            if j in sbxs and rng.random() < 0.85:
                use.append("sandbox")
            if not use:
                use = ["result"]
            if use != ["result"]:
                d["use"] = use
                if rng.random() < 0.6:
                    d["forward"] = True
            if rng.random() < 0.45:
                d["env"] = {rng.choice(["V", "W"]): rng.choice(VALS)}
            p["deps"].append(d)
        p["scope"] = sorted(scope)
    # tool usage: tools taken from the own dependencies or (optimistically) inherited ones
    for i, p in enumerate(pk):
        avail = list(p["scope"])
        if rng.random() < 0.06:
            avail += ["t%d" % j for j in tools if j != i]
        use = [t for t in sorted(set(avail)) if rng.random() < 0.6]
        if use:
            p["tools"] = {rng.choice(["build", "build", "package", "checkout"]): use}
        del p["scope"]
    # roots
    nodep = set(range(n))
    for p in pk:
        for d in p["deps"]:
            nodep.discard(d["to"])
    rootidx = sorted(nodep) if rng.random() < 0.8 else sorted(nodep | {rng.randrange(n)})
    for i in rootidx:
        pk[i]["root"] = True
    cfgroots = [i for i in rootidx if rng.random() < 0.8] or [rootidx[0]]
    rng.shuffle(cfgroots)
    cfg = {"roots": [pkg_name(pk[i]) for i in cfgroots],
           "prefix": rng.choice(["", "", "", "pre-", "X.", "job_"]),
           "short": rng.random() < 0.3,
           "sandbox": rng.choice(["yes", "yes", "yes", "no", "strict", "dev"]),
           "isolate": rng.choice([None, None, None, "-", "^lib", "a$", ".*", "[0-9]", "(app|tc)-"])}
    return {"packages": pk, "cfg": cfg}


def pkg_name(p):
    return p["recipe"] + ("-" + p["sub"] if p["sub"] else "")


def render_project(g):
    """abstract project -> {'recipes': {name: yaml dict}}"""
    pk = g["packages"]
    byrec = {}
    for p in pk:
        byrec.setdefault(p["recipe"], []).append(p)

    def body(p):
        b = {}
        if p.get("root"):
            b["root"] = True
        deps = []
        for d in p["deps"]:
            if d["to"] >= len(pk) or pk[d["to"]] is None:
                continue
            e = {"name": pkg_name(pk[d["to"]])}
            if "use" in d:
                e["use"] = list(d["use"])
            if d.get("forward"):
                e["forward"] = True
            if d.get("env"):
                e["environment"] = dict(d["env"])
            deps.append(e if len(e) > 1 else e["name"])
        if deps:
            b["depends"] = deps
        tag = pkg_name(p)
        vs = p.get("vars") or []
        echo = " ".join("$%s" % v for v in vs)
        if p.get("checkout"):
            b["checkoutScript"] = "echo src %s" % tag
            b["checkoutDeterministic"] = True
        if p.get("build", True):
            b["buildScript"] = "echo build %s %s" % (tag, echo if p.get("varstep") == "build" else "")
            if vs and p.get("varstep") == "build":
                b["buildVars"] = list(vs)
        b["packageScript"] = "echo dist %s %s" % (tag, echo if p.get("varstep") != "build" else "")
        if vs and p.get("varstep") != "build":
            b["packageVars"] = list(vs)
        if p.get("packageDepends"):
            b["packageDepends"] = True
        for st, ts in (p.get("tools") or {}).items():
            b[st + "Tools"] = list(ts)
        if p.get("provideTools"):
            b["provideTools"] = dict(p["provideTools"])
        if p.get("provideSandbox"):
            b["provideSandbox"] = {"paths": ["/bin"]}
        return b

    recipes = {}
    for rec, ps in byrec.items():
        if len(ps) == 1 and ps[0]["sub"] == "":
            recipes[rec] = body(ps[0])
        else:
            recipes[rec] = {"multiPackage": {p["sub"]: body(p) for p in ps}}
    return {"recipes": recipes, "config": {"bobMinimumVersion": "0.25"}}


def shrink_project(g, fails, budget=120):
    """greedy delta debugging on the abstract project; `fails(g)` -> bool"""
    import copy
    cur = copy.deepcopy(g)
    calls = [0]

    def attempt(cand):
        if calls[0] >= budget:
            return False
        calls[0] += 1
        try:
            return fails(cand)
        except Exception:
            return False

    changed = True
    while changed and calls[0] < budget:
        changed = False
        # drop a package (keep indices stable by re-indexing)
        for i in reversed(range(len(cur["packages"]))):
            if len(cur["packages"]) <= 1:
                break
            cand = copy.deepcopy(cur)
            name = pkg_name(cand["packages"][i])
            del cand["packages"][i]
            for p in cand["packages"]:
                p["deps"] = [dict(d, to=d["to"] - (1 if d["to"] > i else 0)) for d in p["deps"] if d["to"] != i]
            cand["cfg"]["roots"] = [r for r in cand["cfg"]["roots"] if r != name]
            if not cand["cfg"]["roots"]:
                continue
            if attempt(cand):
                cur = cand
                changed = True
        for pi in range(len(cur["packages"])):
            for di in reversed(range(len(cur["packages"][pi]["deps"]))):
                cand = copy.deepcopy(cur)
                del cand["packages"][pi]["deps"][di]
                if attempt(cand):
                    cur = cand
                    changed = True
                    continue
                for fld in ("env", "use", "forward"):
                    if fld in cur["packages"][pi]["deps"][di]:
                        cand = copy.deepcopy(cur)
                        del cand["packages"][pi]["deps"][di][fld]
                        if attempt(cand):
                            cur = cand
                            changed = True
            for fld, val in (("tools", None), ("provideTools", None), ("provideSandbox", None), ("vars", []),
                             ("checkout", False), ("packageDepends", False), ("build", True), ("sub", "")):
                if cur["packages"][pi].get(fld) not in (None, val):
                    cand = copy.deepcopy(cur)
                    if val is None:
                        del cand["packages"][pi][fld]
                    else:
                        cand["packages"][pi][fld] = val
                    if fld == "sub":
                        old = pkg_name(cur["packages"][pi])
                        cand["cfg"]["roots"] = [pkg_name(cand["packages"][pi]) if r == old else r for r in cand["cfg"]["roots"]]
                    if attempt(cand):
                        cur = cand
                        changed = True
        for fld, val in (("prefix", ""), ("short", False), ("isolate", None), ("sandbox", "yes")):
            if cur["cfg"].get(fld) != val:
                cand = copy.deepcopy(cur)
                cand["cfg"][fld] = val
                if attempt(cand):
                    cur = cand
                    changed = True
        if len(cur["cfg"]["roots"]) > 1:
            for r in list(cur["cfg"]["roots"]):
                cand = copy.deepcopy(cur)
                cand["cfg"]["roots"] = [x for x in cand["cfg"]["roots"] if x != r]
                if cand["cfg"]["roots"] and attempt(cand):
                    cur = cand
                    changed = True
    return cur


def run_project(g, want_spec=True, raw=None):
    """write, run, clean up. `raw` = already rendered project (corpus files with literal recipes)."""
    d = core.scratch_dir("c20")
    try:
        write_project(d, raw if raw is not None else render_project(g))
        return run_impl(d, g["cfg"], want_spec=want_spec)
    finally:
        shutil.rmtree(d, ignore_errors=True)
