"""C06 — parallel builds are schedule independent and bounded.

Model (coq/C06): (a) JobServerSemaphore as a transition system, (b) the cook
scheduler as a transition system + a trace monitor proved to accept every trace
of (b) (theorem traces_accepted).

Correspondence / oracle on the implementation as it is now:
  (1) the real bob.builder.JobServerSemaphore on a real non-blocking pipe inside
      a running asyncio loop; acquire() coroutines are stepped by hand, the
      reader registration of the loop is intercepted, so that every interleaving
      of acquire / reader-callback / wake-up / release / foreign take+put can be
      scripted.  After every step (pipe bytes, token stack, waitersCnt, pending
      grants, acquired, reader registered) is compared with sem_trace of the
      model (vm_compute) and the statement (conservation, bound, no crash,
      quiescence) is evaluated directly.
  (2) the same class free running with real tasks and the real add_reader.
  (3) real `bob dev -jN [-k] [--sandbox]` on generated projects (diamonds, one
      package reached on several paths, variants sharing a checkout, one step
      under several sandboxes), step scripts logging start/end to a whitelisted
      log file and sleeping for per-run assigned durations, injected failures.
      Bob runs under a wrapper that only *observes*: the step graph handed to
      LocalBuilder.cook, every Invoker.executeStep start/end and every job
      token acquire/release in event-loop order.  Checked: termination, tokens
      held <= N, a script runs only under a token, deps finished before start,
      no workspace twice/concurrently, failure stops / keep-going confines,
      dist/ equal to the -j1 build; the observed event order is replayed through
      the model's monitor `accept` in Coq.
"""
import asyncio, collections, glob, hashlib, json, os, shutil, subprocess, sys, time, traceback
from concurrent.futures import ThreadPoolExecutor
from vlib import coq, coqlit as L, proj, core

PROPERTY_FILES = ["C06/Properties.v"]
REQ = ["BobV.C06.Model"]

SIG_DEADLOCK = "deadlock:token-held-while-waiting-for-workspace-lock"
SIG_EXTJS = "jobserver-recursive:implicit-token-taken-twice-after-handover"
SIG_KG = "keep-going:failed-workspace-re-executed"

# ====================================================================== (1) semaphore, scripted

class _Loop(asyncio.SelectorEventLoop):
    """event loop whose reader registry is only recorded (the harness decides when
    the 'readable' callback runs)"""
    def __init__(self):
        super().__init__()
        self.c06_readers = {}

    def add_reader(self, fd, cb, *args):
        self.c06_readers[fd] = (cb, args)

    def remove_reader(self, fd):
        return self.c06_readers.pop(fd, None) is not None


class SemBox:
    """the real JobServerSemaphore on a real pipe + the bookkeeping of the driver"""
    P = "_JobServerSemaphore__"

    def __init__(self, loop, recursive, p0):
        from bob.builder import JobServerSemaphore
        self.loop = loop
        self.r, self.w = os.pipe()
        os.set_blocking(self.r, False)
        if p0:
            os.write(self.w, bytes(p0))
        self.sem = JobServerSemaphore((self.r, self.w), recursive)
        self.blocked = []      # (coroutine, future) suspended in sem.acquire()
        self.inside = 0
        self.ext = []

    def close(self):
        for co, _ in self.blocked:
            co.close()
        os.close(self.r); os.close(self.w)

    def attr(self, name):
        return getattr(self.sem, self.P + name)

    def pipe_bytes(self):
        out = b""
        while True:
            try:
                b = os.read(self.r, 4096)
            except BlockingIOError:
                break
            if not b:
                break
            out += b
        if out:
            os.write(self.w, out)
        return list(out)

    def obs(self):
        inner = self.attr("sem")
        grants = inner._value + sum(1 for _, f in self.blocked if f.done())
        return ("state", self.pipe_bytes(), [t[0] for t in self.attr("tokens")], self.attr("waitersCnt"), grants,
                self.attr("acquired"), self.r in self.loop.c06_readers)

    def enabled(self):
        o = self.obs()
        en = ["acquire"]
        if o[6]:
            en.append("callback")
        if any(f.done() for _, f in self.blocked):
            en.append("wake")
        if self.inside > 0 or o[5] == 0:
            en.append("release")
        if o[1]:
            en.append("exttake")
        for i in range(len(self.ext)):
            en.append(("extput", i))
        return en

    def do(self, lab):
        """returns 'ok' | 'rejected' | 'crash' | 'disabled'"""
        if lab == "acquire":
            co = self.sem.acquire()
            try:
                fut = co.send(None)
                self.blocked.append((co, fut))
            except StopIteration:
                self.inside += 1
            return "ok"
        if lab == "callback":
            ent = self.loop.c06_readers.get(self.r)
            if ent is None:
                return "disabled"
            ent[0](*ent[1])
            return "ok"
        if lab == "wake":
            for i, (co, fut) in enumerate(self.blocked):
                if fut.done():
                    del self.blocked[i]
                    try:
                        co.send(None)
                        raise RuntimeError("acquire suspended twice")
                    except StopIteration:
                        self.inside += 1
                    return "ok"
            return "disabled"
        if lab == "release":
            try:
                self.sem.release()
            except ValueError:
                return "rejected"
            except IndexError:
                return "crash"
            self.inside -= 1
            return "ok"
        if lab == "exttake":
            try:
                b = os.read(self.r, 1)
            except BlockingIOError:
                return "disabled"
            self.ext.append(b[0])
            return "ok"
        if isinstance(lab, tuple) and lab[0] == "extput":
            if lab[1] >= len(self.ext):
                return "disabled"
            os.write(self.w, bytes([self.ext.pop(lab[1])]))
            return "ok"
        raise ValueError(lab)


def sem_walk(rng, recursive, p0, nsteps, script=None):
    """random walk over enabled labels (or a fixed script) on the real object.
    returns (labels, observations)"""
    loop = _Loop()
    res = {}

    async def driver():
        box = SemBox(loop, recursive, p0)
        labels, obs = [], []
        try:
            for i in range(nsteps if script is None else len(script)):
                if script is not None:
                    lab = script[i]
                else:
                    en = box.enabled()
                    w = []
                    for e in en:
                        k = e if isinstance(e, str) else e[0]
                        w.append({"acquire": 5, "callback": 3, "wake": 4, "release": 5, "exttake": 2, "extput": 2}[k]
                                 * (0.3 if (k == "release" and box.inside == 0) else 1))
                    lab = rng.choices(en, weights=w)[0]
                r = box.do(lab)
                labels.append(lab)
                if r == "ok":
                    obs.append(box.obs())
                else:
                    obs.append((r,))
                    if r in ("crash", "disabled"):
                        break
            res["inside"] = box.inside
            res["ext"] = list(box.ext)
        finally:
            box.close()
        return labels, obs
    try:
        asyncio.set_event_loop(loop)
        return loop.run_until_complete(driver()) + (res,)
    finally:
        asyncio.set_event_loop(None)
        loop.close()


def lab_coq(lab):
    if isinstance(lab, tuple):
        return "(SExtPut %d%%nat)" % lab[1]
    return {"acquire": "SAcquire", "callback": "SCallback", "wake": "SWake", "release": "SRelease",
            "exttake": "SExtTake"}[lab]


def ln(xs):
    return "[" + ";".join(str(x) for x in xs) + "]" if xs else "(@nil N)"


def obs_coq(o):
    if o[0] == "state":
        return "(OState %s %s %d%%nat %d%%nat %d%%nat %s)" % (ln(o[1]), ln(o[2]), o[3], o[4], o[5], L.B(o[6]))
    return {"rejected": "ORejected", "crash": "OCrash", "disabled": "ODisabled"}[o[0]]


def sem_check_states(ctx, recursive, p0, labels, obs):
    """conservation, bound, quiescence on every observed state; the driver's own
    count of tasks inside is recomputed from the label/outcome sequence"""
    implicit = 1 if recursive else 0
    inside, ext, prev = 0, [], None
    for i, (lab, o) in enumerate(zip(labels, obs)):
        if o[0] == "crash":
            ctx.violation(SIG_EXTJS if recursive else "jobserver:release-raises-IndexError",
                          "JobServerSemaphore.release() raised IndexError (pop from empty list); script %r" % (labels[:i + 1],),
                          {"kind": "sem", "recursive": recursive, "p0": p0, "script": labels[:i + 1]})
            return False
        if o[0] != "state":
            continue
        _, pipe, toks, waiters, grants, acquired, reader = o
        if lab == "exttake":
            ext.append(prev[1][0] if prev else p0[0])
        elif isinstance(lab, tuple):
            ext.pop(lab[1])
        if sorted(pipe + toks + ext) != sorted(p0):
            ctx.violation("jobserver:token-lost-or-duplicated",
                          "pipe %r + tokens %r + foreign %r is not the initial pipe %r after %r" % (pipe, toks, ext, p0, labels[:i + 1]),
                          {"kind": "sem", "recursive": recursive, "p0": p0, "script": labels[:i + 1]})
            return False
        if acquired > len(toks) + implicit:
            ctx.violation(SIG_EXTJS if recursive else "jobserver:more-slots-than-tokens",
                          "acquired=%d with %d tokens held (+%d implicit) after %r" % (acquired, len(toks), implicit, labels[:i + 1]),
                          {"kind": "sem", "recursive": recursive, "p0": p0, "script": labels[:i + 1]})
            return False
        if acquired == 0 and grants == 0 and toks:
            ctx.violation("jobserver:token-kept-while-idle",
                          "nothing acquired but tokens %r are still held after %r" % (toks, labels[:i + 1]),
                          {"kind": "sem", "recursive": recursive, "p0": p0, "script": labels[:i + 1]})
            return False
        if (waiters > 0) != reader:
            ctx.violation("jobserver:lost-wakeup-reader-not-registered",
                          "waiters=%d but reader registered=%s after %r" % (waiters, reader, labels[:i + 1]),
                          {"kind": "sem", "recursive": recursive, "p0": p0, "script": labels[:i + 1]})
            return False
        prev = o
    return True


def sem_inside_check(ctx, recursive, p0, labels, obs, res):
    """the number of tasks that are really inside (driver's count) against the tokens held"""
    if not obs or obs[-1][0] != "state":
        return True
    toks = obs[-1][2]
    if res.get("inside", 0) > len(toks) + (1 if recursive else 0):
        ctx.violation(SIG_EXTJS if recursive else "jobserver:more-tasks-inside-than-tokens",
                      "%d tasks inside with %d tokens held after %r" % (res["inside"], len(toks), labels),
                      {"kind": "sem", "recursive": recursive, "p0": p0, "script": labels})
        return False
    return True


def sem_free_running(rng, recursive, ntok, ntasks, rounds):
    """real tasks, real add_reader: returns dict(max_inside, final pipe, errors)"""
    from bob.builder import JobServerSemaphore
    res = {"max": 0, "errors": [], "done": 0}
    delays = [[rng.choice([0, 0, 0.001, 0.003]) for _ in range(rounds * 2)] for _ in range(ntasks)]

    async def main():
        r, w = os.pipe()
        os.set_blocking(r, False)
        os.write(w, bytes(range(1, ntok + 1)))
        sem = JobServerSemaphore((r, w), recursive)
        state = {"in": 0}

        async def worker(i):
            for k in range(rounds):
                await sem.acquire()
                state["in"] += 1
                res["max"] = max(res["max"], state["in"])
                d = delays[i][2 * k]
                if d:
                    await asyncio.sleep(d)
                else:
                    await asyncio.sleep(0)
                state["in"] -= 1
                try:
                    sem.release()
                except Exception as e:
                    res["errors"].append(repr(e))
                    return
                d = delays[i][2 * k + 1]
                if d:
                    await asyncio.sleep(d)
            res["done"] += 1
        try:
            await asyncio.wait_for(asyncio.gather(*[worker(i) for i in range(ntasks)]), 20)
        except asyncio.TimeoutError:
            res["errors"].append("timeout")
        rest = b""
        try:
            rest = os.read(r, 4096)
        except BlockingIOError:
            pass
        res["pipe"] = sorted(rest)
        res["acquired"] = getattr(sem, "_JobServerSemaphore__acquired")
        res["tokens"] = len(getattr(sem, "_JobServerSemaphore__tokens"))
        os.close(r); os.close(w)
    asyncio.run(main())
    return res


def run_semaphore(ctx):
    rng = ctx.rng
    cases, meta = [], []
    fixed = [
        (True, [], ["acquire", "acquire", "release", "acquire", "wake"]),              # the extjs schedule
        (True, [], ["acquire", "acquire", "release", "acquire", "wake", "release", "wake", "release"]),
        (False, [5], ["release"]),
        (False, [5, 6], ["acquire", "acquire", "acquire", "release", "wake", "release", "release"]),
        (True, [9], ["acquire", "acquire", "acquire", "exttake", "release", "wake", "release", "release"]),
        (False, [], ["acquire", ("extput", 0)]),
    ]
    n = ctx.n(320, 6000)
    todo = [(r, p, s, None) for r, p, s in fixed]
    for i in range(n):
        rec = rng.random() < 0.5
        p0 = rng.sample(range(1, 200), rng.choice([0, 1, 1, 2, 2, 3, 4]))
        todo.append((rec, p0, None, rng.choice([8, 14, 20, 30, 45])))
    steps = 0
    for rec, p0, script, ns in todo:
        try:
            labels, obs, res = sem_walk(rng, rec, p0, ns or 0, script=script)
        except Exception as e:
            ctx.tie_broken("semaphore-driver", traceback.format_exc()[-1500:])
            return
        ctx.evaluated(len(labels))
        steps += len(labels)
        ctx.count("sem:recursive" if rec else "sem:plain")
        for lab, o in zip(labels, obs):
            k = lab if isinstance(lab, str) else lab[0]
            ctx.count("sem-step:%s:%s" % (k, o[0] if o[0] != "state" else "ok"))
        blocked_seen = any(o[0] == "state" and o[3] + o[4] > 0 for o in obs)
        if blocked_seen:
            ctx.nontrivial(("sem", rec, tuple(p0), tuple(map(str, labels))))
            ctx.count("sem:with-blocked-task")
        ok = sem_check_states(ctx, rec, p0, labels, obs) and sem_inside_check(ctx, rec, p0, labels, obs, res)
        cases.append(("(%s, %s, %s)" % ("(Build_semcfg %s true)" % L.B(rec), ln(p0), L.lst([lab_coq(l) for l in labels])),
                      L.lst([obs_coq(o) for o in obs])))
        meta.append({"recursive": rec, "p0": p0, "labels": [str(l) for l in labels]})
        if len(ctx.cov["samples"]) < 3 and blocked_seen:
            ctx.sample({"semaphore_script": [str(l) for l in labels], "recursive": rec, "p0": p0,
                        "last_obs": [str(x) for x in obs[-1]]})
    bad, log = coq.run_cases(ctx, REQ, "(fun i => sem_trace (fst (fst i)) (sem_init (snd (fst i))) (snd i))",
                             "sobs_list_eqb", cases, shard=ctx.n(170, 400), tag="sem")
    if bad is None:
        ctx.tie_broken("semaphore model evaluation failed", log)
    else:
        good = [i for i in range(len(cases)) if i not in set(bad)]
        ctx.validated(sum(len(meta[i]["labels"]) for i in good))
        for i in bad[:5]:
            ctx.tie_broken("semaphore-correspondence", meta[i])
    # free running
    for i in range(ctx.n(12, 150)):
        rec = rng.random() < 0.4
        ntok = rng.choice([0, 1, 1, 2, 3]) if rec else rng.choice([1, 1, 2, 3])
        nt = rng.choice([2, 3, 5, 8])
        r = sem_free_running(rng, rec, ntok, nt, rng.choice([3, 6, 10]))
        ctx.evaluated()
        ctx.count("sem-free:tasks=%d" % nt)
        lim = ntok + (1 if rec else 0)
        rep = {"kind": "sem-free", "recursive": rec, "tokens": ntok, "tasks": nt, "result": r}
        if r["errors"]:
            ctx.violation(SIG_EXTJS if (rec and any("IndexError" in e for e in r["errors"])) else "jobserver:free-running-error:" + r["errors"][0][:40],
                          "free running semaphore: %s" % r["errors"][:2], rep)
        elif r["max"] > lim:
            ctx.violation(SIG_EXTJS if rec else "jobserver:more-tasks-inside-than-tokens",
                          "%d tasks inside with %d slots" % (r["max"], lim), rep)
        elif r["pipe"] != list(range(1, ntok + 1)) or r["acquired"] != 0 or r["tokens"] != 0:
            ctx.violation("jobserver:token-not-returned", "after all tasks finished: pipe %r acquired %d tokens %d" % (r["pipe"], r["acquired"], r["tokens"]), rep)
        else:
            ctx.validated()
            if r["max"] == lim and nt > lim:
                ctx.nontrivial(("sem-free", i))


# ====================================================================== (3) real builds

WRAPPER = r'''
# observation wrapper around the bob command line (generated by harness/props/c06.py)
import sys, os, json, asyncio
EV = os.environ["C06_EVENTS"]; GR = os.environ["C06_GRAPH"]
_evf = open(EV, "a", buffering=1) if __name__ == "__main__" else None
def ev(**kw):
    _evf.write(json.dumps(kw) + "\n")
def tid():
    t = asyncio.current_task()
    return id(t) if t is not None else 0

def install():
    import bob.builder as B
    import bob.invoker as I
    # --- job tokens: wrap whatever semaphore JobServer hands to the builder
    import fcntl, termios, struct
    class Proxy:
        def __init__(self, inner): self.inner = inner
        def snap(self):
            s = self.inner; P = "_JobServerSemaphore__"
            if not hasattr(s, P + "tokens"): return
            n = struct.unpack("i", fcntl.ioctl(getattr(s, P + "fds")[0], termios.FIONREAD, b"\0\0\0\0"))[0]
            ev(ev="sem", acquired=getattr(s, P + "acquired"), waiters=getattr(s, P + "waitersCnt"),
               tokens=len(getattr(s, P + "tokens")), pipe=n, recursive=getattr(s, P + "recursive"))
        async def acquire(self):
            r = await self.inner.acquire(); ev(ev="acq", task=tid()); self.snap(); return r
        def release(self):
            ev(ev="rel", task=tid()); r = self.inner.release(); self.snap(); return r
        async def __aenter__(self):
            await self.acquire(); return None
        async def __aexit__(self, a, b, c):
            self.release()
    oenter = B.JobServer.__enter__
    def enter(self):
        js, sem = oenter(self)
        ev(ev="jobserver", kind=type(sem).__name__)
        return js, Proxy(sem)
    B.JobServer.__enter__ = enter
    # --- scripts
    oinit = I.Invoker.__init__
    def init(self, spec, *a, **kw):
        self._c06_ws = getattr(spec, "workspaceWorkspacePath", None)
        return oinit(self, spec, *a, **kw)
    I.Invoker.__init__ = init
    oexec = I.Invoker.executeStep
    async def executeStep(self, mode, *a, **kw):
        ws = os.path.relpath(self._c06_ws) if self._c06_ws else None
        ev(ev="xs", ws=ws, task=tid(), mode=str(getattr(mode, "value", mode)))
        ret = None
        try:
            ret = await oexec(self, mode, *a, **kw)
            return ret
        finally:
            ev(ev="xe", ws=ws, task=tid(), ret=ret)
    I.Invoker.executeStep = executeStep
    # --- the step graph
    ocook = B.LocalBuilder.cook
    def cook(self, steps, checkoutOnly, loop, depth=0):
        nodes = {}
        def key(s):
            sb = s.getSandbox()
            return os.path.relpath(s.getWorkspacePath()) + "|" + (sb.getStep().getVariantId().hex() if sb else "")
        def visit(s):
            if not s.isValid(): return None
            k = key(s)
            if k in nodes: return k
            nodes[k] = None
            deps = [visit(d) for d in s.getAllDepSteps()]
            nodes[k] = {"ws": os.path.relpath(s.getWorkspacePath()), "exec": s.getExecPath(),
                        "kind": "checkout" if s.isCheckoutStep() else "build" if s.isBuildStep() else "package",
                        "pkg": "/".join(s.getPackage().getStack()), "recipe": s.getPackage().getRecipe().getName(),
                        "deps": [d for d in deps if d is not None], "order": len([v for v in nodes.values() if v is not None])}
            return k
        roots = [visit(s) for s in steps]
        with open(GR, "a") as f:
            f.write(json.dumps({"roots": [r for r in roots if r], "nodes": nodes, "checkoutOnly": bool(checkoutOnly)}) + "\n")
        ev(ev="cook")
        return ocook(self, steps, checkoutOnly, loop, depth)
    B.LocalBuilder.cook = cook

if __name__ == "__main__":
    install()
    from bob.scripts import bob
    sys.exit(bob(os.environ["C06_BOBROOT"]))
'''

STEP_HEAD = r'''_id="%(id)s"
echo "S $PWD $_id" >> "$C06_LOG"
_d=$(echo " ${C06_DUR:-} " | sed -n "s/.* $_id=\([0-9.]*\) .*/\1/p")
sleep ${_d:-0.03}
case " ${C06_FAIL:-} " in *" $_id "*) echo "E $PWD $_id 1" >> "$C06_LOG"; exit 1 ;; esac
'''
STEP_TAIL = 'echo "E $PWD $_id 0" >> "$C06_LOG"\n'


def gen_project(rng, logdir, feats):
    """recipes as dicts; returns desc, step ids"""
    nlib = rng.randint(3, 7)
    libs = ["l%d" % i for i in range(nlib)]
    recipes = {}
    ids = []
    sandboxes = []
    if feats["sandbox"]:
        for sb in ["sba", "sbb", "sbc"][:rng.choice([2, 3])]:
            sandboxes.append(sb)
            sid = "%s:package" % sb
            ids.append(sid)
            recipes[sb] = {
                "packageScript": STEP_HEAD % {"id": sid} + 'echo "canary %s" > canary.txt\n' % sb + STEP_TAIL,
                "provideSandbox": {"paths": ["/usr/local/bin", "/usr/bin", "/bin"],
                                   "mount": proj.HOST_MOUNTS + [["@LOGDIR@", "@LOGDIR@", ["rw"]]]}}
    variant_libs = set()
    for i in reversed(range(nlib)):
        nm = libs[i]
        lower = libs[i + 1:]
        r = {}
        deps = []
        if lower:
            for d in rng.sample(lower, rng.randint(0, min(3, len(lower)))):
                if feats["variants"] and rng.random() < 0.35:
                    deps.append({"name": d, "environment": {"VT": rng.choice(["a", "b"])}})
                    variant_libs.add(d)
                else:
                    deps.append(d)
        if deps:
            r["depends"] = deps
        bid = "%s:build" % nm
        pid = "%s:package" % nm
        has_co = feats["checkout"] and rng.random() < 0.45
        if has_co:
            cid = "%s:checkout" % nm
            ids.append(cid)
            r["checkoutDeterministic"] = True
            r["checkoutScript"] = STEP_HEAD % {"id": cid} + 'echo "src %s" > src.txt\n' % nm + STEP_TAIL
        ids += [bid, pid]
        r["buildVars"] = ["VT"]
        r["buildScript"] = (STEP_HEAD % {"id": bid} +
                            '{ echo "%s VT=${VT:-}"; for a in "$@"; do for f in "$a"/*.txt; do [ -e "$f" ] && sed "s/^/  /" "$f"; done; done; } > result.txt\n' % nm
                            + STEP_TAIL)
        r["packageScript"] = STEP_HEAD % {"id": pid} + 'cp "$1"/result.txt .\n' + STEP_TAIL
        recipes[nm] = r
    # users: each under (possibly) another sandbox, all depending on shared libs
    users = []
    nuser = rng.randint(2, 4)
    for u in range(nuser):
        nm = "u%d" % u
        users.append(nm)
        deps = []
        if sandboxes and rng.random() < 0.85:
            deps.append({"name": sandboxes[u % len(sandboxes)], "use": ["sandbox"], "forward": True})
        shared = rng.sample(libs, rng.randint(1, min(3, len(libs))))
        if feats["f7"]:
            shared = sorted(set(shared + [libs[-1]]))
        for d in shared:
            if feats["variants"] and d in variant_libs and rng.random() < 0.5:
                deps.append({"name": d, "environment": {"VT": rng.choice(["a", "b"])}})
            else:
                deps.append(d)
        bid, pid = "%s:build" % nm, "%s:package" % nm
        ids += [bid, pid]
        recipes[nm] = {"depends": deps, "buildVars": ["VT"],
                       "buildScript": STEP_HEAD % {"id": bid} +
                       '{ echo "%s"; for a in "$@"; do for f in "$a"/*.txt; do [ -e "$f" ] && sed "s/^/  /" "$f"; done; done; } > result.txt\n' % nm
                       + STEP_TAIL,
                       "packageScript": STEP_HEAD % {"id": pid} + 'cp "$1"/result.txt .\n' + STEP_TAIL}
    ids += ["root:build", "root:package"]
    recipes["root"] = {"root": True, "depends": users + ([libs[0]] if rng.random() < 0.5 else []),
                       "buildScript": STEP_HEAD % {"id": "root:build"} +
                       '{ echo root; for a in "$@"; do for f in "$a"/*.txt; do [ -e "$f" ] && sed "s/^/  /" "$f"; done; done; } > result.txt\n'
                       + STEP_TAIL,
                       "packageScript": STEP_HEAD % {"id": "root:package"} + 'cp "$1"/result.txt .\n' + STEP_TAIL}
    desc = {"recipes": recipes, "classes": {}, "config": {"bobMinimumVersion": "0.25"},
            "default": {"whitelist": ["C06_LOG", "C06_DUR", "C06_FAIL"]}}
    return desc, ids


def tree_digest(root, kind="dist"):
    """relative path + content of every file below dev/<kind>/*/*/workspace"""
    out = {}
    for ws in sorted(glob.glob(os.path.join(root, "dev", kind, "*", "*", "workspace"))):
        for dp, dn, fn in os.walk(ws):
            dn.sort()
            for f in sorted(fn):
                p = os.path.join(dp, f)
                try:
                    out[os.path.relpath(p, root)] = hashlib.sha1(open(p, "rb").read()).hexdigest()[:16]
                except OSError:
                    out[os.path.relpath(p, root)] = "unreadable"
    return out


def reap_scratch(d):
    """kill processes left behind by a (killed) build below our own scratch directory d
    (multiprocessing fork servers live in their own session)"""
    d = os.path.realpath(d)
    for pid in os.listdir("/proc"):
        if not pid.isdigit() or int(pid) == os.getpid():
            continue
        try:
            cwd = os.path.realpath(os.readlink("/proc/%s/cwd" % pid))
            cmd = open("/proc/%s/cmdline" % pid, "rb").read().decode(errors="replace")
        except OSError:
            continue
        if cwd.startswith(d + "/") or cwd == d or (d + "'") in cmd or (d + "/") in cmd:
            try:
                os.kill(int(pid), 9)
            except OSError:
                pass


def run_watched(cmd, cwd, env, outfile, watch, stall, cap):
    """run cmd; a run counts as hanging when none of the watched files (and the
    output file) grew for `stall` seconds, or after `cap` seconds. Returns (rc|None, hang)"""
    with open(outfile, "wb") as of:
        p = subprocess.Popen(cmd, cwd=cwd, env=env, stdout=of, stderr=subprocess.STDOUT, start_new_session=True)
        t0 = last = time.time()
        sizes = None
        while True:
            try:
                rc = p.wait(timeout=0.25)
                return rc, False
            except subprocess.TimeoutExpired:
                pass
            cur = tuple(os.path.getsize(f) if os.path.exists(f) else 0 for f in list(watch) + [outfile])
            now = time.time()
            if cur != sizes:
                sizes, last = cur, now
            if now - last > stall or now - t0 > cap:
                try:
                    os.killpg(p.pid, 9)
                except OSError:
                    pass
                p.wait()
                return None, True


def run_build(desc, args, durations, failing, timeout, extra_env=None, keep_dir=False):
    """one real bob invocation on a fresh copy of the project; returns a dict"""
    d = core.scratch_dir("c06")
    res = {"args": list(args), "failing": sorted(failing)}
    try:
        logdir = desc["_logdir"]
        pd = os.path.join(d, "p")
        os.makedirs(pd)
        pdesc = json.loads(json.dumps({k: v for k, v in desc.items() if not k.startswith("_")}).replace("@LOGDIR@", logdir))
        proj.write_project(pdesc, pd)
        wrap = os.path.join(d, "bobwrap.py")
        with open(wrap, "w") as f:
            f.write(WRAPPER)
        log = os.path.join(logdir, "log-%s.txt" % os.path.basename(d))
        open(log, "w").close()
        env = proj.bob_env({"C06_LOG": log, "C06_EVENTS": os.path.join(d, "events.jsonl"),
                            "C06_GRAPH": os.path.join(d, "graph.jsonl"), "C06_BOBROOT": os.path.join(core.REPO, "bob"),
                            "C06_DUR": " ".join("%s=%s" % kv for kv in sorted(durations.items())),
                            "C06_FAIL": " ".join(sorted(failing))})
        if extra_env:
            env.update(extra_env)
        t0 = time.time()
        outf = os.path.join(d, "out.txt")
        rc, hang = run_watched(["/venv/bin/python", wrap] + list(args), pd, env, outf,
                               [log, os.path.join(d, "events.jsonl")], timeout, 20 * timeout)
        res["rc"], res["hang"] = rc, hang
        res["out"] = open(outf, errors="replace").read()[-3000:]
        res["wall"] = round(time.time() - t0, 2)
        res["events"] = [json.loads(l) for l in open(os.path.join(d, "events.jsonl"))] if os.path.exists(os.path.join(d, "events.jsonl")) else []
        res["graphs"] = [json.loads(l) for l in open(os.path.join(d, "graph.jsonl"))] if os.path.exists(os.path.join(d, "graph.jsonl")) else []
        res["script_log"] = [l.split() for l in open(log).read().split("\n") if l.strip()]
        res["root"] = pd
        res["dist"] = tree_digest(pd)
        res["src"] = tree_digest(pd, "src")
        os.unlink(log)
        return res
    finally:
        reap_scratch(d)
        if not keep_dir:
            shutil.rmtree(d, ignore_errors=True)


class Graph:
    """task keys of one cook() call, numbered in dependency order, plus one
    dispatcher node per root"""
    def __init__(self, g):
        nodes = g["nodes"]
        order = []
        seen = set()

        def visit(k):
            if k in seen:
                return
            seen.add(k)
            for d in nodes[k]["deps"]:
                visit(d)
            order.append(k)
        for r in g["roots"]:
            visit(r)
        for k in sorted(nodes):
            visit(k)
        self.keys = order
        self.idx = {k: i for i, k in enumerate(order)}
        self.wss = sorted({nodes[k]["ws"] for k in order})
        self.wsid = {w: i for i, w in enumerate(self.wss)}
        self.nodes = nodes
        self.roots = g["roots"]
        self.nreal = len(order)
        self.nn = len(order) + len(self.roots)
        self.by_exec = {}
        for k in order:
            self.by_exec[nodes[k]["exec"]] = nodes[k]["ws"]
            self.by_exec[os.path.abspath(os.path.join("/", nodes[k]["ws"]))] = nodes[k]["ws"]
        self.virt_ws = len(self.wss)   # workspaces of dispatcher nodes: fresh numbers

    def step_id(self, ws):
        for k in self.keys:
            n = self.nodes[k]
            if n["ws"] == ws:
                return "%s:%s" % (n["recipe"], n["kind"])
        return None

    def coq_nodes(self):
        items = []
        for k in self.keys:
            n = self.nodes[k]
            items.append("(mkNode %d%%nat %s None false %s)" % (
                self.wsid[n["ws"]], L.lst(["%d%%nat" % self.idx[d] for d in n["deps"]]) if n["deps"] else "(@nil nat)",
                L.B(n["kind"] == "build")))
        for j, r in enumerate(self.roots):
            items.append("(mkNode %d%%nat [%d%%nat] None true false)" % (self.virt_ws + j, self.idx[r]))
        return L.lst(items)

    def coq_cfg(self, failing_ws, jobs, keep):
        return "(mk_cfg %s %s %s %d%%nat %s true true)" % (
            self.coq_nodes(), L.lst(["%d%%nat" % self.wsid[w] for w in failing_ws]) if failing_ws else "(@nil nat)",
            L.lst(["%d%%nat" % (self.nreal + j) for j in range(len(self.roots))]), jobs, L.B(keep))

    def dirty_ws(self, failing_ws):
        """workspaces all of whose task keys have a failing step in their cone / those with a clean key"""
        memo = {}

        def dirty(k):
            if k not in memo:
                n = self.nodes[k]
                memo[k] = n["ws"] in failing_ws or any(dirty(d) for d in n["deps"])
            return memo[k]
        clean, dirt = set(), set()
        for k in self.keys:
            (dirt if dirty(k) else clean).add(self.nodes[k]["ws"])
        return clean, dirt


def check_run(ctx, label, desc, g, res, jobs, keep, failing_ids, case):
    """oracle on the in-process event stream and on the script log; returns
    (ok, visible trace as (kind, ws, ok) list)"""
    rep = dict(case, observed={"rc": res["rc"], "hang": res["hang"], "tail": res["out"][-800:]})
    if res["hang"]:
        ctx.violation(case.get("hang_sig", "deadlock:build-does-not-terminate"),
                      "bob %s made no progress for 60 s and was killed (%s)" % (" ".join(res["args"]), label), rep)
        return False, []
    if "Traceback" in res["out"] or "internal Exception" in res["out"]:
        ctx.violation("internal-exception-during-parallel-build", "bob %s printed a traceback (%s)" % (" ".join(res["args"]), label), rep)
        return False, []
    failing_ws = {n["ws"] for n in g.nodes.values() if "%s:%s" % (n["recipe"], n["kind"]) in failing_ids}
    holders = collections.Counter()
    running = {}            # ws -> task
    started, ended_ok, failed = [], set(), False
    trace = []
    deps_of = collections.defaultdict(list)
    for k in g.keys:
        deps_of[g.nodes[k]["ws"]].append([g.nodes[d]["ws"] for d in g.nodes[k]["deps"]])

    def bad(sig, what):
        ctx.violation(sig, "%s [%s, bob %s]" % (what, label, " ".join(res["args"])), rep)
        return False, trace
    for e in res["events"]:
        k = e["ev"]
        if k == "acq":
            holders[e["task"]] += 1
            if holders[e["task"]] > 1:
                return bad("jobserver:task-holds-two-tokens", "a task acquired a second job token")
            if sum(holders.values()) > jobs:
                return bad("jobs-exceeded:tokens-held", "%d job tokens held with -j%d" % (sum(holders.values()), jobs))
        elif k == "rel":
            holders[e["task"]] -= 1
            if holders[e["task"]] < 0:
                return bad("jobserver:release-without-acquire", "a task released a token it did not hold")
        elif k == "sem":
            # the internal job server: every token is in the pipe or on the token stack, one per slot in use
            if not e["recursive"]:
                if e["tokens"] + e["pipe"] != jobs:
                    return bad("jobserver:token-lost-or-duplicated", "%d tokens held + %d in the pipe with -j%d" % (e["tokens"], e["pipe"], jobs))
                if e["acquired"] != e["tokens"]:
                    return bad("jobserver:more-slots-than-tokens", "acquired=%d with %d tokens held" % (e["acquired"], e["tokens"]))
        elif k == "xs":
            ws = e["ws"]
            if ws not in g.wsid:
                ctx.tie_broken("script-in-unknown-workspace", {"ws": ws, "label": label})
                return False, trace
            if holders[e["task"]] < 1:
                return bad("script-started-without-job-token", "script of %s started by a task that holds no job token" % ws)
            if len(running) >= jobs:
                return bad("jobs-exceeded:scripts-running", "%d scripts running with -j%d" % (len(running) + 1, jobs))
            if ws in running:
                return bad("workspace-executed-concurrently", "two scripts at once in %s" % ws)
            if ws in ended_ok:
                return bad("workspace-executed-twice", "%s executed again after it succeeded" % ws)
            if ws in started:
                if keep:
                    return bad(SIG_KG, "%s (failing) executed again by another task key" % ws)
                return bad("workspace-executed-twice", "%s executed twice" % ws)
            if failed and not keep:
                return bad("step-started-after-failure-without-keep-going", "%s started after a step had failed" % ws)
            if not any(all(d in ended_ok for d in ds) for ds in deps_of[ws]):
                return bad("step-started-before-dependencies-finished", "%s started before all of its dependencies had finished successfully" % ws)
            running[ws] = e["task"]
            started.append(ws)
            trace.append(("S", ws, True))
        elif k == "xe":
            ws = e["ws"]
            if running.get(ws) != e["task"]:
                return bad("script-end-without-start", "end of a script in %s that was not running" % ws)
            if holders[e["task"]] < 1:
                return bad("job-token-lost-while-script-running", "the task running %s gave its token away" % ws)
            del running[ws]
            ok = e["ret"] == 0
            if ok != (ws not in failing_ws):
                ctx.tie_broken("injected-failure-not-observed", {"ws": ws, "ret": e["ret"], "label": label})
                return False, trace
            if ok:
                ended_ok.add(ws)
            else:
                failed = True
            trace.append(("E", ws, ok))
    if running:
        return bad("script-still-running-at-exit", "scripts still running when bob exited: %r" % sorted(running))
    if any(v != 0 for v in holders.values()):
        return bad("job-token-not-returned", "job tokens still held when bob exited (rc=%s)" % res["rc"])
    # outcome
    clean, dirt = g.dirty_ws(failing_ws)
    if not failing_ws:
        if res["rc"] != 0:
            return bad("build-failed-without-injected-failure", "bob exited with %s" % res["rc"])
        if set(started) != set(g.wss):
            return bad("not-every-step-executed", "executed %d of %d workspaces" % (len(set(started)), len(g.wss)))
    else:
        if res["rc"] == 0:
            return bad("failure-not-reported", "bob exited 0 although %r fail" % sorted(failing_ids))
        if keep:
            # A failing *checkout* fails every dependent (also the root) already while its Build-Id is
            # computed, i.e. before the dependent requests its other dependencies: nothing else is requested
            # then. Only for build/package failures every step with a clean cone must still be built.
            co_fail = any(i.endswith(":checkout") for i in failing_ids)
            missing = [] if co_fail else [w for w in clean if w not in ended_ok and w not in dirt]
            if missing:
                return bad("keep-going:independent-step-not-built", "steps independent of the failure were not built: %r" % missing[:3])
            wrong = [w for w in ended_ok if w not in clean]
            if wrong:
                return bad("step-built-although-dependency-failed", "%r" % wrong[:3])
    # the script log (robust subset: order of the scripts' own start/end lines)
    run2, done2, seen2 = set(), set(), set()
    for l in res["script_log"]:
        if len(l) < 3:
            continue
        ws = g.by_exec.get(l[1])                      # path inside a sandbox
        if ws is None and l[1].startswith(res["root"]):
            ws = os.path.relpath(l[1], res["root"])
        if ws not in g.wsid:
            ctx.tie_broken("script-log-unknown-workspace", {"line": l, "label": label})
            return False, trace
        if l[0] == "S":
            if len(run2) >= jobs:
                return bad("jobs-exceeded:scripts-running", "script log: %d scripts running with -j%d" % (len(run2) + 1, jobs))
            if ws in run2:
                return bad("workspace-executed-concurrently", "script log: two scripts at once in %s" % ws)
            if ws in done2:
                return bad("workspace-executed-twice", "script log: %s executed again" % ws)
            if ws in seen2:
                return bad(SIG_KG if keep else "workspace-executed-twice", "script log: %s executed twice" % ws)
            if not any(all(d in done2 for d in ds) for ds in deps_of[ws]):
                return bad("step-started-before-dependencies-finished", "script log: %s started before its dependencies" % ws)
            run2.add(ws); seen2.add(ws)
        elif l[0] == "E":
            run2.discard(ws)
            if l[-1] == "0":
                done2.add(ws)
    return True, trace


def trace_coq(g, trace):
    return L.lst(["(EvStart %d%%nat)" % g.wsid[w] if k == "S" else "(EvEnd %d%%nat %s)" % (g.wsid[w], L.B(ok))
                  for k, w, ok in trace]) if trace else "(@nil event)"


def project_family(ctx, idx, feats, logdir):
    """one generated project and its runs: list of (tag, args, jobs, keep, failing, durations)"""
    rng = ctx.rng
    desc, ids = gen_project(rng, logdir, feats)
    desc["_logdir"] = logdir
    sb = ["--sandbox"] if feats["sandbox"] else []

    def durs():
        mode = rng.choice(["uniform", "skewed", "tiny"])
        if mode == "tiny":
            return {i: "0.01" for i in ids}
        if mode == "uniform":
            return {i: "%.2f" % rng.uniform(0.02, 0.12) for i in ids}
        return {i: ("%.2f" % rng.choice([0.01, 0.02, 0.3])) for i in ids}
    runs = [("j1", ["dev"] + sb + ["-j1", "root"], 1, False, [], durs())]
    for _ in range(feats["nruns"]):
        j = rng.choice([2, 2, 3, 4, 6, 8])
        runs.append(("j%d" % j, ["dev"] + sb + ["-j%d" % j, "root"], j, False, [], durs()))
    if feats["failures"]:
        cand = [i for i in ids if not i.startswith(("root", "sb"))]
        f = rng.sample(cand, rng.choice([1, 1, 2]))
        j = rng.choice([2, 3, 4])
        runs.append(("j1k-fail", ["dev"] + sb + ["-j1", "-k", "root"], 1, True, f, durs()))
        runs.append(("j%dk-fail" % j, ["dev"] + sb + ["-j%d" % j, "-k", "root"], j, True, f, durs()))
        runs.append(("j%d-fail" % j, ["dev"] + sb + ["-j%d" % j, "root"], j, False, f, durs()))
    return desc, ids, runs


def run_builds(ctx):
    rng = ctx.rng
    logdir = core.scratch_dir("c06log")
    cases, meta = [], []
    try:
        nproj = ctx.n(6, 30)
        fams = []
        for i in range(nproj):
            feats = {"sandbox": i % 3 == 0, "variants": rng.random() < 0.6, "checkout": rng.random() < 0.7,
                     "f7": i % 3 == 0, "failures": i % 2 == 1, "nruns": ctx.n(2, 3)}
            fams.append((i, feats) + project_family(ctx, i, feats, logdir))
        only = os.environ.get("C06_ONLY")      # debugging aid: run only this project index
        if only is not None:
            fams = [f for f in fams if f[0] == int(only)]
        jobs_list = [(fi, ri) for fi, fam in enumerate(fams) for ri in range(len(fam[4]))]
        timeout = 60      # seconds without any progress (event, log line, output) = hang

        def one(t):
            fi, ri = t
            i, feats, desc, ids, runs = fams[fi]
            tag, args, j, keep, failing, durations = runs[ri]
            try:
                return run_build(desc, args, durations, set(failing), timeout)
            except Exception:
                return {"error": traceback.format_exc()[-1500:]}
        with ThreadPoolExecutor(max_workers=4) as ex:
            results = list(ex.map(one, jobs_list))
        by = collections.defaultdict(dict)
        for (fi, ri), r in zip(jobs_list, results):
            by[fi][ri] = r
        for fi, fam in enumerate(fams):
            i, feats, desc, ids, runs = fam
            base = None
            kbase = None
            for ri, (tag, args, j, keep, failing, durations) in enumerate(runs):
                r = by[fi][ri]
                label = "project %d %s" % (i, tag)
                case = {"kind": "build", "desc": {k: v for k, v in desc.items() if not k.startswith("_")}, "args": args,
                        "durations": durations, "failing": failing, "jobs": j, "keep": keep}
                if "error" in r:
                    ctx.tie_broken("build-runner", {"label": label, "error": r["error"]})
                    continue
                ctx.evaluated()
                ctx.count("build:-j%d%s%s%s" % (j, " -k" if keep else "", " fail" if failing else "", " sandbox" if feats["sandbox"] else ""))
                if not r["graphs"]:
                    if r["hang"]:
                        check_run(ctx, label, desc, None, r, j, keep, failing, case)
                    else:
                        ctx.tie_broken("no-graph-dumped", {"label": label, "out": r["out"][-600:]})
                    continue
                g = Graph(r["graphs"][0])
                ok, trace = check_run(ctx, label, desc, g, r, j, keep, set(failing), case)
                nsem = sum(1 for e in r["events"] if e["ev"] == "sem")
                ctx.evaluated(len(trace) + nsem)
                if not ok:
                    continue
                ctx.validated(nsem)          # job server states of the real build satisfy conservation and the bound
                ctx.count("build:jobserver-states-checked", nsem)
                shared_ws = len(g.keys) - len(g.wss)
                if shared_ws:
                    ctx.count("build:workspace-under-several-task-keys")
                if j > 1 and len(trace) > 4:
                    ctx.nontrivial(("build", i, tag, tuple(trace)))
                # dist tree against the sequential build of the same project
                if not failing:
                    if tag == "j1":
                        base = r["dist"]
                    elif base is not None and r["dist"] != base:
                        diff = sorted(set(base.items()) ^ set(r["dist"].items()))[:4]
                        ctx.violation("parallel-result-differs-from-sequential",
                                      "dist/ of -j%d differs from the -j1 build: %r [%s]" % (j, diff, label), case)
                        continue
                elif keep:
                    if j == 1:
                        kbase = r["dist"]
                    elif kbase is not None and r["dist"] != kbase:
                        diff = sorted(set(kbase.items()) ^ set(r["dist"].items()))[:4]
                        ctx.violation("parallel-result-differs-from-sequential",
                                      "dist/ of -j%d -k differs from the -j1 -k build: %r [%s]" % (j, diff, label), case)
                        continue
                failing_ws = sorted({n["ws"] for n in g.nodes.values() if "%s:%s" % (n["recipe"], n["kind"]) in set(failing)})
                cases.append(("(%s, %d%%nat, %s)" % (g.coq_cfg(failing_ws, j, keep), g.nn, trace_coq(g, trace)), "true"))
                meta.append({"label": label, "events": len(trace), "nodes": g.nn})
                if len(ctx.cov["samples"]) < 6 and j > 1:
                    ctx.sample({"build": label, "args": args, "task_keys": len(g.keys), "workspaces": len(g.wss),
                                "trace_head": ["%s %s" % (k, w) for k, w, _ in trace[:8]], "wall_s": r["wall"]})
        bad, log = coq.run_cases(ctx, REQ,
                                 "(fun i => cfg_wf (fst (fst i)) (snd (fst i)) && accept (fst (fst i)) (snd (fst i)) true (snd i))",
                                 "Bool.eqb", cases, shard=ctx.n(40, 25), tag="trace")
        if bad is None:
            ctx.tie_broken("trace monitor evaluation failed", log)
        else:
            bs = set(bad)
            ctx.validated(sum(m["events"] for k, m in enumerate(meta) if k not in bs))
            for k in bad[:5]:
                ctx.tie_broken("trace-not-accepted-by-scheduler-model", meta[k])
    finally:
        shutil.rmtree(logdir, ignore_errors=True)


# ====================================================================== --checkout-only builds
def gen_co_project(rng, logdir):
    """a tool that is needed in both modes of a checkout-only build: by checkout steps (checkoutTools: it has
    to be built completely) and by the ordinary traversal (buildTools of other packages, where only its
    sources are checked out)"""
    def head(i): return STEP_HEAD % {"id": i}
    ids = ["gen:checkout", "gen:build", "gen:package"]
    recipes = {"gen": {"checkoutDeterministic": True,
                       "checkoutScript": head("gen:checkout") + "printf '#!/bin/sh\\necho \"generated for $1\"\\n' > gen\nchmod +x gen\n" + STEP_TAIL,
                       "buildScript": head("gen:build") + 'cp "$1"/gen .\n' + STEP_TAIL,
                       "packageScript": head("gen:package") + 'cp "$1"/gen .\n' + STEP_TAIL,
                       "provideTools": {"gen": "."}}}
    libs = ["cl%d" % i for i in range(rng.randint(1, 3))]
    for nm in libs:
        ids += ["%s:checkout" % nm]
        recipes[nm] = {"checkoutTools": ["gen"], "checkoutDeterministic": True,
                       "checkoutScript": head("%s:checkout" % nm) + 'gen %s > source.txt\n' % nm + STEP_TAIL,
                       "buildScript": 'cp "$1"/source.txt lib.txt\n', "packageScript": 'cp "$1"/lib.txt .\n'}
    apps = ["ca%d" % i for i in range(rng.randint(1, 2))]
    for nm in apps:
        ids += ["%s:checkout" % nm]
        recipes[nm] = {"depends": rng.sample(libs, rng.randint(1, len(libs))), "buildTools": ["gen"], "checkoutDeterministic": True,
                       "checkoutScript": head("%s:checkout" % nm) + 'echo %s > source.txt\n' % nm + STEP_TAIL,
                       "buildScript": 'gen %s > app.txt\n' % nm, "packageScript": 'cp "$1"/app.txt .\n'}
    first = [{"name": "gen", "use": ["tools"], "forward": True}]
    rest = apps + [l for l in libs if rng.random() < 0.3]
    rng.shuffle(rest)
    recipes["root"] = {"root": True, "depends": first + rest, "buildScript": "true\n", "packageScript": "true\n"}
    desc = {"recipes": recipes, "classes": {}, "config": {"bobMinimumVersion": "0.25"},
            "default": {"whitelist": ["C06_LOG", "C06_DUR", "C06_FAIL"]}, "_logdir": logdir}
    return desc, ids, libs


def run_checkout_only(ctx):
    rng = ctx.rng
    logdir = core.scratch_dir("c06log")
    try:
        jobs = []
        for i in range(ctx.n(3, 12)):
            desc, ids, libs = gen_co_project(rng, logdir)
            runs = [1] + [rng.choice([2, 3, 4, 8]) for _ in range(ctx.n(2, 3))]
            for j in runs:
                dur = {x: "0.01" for x in ids}
                dur["gen:checkout"] = rng.choice(["0.3", "0.15", "0.02"])
                jobs.append((i, desc, libs, j, dur))

        def one(t):
            i, desc, libs, j, dur = t
            try:
                return run_build(desc, ["dev", "--checkout-only", "-j%d" % j, "root"], dur, set(), 60)
            except Exception:
                return {"error": traceback.format_exc()[-1500:]}
        with ThreadPoolExecutor(max_workers=4) as ex:
            results = list(ex.map(one, jobs))
        base = {}
        for (i, desc, libs, j, dur), r in zip(jobs, results):
            case = {"kind": "checkout-only", "desc": {k: v for k, v in desc.items() if not k.startswith("_")},
                    "args": ["dev", "--checkout-only", "-j%d" % j, "root"], "durations": dur, "jobs": j}
            if "error" in r:
                ctx.tie_broken("build-runner", {"label": "checkout-only %d" % i, "error": r["error"]}); continue
            ctx.evaluated(); ctx.count("checkout-only:-j%d" % j)
            if j == 1:
                base[i] = r
                if r["rc"] != 0:
                    ctx.tie_broken("checkout-only-sequential-build-failed", {"out": r["out"][-800:]})
                continue
            b = base.get(i)
            if b is None or b["rc"] != 0:
                continue
            ctx.nontrivial(("checkout-only", i, j, tuple(tuple(l) for l in r["script_log"])))
            # a checkout step that uses the tool starts only after the tool was packaged
            log = r["script_log"]
            done = [k for k, l in enumerate(log) if l[0] == "E" and l[2] == "gen:package" and l[-1] == "0"]
            early = [l[2] for k, l in enumerate(log) if l[0] == "S" and l[2].split(":")[0] in libs and (not done or k < done[0])]
            if early:
                ctx.violation("step-started-before-dependency-finished",
                              "checkout-only -j%d: %s started before its checkout tool was packaged (script log %r)" % (j, early, log[:8]), case)
            elif r["hang"] or r["rc"] != 0:
                ctx.violation("parallel-result-differs-from-sequential",
                              "checkout-only -j%d ends with rc=%r hang=%r while -j1 succeeds: %s" % (j, r["rc"], r["hang"], r["out"][-300:]), case)
            elif r["src"] != b["src"]:
                diff = sorted(set(b["src"].items()) ^ set(r["src"].items()))[:4]
                ctx.violation("parallel-result-differs-from-sequential", "sources of checkout-only -j%d differ from -j1: %r" % (j, diff), case)
            else:
                ctx.validated()
    finally:
        shutil.rmtree(logdir, ignore_errors=True)


# ====================================================================== corpus: the recorded findings

def corpus_dir():
    return os.path.join(core.VERIF, "corpus", "C06")


def run_plain_bob(src, args, timeout, env=None, patch=None):
    d = core.scratch_dir("c06c")
    try:
        pd = os.path.join(d, "p")
        shutil.copytree(src, pd)
        if patch:
            patch(pd)
        outf = os.path.join(d, "out.txt")
        rc, hang = run_watched(["/venv/bin/python", os.path.join(core.REPO, "bob")] + list(args), pd, proj.bob_env(env),
                               outf, [], timeout, 20 * timeout)
        return {"rc": rc, "out": open(outf, errors="replace").read()[-4000:], "hang": hang}
    finally:
        reap_scratch(d)
        shutil.rmtree(d, ignore_errors=True)


def run_corpus(ctx):
    # F7: one step under three sandboxes, -j2 (fixed by fbe6edb)
    f7 = os.path.join(corpus_dir(), "f7_project")
    r = run_plain_bob(f7, ["dev", "--sandbox", "-j2", "root"], 60)
    ctx.evaluated(); ctx.count("corpus:f7")
    rep = {"kind": "corpus", "project": "corpus/C06/f7_project", "args": ["dev", "--sandbox", "-j2", "root"], "tail": r["out"][-600:]}
    if r["hang"]:
        ctx.violation(SIG_DEADLOCK, "bob dev --sandbox -j2 root on corpus/C06/f7_project hangs (one step under three sandboxes, two tokens)", rep)
    elif r["rc"] != 0:
        ctx.violation("f7-project-build-fails", "bob dev --sandbox -j2 root on corpus/C06/f7_project exits %s" % r["rc"], rep)
    else:
        ctx.validated(); ctx.nontrivial("corpus:f7")
    # external job server without free tokens (fixed by 0a01ba7)
    d = core.scratch_dir("c06x")
    try:
        fifo = os.path.join(d, "js.fifo")
        os.mkfifo(fifo)
        fd = os.open(fifo, os.O_RDWR)
        try:
            r = run_plain_bob(os.path.join(corpus_dir(), "extjs_project"), ["dev", "root"], 60,
                              env={"MAKEFLAGS": "-j3 --jobserver-auth=fifo:%s" % fifo})
            left = b""
            os.set_blocking(fd, False)
            try:
                left = os.read(fd, 64)
            except BlockingIOError:
                pass
        finally:
            os.close(fd)
        ctx.evaluated(); ctx.count("corpus:extjs")
        rep = {"kind": "corpus", "project": "corpus/C06/extjs_project", "repro": "corpus/C06/extjs_repro.sh", "tail": r["out"][-600:]}
        if r["hang"] or "IndexError" in r["out"]:
            ctx.violation(SIG_EXTJS, "bob dev root below an external job server without free tokens (MAKEFLAGS=-j3 --jobserver-auth=fifo:...) over-subscribes its implicit slot and hangs", rep)
        elif r["rc"] != 0:
            ctx.violation("extjs-project-build-fails", "exit %s" % r["rc"], rep)
        elif left:
            ctx.violation("jobserver:token-duplicated-into-external-pipe", "%d bytes appeared in the external job server pipe" % len(left), rep)
        else:
            ctx.validated(); ctx.nontrivial("corpus:extjs")
    finally:
        shutil.rmtree(d, ignore_errors=True)
    # keep-going: failing workspace under three task keys
    def patch(pd):
        with open(os.path.join(pd, "recipes", "lib.yaml"), "w") as f:
            f.write("buildScript: |\n    sleep 0.3; exit 1\npackageScript: |\n    cp $1/out.txt .\n")
    r = run_plain_bob(f7, ["dev", "--sandbox", "-k", "-j4", "root"], 90, patch=patch)
    ctx.evaluated(); ctx.count("corpus:keep-going-shared-failing-workspace")
    rep = {"kind": "corpus", "repro": "corpus/C06/kg_rerun_repro.sh", "tail": r["out"][-900:]}
    if r["hang"]:
        ctx.violation(SIG_DEADLOCK, "bob dev --sandbox -k -j4 root hangs on the failing f7 project", rep)
    else:
        n = len([l for l in r["out"].split("\n") if "BUILD" in l and " lib " in l and "Start" in l])
        full = r["out"]
        if n == 0:
            ctx.tie_broken("kg-corpus-unreadable-output", rep)
        elif n > 1:
            ctx.violation(SIG_KG, "with --keep-going the failing build step of 'lib' (one workspace, three sandboxes = three task keys) is executed %d times (corpus/C06/kg_rerun_repro.sh)" % n, rep)
        else:
            ctx.validated(); ctx.nontrivial("corpus:kg")


def replay(ctx):
    c = json.load(open(ctx.replay))["case"]
    if c.get("kind") == "sem":
        script = [tuple(x) if isinstance(x, list) else x for x in c["script"]]
        labels, obs, res = sem_walk(ctx.rng, c["recursive"], c["p0"], 0, script=script)
        ctx.evaluated(len(labels))
        sem_check_states(ctx, c["recursive"], c["p0"], labels, obs) and sem_inside_check(ctx, c["recursive"], c["p0"], labels, obs, res)
    elif c.get("kind") == "build":
        logdir = core.scratch_dir("c06log")
        try:
            desc = dict(c["desc"], _logdir=logdir)
            r = run_build(desc, c["args"], c["durations"], set(c["failing"]), 120)
            ctx.evaluated()
            if r["graphs"] or r["hang"]:
                check_run(ctx, "replay", desc, Graph(r["graphs"][0]) if r["graphs"] else None, r, c["jobs"], c["keep"], set(c["failing"]), c)
        finally:
            shutil.rmtree(logdir, ignore_errors=True)
    else:
        run_corpus(ctx)


def run(ctx):
    ctx.rule = ("(1) random walks over the enabled labels of the real JobServerSemaphore (acquire/callback/wake/release/foreign "
                "take+put; recursive and plain; 0-4 distinct token bytes), one case = one step, non-trivial = script in which a "
                "task blocked; (2) real bob dev -j1..8 [-k] [--sandbox] on generated DAGs (shared packages, variants sharing a "
                "checkout, steps under 2-3 sandboxes, injected failures, three duration profiles), one case = one build + one "
                "per observed script start/end; non-trivial = parallel build with a distinct observed event order")
    ctx.assumptions += [
        "asyncio itself (task scheduling, Semaphore, Lock) and the OS pipe are not verified; the scheduler LTS splits each "
        "'release token; wait; re-acquire' into separate transitions (over-approximation of the cooperative schedule)",
        "Build-Id/fingerprint sub-task trees are abstracted to one token-requiring hop under the workspace lock",
        "--checkout-only (wasSkipped), shared packages, downloads/uploads, RestartBuildException and SIGINT/cancellation "
        "paths are not modelled; cancellation is outside the statement (aborted builds); --checkout-only builds are exercised on "
        "the implementation only (parallel vs sequential result, tool packaged before the checkout that uses it)",
        "schedule_independent assumes deterministic scripts (run : workspace -> inputs -> content) and that task keys with "
        "the same workspace have the same prescribed content (coherent: Variant-Id soundness, property C02)",
        "the wrapper observes Bob through JobServer.__enter__, Invoker.__init__/executeStep and LocalBuilder.cook; it changes "
        "no behaviour",
    ]
    ctx.trusted_base += ["proved: transition systems of coq/C06 (all interleavings, any number of tasks/tokens/nodes); "
                         "only exercised: that asyncio + builder.py refine them (scripted semaphore interleavings, sampled real builds)"]
    if ctx.replay:
        return replay(ctx)
    t0 = time.time()
    run_corpus(ctx)
    ctx.note("corpus %.0fs" % (time.time() - t0)); t0 = time.time()
    run_semaphore(ctx)
    ctx.note("semaphore %.0fs" % (time.time() - t0)); t0 = time.time()
    run_builds(ctx)
    ctx.note("builds %.0fs" % (time.time() - t0)); t0 = time.time()
    run_checkout_only(ctx)
    ctx.note("checkout-only builds %.0fs" % (time.time() - t0))
