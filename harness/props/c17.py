"""C17 — string substitution and conditions follow the documented language.

Three-way comparison on every generated case:
  documented semantics (ds_eval below, on the AST)   -- the oracle
  implementation (bob.stringparser, imported from /repo as it is now)
  Coq model  (BobV.C17.Model.parse / eval_if, evaluated with vm_compute)
"""
import json
from vlib import coq, coqlit as L
from props import c17_if

PROPERTY_FILES = ["C17/Properties.v"] + c17_if.PROPERTY_FILES_EXTRA

META_TOP = '\\"\'$'
CTX_META = {"top": META_TOP, "dq": META_TOP, "name": META_TOP + ":-+}", "body": META_TOP + "}",
            "arg": META_TOP + ",)"}
NAME_START = "ABCDEFGHIJKLMNOPQRSTUVWXYZ_abcdefghijklmnopqrstuvwxyz"
NAME_CHARS = NAME_START + "0123456789"
ALPHABET = list('abcXY_01 ') + list('\\"\'${}(),:-+') + ["\t", "\n", "é", "ß", "€", "\U0001F600", " ", "\x00", "F", "A", "L", "S", "E"]
FUNS_MODELLED = ["eq", "ne", "not", "or", "and", "if-then-else", "strip", "subst", "is-sandbox-enabled",
                 "is-tool-defined", "get-tool-env"]


class PErr(Exception):
    pass


# ------------------------------------------------------------------ documented semantics
def is_false(s):
    return s.strip().lower() in ("", "0", "false")


def ds_call(name, args, cx):
    def need(n):
        if len(args) != n:
            raise PErr()
    if name == "eq":
        need(2); return "true" if args[0] == args[1] else "false"
    if name == "ne":
        need(2); return "true" if args[0] != args[1] else "false"
    if name == "not":
        need(1); return "true" if is_false(args[0]) else "false"
    if name == "or":
        return "true" if any(not is_false(a) for a in args) else "false"
    if name == "and":
        return "true" if all(not is_false(a) for a in args) else "false"
    if name == "if-then-else":
        need(3); return args[2] if is_false(args[0]) else args[1]
    if name == "strip":
        need(1); return args[0].strip()
    if name == "subst":
        need(3); return args[2].replace(args[0], args[1])
    if name == "is-sandbox-enabled":
        need(0); return "true" if cx["sandbox"] else "false"
    if name == "is-tool-defined":
        need(1); return "true" if args[0] in cx["tools"] else "false"
    if name == "get-tool-env":
        if len(args) not in (2, 3):
            raise PErr()
        if args[0] not in cx["tools"]:
            raise PErr()
        v = cx["tools"][args[0]].get(args[1], args[2] if len(args) == 3 else None)
        if v is None:
            raise PErr()
        return v
    raise PErr()   # unknown function


def ds_eval(items, cx):
    out = []
    env = cx["env"]
    for it in items:
        k = it[0]
        if k in ("lit", "sq"):
            out.append(it[1])
        elif k == "dq":
            out.append(ds_eval(it[1], cx))
        elif k == "bare":
            if it[1] in env:
                out.append(env[it[1]])
            elif cx["nounset"]:
                raise PErr()
        elif k == "var":
            name = ds_eval(it[1], cx)
            op = it[2]
            if op is None:
                if name in env:
                    out.append(env[name])
                elif cx["nounset"]:
                    raise PErr()
            else:
                sign, colon, body = op
                unset = name not in env or (colon and env[name] == "")
                if sign == "-":
                    out.append(ds_eval(body, cx) if unset else env[name])
                else:
                    out.append("" if unset else ds_eval(body, cx))
        elif k == "call":
            words = [ds_eval(w, cx) for w in it[1]]
            out.append(ds_call(words[0], words[1:], cx))
        else:
            raise AssertionError(k)
    return "".join(out)


# ------------------------------------------------------------------ rendering
def render_lit(s, ctxk, rng):
    meta = CTX_META[ctxk]
    if rng is None:
        return "".join("\\" + ch if ch in meta else ch for ch in s)
    mode = rng.random()
    if mode < 0.15 and "'" not in s and s:
        return "'" + s + "'"
    out = []
    for ch in s:
        if ch in meta or rng.random() < 0.05:
            out.append("\\" + ch)
        else:
            out.append(ch)
    return "".join(out)


def render(items, ctxk, rng):
    parts = []
    for it in items:
        k = it[0]
        if k == "lit":
            parts.append(("t", render_lit(it[1], ctxk, rng)))
        elif k == "sq":
            parts.append(("t", "'" + it[1] + "'"))
        elif k == "dq":
            parts.append(("t", '"' + render(it[1], "dq", rng) + '"'))
        elif k == "bare":
            parts.append(("b", it[1]))
        elif k == "var":
            nm = render(it[1], "name", rng)
            op = it[2]
            if op is None:
                parts.append(("t", "${" + nm + "}"))
            else:
                sign, colon, body = op
                parts.append(("t", "${" + nm + (":" if colon else "") + sign + render(body, "body", rng) + "}"))
        elif k == "call":
            parts.append(("t", "$(" + ",".join(render(w, "arg", rng) for w in it[1]) + ")"))
    out = []
    for i, (kind, txt) in enumerate(parts):
        if kind == "b":
            nxt = ""
            for kind2, t2 in parts[i + 1:]:
                nxt = ("$" if kind2 == "b" else t2)
                if nxt:
                    break
            if nxt and nxt[0] in NAME_CHARS:
                out.append("${" + txt + "}")
            else:
                out.append("$" + txt)
        else:
            out.append(txt)
    return "".join(out)


# ------------------------------------------------------------------ generators
def gen_text(rng, maxlen=6):
    n = rng.choice([0, 1, 1, 2, 3, rng.randint(0, maxlen)])
    return "".join(rng.choice(ALPHABET) for _ in range(n))


def gen_items(rng, depth, cx, width=3):
    n = rng.choice([1, 1, 2, 2, 3, width])
    items = []
    names = list(cx["env"].keys()) + ["UNSET", "U2"]
    simple_names = [k for k in names if k and k[0] in NAME_START and all(c in NAME_CHARS for c in k)]
    for _ in range(n):
        r = rng.random()
        if depth <= 0 or r < 0.35:
            items.append(("lit", gen_text(rng)))
        elif r < 0.42:
            items.append(("sq", gen_text(rng).replace("'", "q")))
        elif r < 0.52:
            items.append(("dq", [x for x in gen_items(rng, depth - 1, cx) if x[0] != "dq"] or [("lit", "")]))
        elif r < 0.62:
            items.append(("bare", rng.choice(simple_names)))
        elif r < 0.85:
            if rng.random() < 0.85:
                nm = [("lit", rng.choice(names))]
            else:
                nm = gen_items(rng, depth - 1, cx, 2)
            o = rng.random()
            if o < 0.3:
                op = None
            else:
                op = (rng.choice("-+"), rng.random() < 0.5, gen_items(rng, depth - 1, cx))
            items.append(("var", nm, op))
        else:
            fn = rng.choice(FUNS_MODELLED + ["nosuchfun"]) if rng.random() < 0.9 else None
            arity = {"eq": 2, "ne": 2, "not": 1, "if-then-else": 3, "strip": 1, "subst": 3, "is-sandbox-enabled": 0,
                     "is-tool-defined": 1, "get-tool-env": rng.choice([2, 3])}.get(fn, rng.randint(0, 3))
            if rng.random() < 0.1:
                arity = rng.randint(0, 4)
            words = [[("lit", fn)] if fn is not None else gen_items(rng, depth - 1, cx, 1)]
            for i in range(arity):
                if fn in ("is-tool-defined", "get-tool-env") and i == 0 and rng.random() < 0.7:
                    words.append([("lit", rng.choice(list(cx["tools"].keys()) + ["notool"]))])
                elif fn == "get-tool-env" and i == 1 and rng.random() < 0.7:
                    words.append([("lit", rng.choice(["TV", "TW", "nope"]))])
                else:
                    words.append(gen_items(rng, depth - 1, cx, 2))
            items.append(("call", words))
    return items


def gen_ctx(rng):
    vals = ["val", "", "a b", 'q"uo', "$X", "\\", ",)", "}", "'", "0", "false", " FALSE ", "true", "é€", "x:y"]
    env = {}
    for k in ["X", "Y_1", "A", "EMPTY", "a:b", "", "K-", "Z9"]:
        if rng.random() < 0.6:
            env[k] = "" if k == "EMPTY" else rng.choice(vals)
    tools = {}
    for t in ["gcc", "t,2"]:
        if rng.random() < 0.6:
            tools[t] = {k: rng.choice(vals) for k in ["TV", "TW"] if rng.random() < 0.6}
    return {"env": env, "nounset": rng.random() < 0.6, "sandbox": rng.random() < 0.5, "tools": tools}


# ------------------------------------------------------------------ implementation side
class _Tool:
    def __init__(self, env):
        self.environment = env


def impl_env(cx):
    from bob import stringparser as sp
    e = sp.Env(cx["env"])
    funs = dict(sp.DEFAULT_STRING_FUNS)
    funs.update(sp.EXTRA_STRING_FUNS)
    e.setFuns(funs)
    e.setFunArgs({"sandbox": cx["sandbox"], "__tools": {k: _Tool(v) for k, v in cx["tools"].items()}})
    return e


def impl_subst(cx, text):
    from bob.errors import ParseError
    e = impl_env(cx)
    try:
        return ("ok", e.substitute(text, "prop", cx["nounset"]))
    except ParseError:
        return ("perr",)
    except RecursionError:
        return ("perr",)   # resource limit, not a language question (depth-limited generators never reach it)
    except Exception as ex:
        return ("internal", type(ex).__name__)


def impl_if(cx, text):
    from bob.errors import ParseError
    from bob import stringparser as sp
    e = impl_env(cx)
    try:
        return ("ok", bool(sp.IfExpression(text).evalExpression(e)))
    except ParseError:
        return ("perr",)
    except Exception as ex:
        return ("internal", type(ex).__name__)


# ------------------------------------------------------------------ Coq literals
def coq_ctx(cx):
    env = L.lst([L.pair(L.s(k), L.s(v)) for k, v in cx["env"].items()])
    tools = L.lst([L.pair(L.s(k), L.lst([L.pair(L.s(a), L.s(b)) for a, b in v.items()])) for k, v in cx["tools"].items()])
    return "{| c_env := %s; c_nounset := %s; c_sandbox := %s; c_tools := %s |}" % (
        env, L.B(cx["nounset"]), L.B(cx["sandbox"]), tools)


def coq_res_str(r):
    if r[0] == "ok":
        return "(Ok %s)" % L.s(r[1])
    return "(@PErr str)"


def coq_res_bool(r):
    if r[0] == "ok":
        return "(Ok %s)" % L.B(r[1])
    return "(@PErr bool)"


def coq_sexpr(e):
    if e[0] == "slit":
        return "(SLit %s %s)" % (L.s(e[1]), L.B(e[2]))
    return "(SFn %s %s)" % (L.s(e[1]), L.lst([coq_sexpr(a) for a in e[2]]))


def coq_ifexpr(e):
    k = e[0]
    if k == "str":
        return "(IStr %s)" % coq_sexpr(e[1])
    if k == "not":
        return "(INot %s)" % coq_ifexpr(e[1])
    if k == "and":
        return "(IAnd %s %s)" % (coq_ifexpr(e[1]), coq_ifexpr(e[2]))
    if k == "or":
        return "(IOr %s %s)" % (coq_ifexpr(e[1]), coq_ifexpr(e[2]))
    op = {"<": "OLt", ">": "OGt", "<=": "OLe", ">=": "OGe", "==": "OEq", "!=": "ONe"}[e[1]]
    return "(ICmp %s %s %s)" % (op, coq_sexpr(e[2]), coq_sexpr(e[3]))


# ------------------------------------------------------------------ Coq AST (C17/Spec.v)
META_ALL = '\\"\'$:-+},)'


def canon_items(items, in_dq=False):
    """normalise a Python AST into the well-formed shape of Spec.v (wf_items):
    no empty literals, no double-quoted string directly inside another, a bare
    variable only where the following text cannot continue its name"""
    out = []
    for it in items:
        k = it[0]
        if k == "lit":
            if it[1]:
                out.append(it)
        elif k == "sq":
            out.append(it)
        elif k == "dq":
            inner = canon_items(it[1], True)
            if in_dq:
                out.extend(inner)          # same value: contents spliced into the surrounding string
            else:
                out.append(("dq", inner))
        elif k == "bare":
            out.append(it)
        elif k == "var":
            op = it[2]
            out.append(("var", canon_items(it[1]), None if op is None else (op[0], op[1], canon_items(op[2]))))
        elif k == "call":
            out.append(("call", [canon_items(w) for w in it[1]]))
    # bare variable followed by a name character -> braced form (same documented value)
    res = []
    for i, it in enumerate(out):
        if it[0] == "bare" and i + 1 < len(out):
            nxt = canon_text([out[i + 1]])
            if nxt and nxt[0] in NAME_CHARS:
                it = ("var", [("lit", it[1])], None)
        res.append(it)
    return res


def canon_text(items):
    """r_items of Spec.v"""
    out = []
    for it in items:
        k = it[0]
        if k == "lit":
            out.append("".join("\\" + ch if ch in META_ALL else ch for ch in it[1]))
        elif k == "sq":
            out.append("'" + it[1] + "'")
        elif k == "dq":
            out.append('"' + canon_text(it[1]) + '"')
        elif k == "bare":
            out.append("$" + it[1])
        elif k == "var":
            op = it[2]
            o = "" if op is None else ((":" if op[1] else "") + op[0] + canon_text(op[2]))
            out.append("${" + canon_text(it[1]) + o + "}")
        elif k == "call":
            out.append("$(" + ",".join(canon_text(w) for w in it[1]) + ")")
    return "".join(out)


def coq_items(items):
    r = "INil"
    for it in reversed(items):
        r = "(ICons %s %s)" % (coq_item(it), r)
    return r


def coq_item(it):
    k = it[0]
    if k == "lit":
        return "(ILit %s)" % L.s(it[1])
    if k == "sq":
        return "(ISq %s)" % L.s(it[1])
    if k == "dq":
        return "(IDq %s)" % coq_items(it[1])
    if k == "bare":
        return "(IBare %s)" % L.s(it[1])
    if k == "var":
        op = it[2]
        o = "ONone" if op is None else "(OBody %s %s %s)" % (L.B(op[1]), L.B(op[0] == "+"), coq_items(op[2]))
        return "(IVar %s %s)" % (coq_items(it[1]), o)
    ws = it[1]
    r = "(WOne %s)" % coq_items(ws[-1])
    for w in reversed(ws[:-1]):
        r = "(WCons %s %s)" % (coq_items(w), r)
    return "(ICall %s)" % r


# ------------------------------------------------------------------ if-expressions
def gen_sexpr(rng, depth, cx):
    if depth <= 0 or rng.random() < 0.6:
        if rng.random() < 0.5:
            # double quoted: the literal is substituted
            items = gen_items(rng, 1, cx, 2)
            txt = render(items, "top", rng).replace("\n", " ")
            return ("slit", txt, True)
        return ("slit", gen_text(rng).replace("'", "q").replace("\n", " "), False)
    fn = rng.choice(["eq", "ne", "not", "or", "and", "strip", "if-then-else", "is-sandbox-enabled", "nosuch"])
    ar = {"eq": 2, "ne": 2, "not": 1, "strip": 1, "if-then-else": 3, "is-sandbox-enabled": 0}.get(fn, rng.randint(0, 3))
    if rng.random() < 0.1:
        ar = rng.randint(0, 3)
    return ("fn", fn, [gen_sexpr(rng, depth - 1, cx) for _ in range(ar)])


def gen_ifexpr(rng, depth, cx):
    r = rng.random()
    if depth <= 0 or r < 0.3:
        return ("str", gen_sexpr(rng, 1, cx))
    if r < 0.45:
        return ("not", gen_ifexpr(rng, depth - 1, cx))
    if r < 0.6:
        return ("and", gen_ifexpr(rng, depth - 1, cx), gen_ifexpr(rng, depth - 1, cx))
    if r < 0.75:
        return ("or", gen_ifexpr(rng, depth - 1, cx), gen_ifexpr(rng, depth - 1, cx))
    l = gen_sexpr(rng, 1, cx)
    # sometimes the same operand on both sides, sometimes with white space inside (tab, blanks): equality of
    # identical literals at different columns of the expression (F37: pyparsing expanded tabs by column)
    if rng.random() < 0.15 and l[0] == "slit":
        l = ("slit", l[1] + rng.choice(["\t", "\t\t", " \t", "a\tb", "  "]), l[2])
    rgt = l if rng.random() < 0.2 else gen_sexpr(rng, 1, cx)
    return ("cmp", rng.choice(["<", ">", "<=", ">=", "==", "!=", "==", "!="]), l, rgt)


def show_sexpr(e):
    if e[0] == "slit":
        if e[2]:
            return '"' + e[1].replace("\\", "\\\\").replace('"', '\\"') + '"'
        return "'" + e[1] + "'"
    return e[1] + "(" + ", ".join(show_sexpr(a) for a in e[2]) + ")"


def show_if(e):
    k = e[0]
    if k == "str":
        return show_sexpr(e[1])
    if k == "not":
        return "!(" + show_if(e[1]) + ")"
    if k == "and":
        return "(" + show_if(e[1]) + ") && (" + show_if(e[2]) + ")"
    if k == "or":
        return "(" + show_if(e[1]) + ") || (" + show_if(e[2]) + ")"
    return show_sexpr(e[2]) + " " + e[1] + " " + show_sexpr(e[3])


LEVEL = {"or": 1, "and": 2, "cmp": 3, "not": 4, "str": 5}


def show_if_min(e, rng=None):
    """infix rendering with only the parentheses the documented precedence table
    (bobpaths(7): ! > comparisons > && > ||, binary operators left associative)
    requires; with rng some redundant parentheses are added"""
    def par(child, need):
        t = show_if_min(child, rng)
        if need or (rng is not None and rng.random() < 0.15):
            return "(" + t + ")"
        return t
    k = e[0]
    if k == "str":
        return show_sexpr(e[1])
    if k == "not":
        return "!" + par(e[1], LEVEL[e[1][0]] < LEVEL["not"])
    if k in ("and", "or"):
        op = "&&" if k == "and" else "||"
        return par(e[1], LEVEL[e[1][0]] < LEVEL[k]) + " " + op + " " + par(e[2], LEVEL[e[2][0]] <= LEVEL[k])
    return show_sexpr(e[2]) + " " + e[1] + " " + show_sexpr(e[3])


def to_call(e):
    """equivalent function-call form (None when the operator has none)"""
    k = e[0]
    if k == "str":
        return e[1]
    if k == "not":
        a = to_call(e[1])
        return None if a is None else ("fn", "not", [a])
    if k in ("and", "or"):
        a, b = to_call(e[1]), to_call(e[2])
        return None if a is None or b is None else ("fn", k, [a, b])
    if e[1] == "==":
        return ("fn", "eq", [e[2], e[3]])
    if e[1] == "!=":
        return ("fn", "ne", [e[2], e[3]])
    return None


def ds_sexpr(e, cx, parse_text):
    if e[0] == "slit":
        return parse_text(e[1]) if e[2] else e[1]
    return ds_call(e[1], [ds_sexpr(a, cx, parse_text) for a in e[2]], cx)


# ------------------------------------------------------------------ shrinking
def valid(items, in_dq=False):
    """a double-quoted string cannot directly contain another one"""
    for it in items:
        if it[0] == "dq":
            if in_dq or not valid(it[1], True):
                return False
        elif it[0] == "var":
            if not valid(it[1]) or (it[2] is not None and not valid(it[2][2])):
                return False
        elif it[0] == "call":
            if not all(valid(w) for w in it[1]):
                return False
    return True


def shrink_items(items, still_fails0):
    """greedy structural shrinking of an item list"""
    still_fails = lambda its: valid(its) and still_fails0(its)
    changed = True
    while changed:
        changed = False
        for i in range(len(items)):
            cand = items[:i] + items[i + 1:]
            if cand and still_fails(cand):
                items = cand
                changed = True
                break
            it = items[i]
            subs = []
            if it[0] == "dq":
                subs.append(it[1])
            if it[0] == "var" and it[2] is not None:
                subs.append(it[2][2])
                subs.append([("var", it[1], None)])
            if it[0] == "call":
                subs.extend(it[1][1:])
            if it[0] in ("lit", "sq") and len(it[1]) > 1:
                for j in range(len(it[1])):
                    subs.append([(it[0], it[1][:j] + it[1][j + 1:])])
            for sub in subs:
                cand = items[:i] + list(sub) + items[i + 1:]
                if cand and still_fails(cand):
                    items = cand
                    changed = True
                    break
            if changed:
                break
    return items


# ------------------------------------------------------------------ main
def run(ctx):
    rng = ctx.rng
    ctx.rule = ("ASTs of the documented grammar (depth<=4) rendered with random quoting/escaping, raw strings over a "
                "meta-character-heavy alphabet, if-expressions rendered for the real pyparsing grammar; a case is "
                "non-trivial when its text contains a substitution/quote/escape; distinct by (ctx,text)")
    ctx.assumptions += [
        "re/fnmatch based functions (match, resubst, matchScm) are not modelled (model result Ext, never generated on the model side)",
        "pyparsing itself is not verified: the concrete if-expression grammar as instantiated by stringparser.py is modelled as a "
        "PEG (C17/IfGrammar.v: parse_if, theorems parse_if_render, precedence/associativity, single_quoted_literal_verbatim) and compared "
        "with the real parser's object tree on rendered ASTs, token soups and Coq-rendered texts (props/c17_if.py)",
        "Python str.strip/str.lower facts are regenerated from the running interpreter into Gen/Consts.v",
    ]
    if ctx.replay:
        return replay(ctx)
    n_ast = ctx.n(6000, 120000)
    n_raw = ctx.n(5000, 100000)
    n_if = ctx.n(2500, 40000)

    cxs = [gen_ctx(rng) for _ in range(24)]
    cxs[0] = {"env": {"X": "val"}, "nounset": True, "sandbox": False, "tools": {}}
    pre = "".join("Definition cx%d := %s.\n" % (i, coq_ctx(c)) for i, c in enumerate(cxs))

    cases = []      # (coq_in, coq_expected)
    meta = []       # python-side description for reporting
    ast_cases = []  # (ctx, Coq AST) -> (implementation result on Coq's rendering, that rendering)
    ast_meta = []
    corpus = load_corpus()
    # ---- (0) corpus of past failures, (a) rendered ASTs
    todo = [("corpus", c) for c in corpus] + [("ast", None)] * n_ast
    for kind, c in todo:
        if kind == "corpus" and "ifexpr" in c:
            continue
        if kind == "corpus":
            cx = c["cx"]; items = c.get("items"); text = c["text"]
            ci = len(cxs); cxs.append(cx); pre += "Definition cx%d := %s.\n" % (ci, coq_ctx(cx))
        else:
            ci = rng.randrange(len(cxs)); cx = cxs[ci]
            items = gen_items(rng, rng.choice([1, 2, 2, 3, 4]), cx)
            text = render(items, "top", rng)
        r = impl_subst(cx, text)
        ctx.evaluated()
        ctx.count("ast:" + r[0])
        if any(ch in text for ch in META_TOP):
            ctx.nontrivial((ci, text))
        if items is not None:
            try:
                want = ("ok", ds_eval(items, cx))
            except PErr:
                want = ("perr",)
        else:
            want = None
        if r[0] == "internal":
            ctx.violation("internal-exception:" + r[1], "substitute raised %s" % r[1], {"cx": cx, "text": text})
        elif want is not None and want != r:
            def fails(its, cx=cx):
                t = render(its, "top", None)
                try:
                    w = ("ok", ds_eval(its, cx))
                except PErr:
                    w = ("perr",)
                return impl_subst(cx, t) != w
            small = shrink_items(items, fails) if fails(items) else items
            t2 = render(small, "top", None) if fails(items) else text
            ctx.violation("value-differs-from-documented", "substitute(%r) = %r, documented value %r" % (t2, impl_subst(cx, t2), None),
                          {"cx": cx, "text": t2, "items": small, "original_text": text, "impl": r, "documented": want})
        if r[0] != "internal":
            cases.append(("(cx%d, %s)" % (ci, L.s(text)), coq_res_str(r)))
            meta.append({"cx": cx, "text": text, "impl": r})
        # the same tree in the well-formed shape of the Coq specification: implementation on Coq's rendering
        if items is not None and kind == "ast" and len(ast_cases) < n_ast // 2:
            cit = canon_items(items)
            ctext = canon_text(cit)
            r2 = impl_subst(cx, ctext)
            ctx.evaluated(); ctx.count("spec:" + r2[0])
            if r2[0] == "internal":
                ctx.violation("internal-exception:" + r2[1], "substitute raised %s" % r2[1], {"cx": cx, "text": ctext})
            else:
                ast_cases.append(("(cx%d, %s)" % (ci, coq_items(cit)), "(%s, %s)" % (coq_res_str(r2), L.s(ctext))))
                ast_meta.append({"cx": cx, "text": ctext, "impl": r2})
        if len(ctx.cov["samples"]) < 3:
            ctx.sample({"text": text, "env": cx["env"], "impl": r})
    # ---- (b) raw strings
    for i in range(n_raw):
        ci = rng.randrange(len(cxs)); cx = cxs[ci]
        text = gen_text(rng, 14) if rng.random() < 0.8 else "".join(rng.choice('\\"\'${}(),:-+aX') for _ in range(rng.randint(1, 10)))
        r = impl_subst(cx, text)
        ctx.evaluated()
        ctx.count("raw:" + r[0])
        if any(ch in text for ch in META_TOP):
            ctx.nontrivial((ci, text))
        if r[0] == "internal":
            ctx.violation("internal-exception:" + r[1], "substitute raised %s" % r[1], {"cx": cx, "text": text})
            continue
        cases.append(("(cx%d, %s)" % (ci, L.s(text)), coq_res_str(r)))
        meta.append({"cx": cx, "text": text, "impl": r})
    bad, log = coq.run_cases(ctx, ["BobV.C17.Model"], "(fun i => parse (fst i) (snd i))", "res_eqb_str", cases,
                             preamble=PRE_EQB + pre, tag="subst")
    if bad is None:
        ctx.tie_broken("C17 model evaluation failed", log)
    else:
        ctx.validated(len(cases) - len(bad))
        for i in bad[:10]:
            m = meta[i]
            ctx.tie_broken("parse-correspondence", {"text": m["text"], "cx": m["cx"], "impl": m["impl"]})
        if bad:
            ctx.count("subst-model-mismatch", len(bad))
    # the character-level machine (C17/Machine.v) on the same cases
    bad, log = coq.run_cases(ctx, ["BobV.C17.Model", "BobV.C17.Machine"], "(fun i => parseM (fst i) (snd i))", "res_eqb_str", cases,
                             preamble=PRE_EQB + pre, tag="machine")
    if bad is None:
        ctx.tie_broken("C17 machine evaluation failed", log)
    else:
        ctx.validated(len(cases) - len(bad))
        ctx.count("machine-cases", len(cases))
        for i in bad[:10]:
            m = meta[i]
            ctx.tie_broken("machine-correspondence", {"text": m["text"], "cx": m["cx"], "impl": m["impl"]})

    # the documented semantics as stated in Coq (C17/Spec.v): e_items = implementation, r_items = harness rendering,
    # every generated tree is well-formed, and the machine agrees (parse_render is a theorem; this ties its
    # statement to the implementation)
    spec_pre = PRE_EQB + pre + """
Definition spec_case (i : ctx * items) : bool * res str * str * res str :=
  (wf_items (snd i), e_items (fst i) true (snd i), r_items (snd i), parseM (fst i) (r_items (snd i))).
Definition spec_ok (o : bool * res str * str * res str) (e : res str * str) : bool :=
  let '(wf, v, t, m) := o in wf && res_eqb_str v (fst e) && str_eqb t (snd e) && res_eqb_str m (fst e).
"""
    bad, log = coq.run_cases(ctx, ["BobV.C17.Model", "BobV.C17.Machine", "BobV.C17.Spec"], "spec_case", "spec_ok", ast_cases,
                             preamble=spec_pre, tag="spec")
    if bad is None:
        ctx.tie_broken("C17 spec evaluation failed", log)
    else:
        ctx.validated(len(ast_cases) - len(bad))
        ctx.count("spec-cases", len(ast_cases))
        for i in bad[:10]:
            ctx.tie_broken("spec-correspondence", ast_meta[i])

    # ---- (c) if-expressions
    # corpus of past failures: fixed expressions with their documented truth value
    for c in corpus:
        if "ifexpr" in c:
            r = impl_if(c["cx"], c["ifexpr"])
            ctx.evaluated(); ctx.count("if-corpus")
            if r != ("ok", c["expect"]):
                ctx.violation("if-value-differs-from-documented", "IfExpression(%r) -> %r, documented %r" % (c["ifexpr"], r, c["expect"]),
                              {"cx": c["cx"], "ifexpr": c["ifexpr"], "expect": c["expect"]})
    cases = []; meta = []
    for i in range(n_if):
        ci = rng.randrange(24); cx = cxs[ci]
        e = gen_ifexpr(rng, rng.choice([1, 2, 3, 4]), cx)
        if rng.random() < 0.3:
            text = show_if(e); ctx.count("if-render:full-parentheses")
        else:
            text = show_if_min(e, rng); ctx.count("if-render:precedence")
        r = impl_if(cx, text)
        ctx.evaluated()
        ctx.count("if:" + r[0])
        ctx.nontrivial(("if", ci, text))
        if r[0] == "internal":
            ctx.violation("if-internal-exception:" + r[1], "IfExpression raised %s" % r[1], {"cx": cx, "ifexpr": text})
            continue
        # infix form vs the equivalent function-call form, both on the implementation
        fc = to_call(e)
        if fc is not None:
            r2 = impl_if(cx, show_sexpr(fc))
            ctx.count("if-callform")
            if r2 != r:
                ctx.violation("infix-differs-from-call-form", "infix %r -> %r but call form %r -> %r" % (text, r, show_sexpr(fc), r2),
                              {"cx": cx, "ifexpr": text, "callform": show_sexpr(fc)})
        cases.append(("(cx%d, %s)" % (ci, coq_ifexpr(e)), coq_res_bool(r)))
        meta.append({"cx": cx, "ifexpr": text, "impl": r})
        if i < 2:
            ctx.sample({"ifexpr": text, "impl": r})
    bad, log = coq.run_cases(ctx, ["BobV.C17.Model"], "(fun i => eval_if (fst i) (snd i))", "res_eqb_bool", cases,
                             preamble=PRE_EQB + pre, tag="ifx")
    if bad is None:
        ctx.tie_broken("C17 if-model evaluation failed", log)
    else:
        ctx.validated(len(cases) - len(bad))
        for i in bad[:10]:
            ctx.tie_broken("if-correspondence", meta[i])

    # ---- (d) raw if-expression strings: must parse or fail with ParseError
    ops = ['"a"', "'b'", '"$X"', "&&", "||", "!", "==", "!=", "<", ">=", "(", ")", "eq(", ",", " ", 'not("1")']
    for i in range(ctx.n(1500, 30000)):
        text = " ".join(rng.choice(ops) for _ in range(rng.randint(1, 7)))
        r = impl_if(cxs[0], text)
        ctx.evaluated()
        ctx.count("ifraw:" + r[0])
        if r[0] == "internal":
            ctx.violation("if-internal-exception:" + r[1], "IfExpression(%r) raised %s" % (text, r[1]), {"cx": cxs[0], "ifexpr": text})
    # concrete syntax of if-expressions: Coq PEG model vs the real pyparsing grammar, documented precedence
    c17_if.run_ifgrammar(ctx)


PRE_EQB = """
Definition res_eqb_str (a b : res str) : bool :=
  match a, b with Ok x, Ok y => str_eqb x y | PErr, PErr => true | _, _ => false end.
Definition res_eqb_bool (a b : res bool) : bool :=
  match a, b with Ok x, Ok y => Bool.eqb x y | PErr, PErr => true | _, _ => false end.
"""


def load_corpus():
    import os, glob
    from vlib.core import VERIF
    out = []
    for p in sorted(glob.glob(os.path.join(VERIF, "corpus", "C17", "*.json"))):
        out.append(json.load(open(p)))
    return out


def replay(ctx):
    d = json.load(open(ctx.replay))
    c = d.get("case", d)
    if "text" in c:
        r = impl_subst(c["cx"], c["text"])
        print("substitute(%r) with env %r -> %r ; documented: %r" % (c["text"], c["cx"]["env"], r, c.get("documented")))
        if "documented" in c and tuple(c["documented"]) != r:
            ctx.violation("value-differs-from-documented", "replayed", c)
        if r[0] == "internal":
            ctx.violation("internal-exception:" + r[1], "replayed", c)
    elif "ifexpr" in c:
        r = impl_if(c["cx"], c["ifexpr"])
        print("IfExpression(%r) -> %r" % (c["ifexpr"], r))
        if r[0] == "internal":
            ctx.violation("if-internal-exception:" + r[1], "replayed", c)
    ctx.evaluated()
