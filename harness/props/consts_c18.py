"""C18 constants translator: reads pym/bob/pathspec.py and emits coq/Gen/ConstsC18.v.

  AXIS_KEYWORDS     the pyparsing.Keyword literals of the axisName alternative (grammar)
  AXIS_FORWARD      the axis names LocationStep.evalForward compares self.__axis with, in branch order
  AXIS_BACKWARD     the same for LocationStep.evalBackward
  NODETEST_EXTRA    the characters added to alphanums in the nodeTest word
  EMPTY_MODES       the emptyMode strings evalForward compares with

Fail-closed: raises TieError when the source no longer has the expected shape."""
import ast
from vlib.gen_consts import parse, find_def, coq_str, coq_strs, TieError

NAME = "ConstsC18"


def _axis_compares(fn):
    """string constants s in comparisons  self.__axis == s , in source order"""
    out = []
    for n in ast.walk(fn):
        if isinstance(n, ast.Compare) and len(n.ops) == 1 and isinstance(n.ops[0], ast.Eq):
            l, r = n.left, n.comparators[0]
            if isinstance(l, ast.Attribute) and l.attr.endswith("__axis") and isinstance(r, ast.Constant) and isinstance(r.value, str):
                out.append((n.lineno, n.col_offset, r.value))
    return [v for _, _, v in sorted(out)]


def read():
    """-> dict(keywords, forward, backward, extra, modes)"""
    t = parse("pym/bob/pathspec.py")
    init = find_def(t, "PackageSet.__init__")
    axis_name = None
    node_test = None
    for n in ast.walk(init):
        if isinstance(n, ast.Assign) and len(n.targets) == 1 and isinstance(n.targets[0], ast.Name):
            if n.targets[0].id == "axisName":
                axis_name = n.value
            if n.targets[0].id == "nodeTest":
                node_test = n.value
    if axis_name is None or node_test is None:
        raise TieError("PackageSet.__init__: axisName / nodeTest assignments not found")
    kws = []
    for n in ast.walk(axis_name):
        if isinstance(n, ast.Call) and isinstance(n.func, ast.Attribute) and n.func.attr == "Keyword":
            if len(n.args) != 1 or not isinstance(n.args[0], ast.Constant):
                raise TieError("axisName: Keyword with a non literal argument")
            kws.append((n.lineno, n.col_offset, n.args[0].value))
        elif isinstance(n, ast.Call):
            raise TieError("axisName: unexpected call " + ast.unparse(n)[:60])
    kws = [v for _, _, v in sorted(kws)]
    if len(kws) < 1 or len(set(kws)) != len(kws):
        raise TieError("axisName: keyword list %r" % kws)
    # nodeTest = pyparsing.Word(pyparsing.alphanums + "<extra>")
    if not (isinstance(node_test, ast.Call) and isinstance(node_test.func, ast.Attribute) and node_test.func.attr == "Word"
            and len(node_test.args) == 1 and isinstance(node_test.args[0], ast.BinOp) and isinstance(node_test.args[0].op, ast.Add)
            and isinstance(node_test.args[0].left, ast.Attribute) and node_test.args[0].left.attr == "alphanums"
            and isinstance(node_test.args[0].right, ast.Constant) and isinstance(node_test.args[0].right.value, str)):
        raise TieError("nodeTest is no longer Word(alphanums + \"...\")")
    extra = node_test.args[0].right.value
    fwd = _axis_compares(find_def(t, "LocationStep.evalForward"))
    bwd = _axis_compares(find_def(t, "LocationStep.evalBackward"))
    if not fwd or not bwd:
        raise TieError("LocationStep.evalForward/evalBackward: no axis comparisons found")
    modes = []
    ef = find_def(t, "LocationPath.evalForward")
    for n in ast.walk(ef):
        if isinstance(n, ast.Compare) and isinstance(n.left, ast.Name) and n.left.id == "emptyMode" and \
                isinstance(n.comparators[0], ast.Constant):
            modes.append(n.comparators[0].value)
    if sorted(set(modes)) != ["nullfail", "nullset"]:
        raise TieError("LocationPath.evalForward: emptyMode comparisons changed: %r" % modes)
    return {"keywords": kws, "forward": fwd, "backward": bwd, "extra": extra, "modes": sorted(set(modes))}


def extract(out):
    k = read()
    out.append("(* consts_c18: pym/bob/pathspec.py *)")
    out.append("Definition AXIS_KEYWORDS : list (list N) := %s." % coq_strs(k["keywords"]))
    out.append("Definition AXIS_FORWARD : list (list N) := %s." % coq_strs(k["forward"]))
    out.append("Definition AXIS_BACKWARD : list (list N) := %s." % coq_strs(k["backward"]))
    out.append("Definition NODETEST_EXTRA : list N := %s." % coq_str(k["extra"]))
    out.append("Definition EMPTY_MODES_COMPARED : list (list N) := %s." % coq_strs(k["modes"]))
