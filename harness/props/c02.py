"""C02 — Variant-Id separates exactly what a step executes and consumes."""
import copy, json, os, shutil, glob
from vlib import coq, coqlit as L, proj, core
from props.ids_common import *
from concurrent.futures import ThreadPoolExecutor

PROPERTY_FILES = ["Ids/Properties_C02.v"]

KNOWN_F5 = "variant-id-collision:host-part-position"


def strong_vars(desc, rname, kind):
    """independent re-computation of the declared non-weak variable names of a step"""
    def collect(name, table, seen):
        r = table.get(name) or desc["classes"].get(name, {})
        out = {"checkout": set(r.get("checkoutVars", [])), "build": set(r.get("buildVars", [])),
               "package": set(r.get("packageVars", []))}
        for c in r.get("inherit", []):
            if c not in seen:
                seen.add(c)
                sub = collect(c, desc["classes"], seen)
                for k in out:
                    out[k] |= sub[k]
        return out
    v = collect(rname, desc["recipes"], set())
    co = v["checkout"]
    b = co | v["build"]
    p = b | v["package"]
    return {"checkout": co, "build": b, "package": p}[kind]


def sig(desc, pk, kind, st):
    s = exec_signature(st, kind)
    if s[0] == "invalid":
        return s
    strong = strong_vars(desc, pk["recipe"].split("-")[0] if pk["recipe"] not in desc["recipes"] else pk["recipe"], kind)
    env = tuple((k, v) for k, v in s[3] if k in strong or k.startswith("BOB_"))
    # the line that only names the recipe for error messages is not executed content
    main = "\n".join(l for l in s[2].split("\n") if not l.startswith("_BOB_SOURCES["))
    setup = "\n".join(l for l in s[1].split("\n") if not l.startswith("_BOB_SOURCES["))
    return (s[0], setup, main, env) + s[4:]


def add_weak_strong_conflict(desc, rng):
    """the same variable listed weakly in one file of an inheritance chain and strongly in another
    (documented: a weak inclusion has no effect if the variable is also referenced strongly), plus edits of
    its value in the family: returns (project, [(edited project, kind)])"""
    d = copy.deepcopy(desc)
    cands = [(n, r) for n, r in sorted(d["recipes"].items()) if "buildScript" in r and r.get("buildVars") and r.get("environment")
             and any(v in r["environment"] for v in r["buildVars"])]
    if not cands:
        return None
    n, r = rng.choice(cands)
    v = rng.choice(sorted(x for x in r["buildVars"] if x in r["environment"]))
    if rng.random() < 0.5:
        # weak in a class, strong in the recipe
        d["classes"]["cwk"] = {rng.choice(["buildVarsWeak", "checkoutVarsWeak"]): [v]}
        r["inherit"] = list(r.get("inherit", [])) + ["cwk"]
    else:
        # strong in a class, weak in the recipe
        d["classes"]["cst"] = {"buildVars": [v]}
        r["inherit"] = list(r.get("inherit", [])) + ["cst"]
        r["buildVars"] = [x for x in r["buildVars"] if x != v]
        r["buildVarsWeak"] = sorted(set(r.get("buildVarsWeak", [])) | {v})
    fam = []
    for k in range(2):
        e = copy.deepcopy(d)
        e["recipes"][n]["environment"][v] = "ws%d" % rng.randrange(1000)
        fam.append((e, "weak_strong_value"))
    return d, fam


def add_tool_remap(desc, rng):
    """graft: a recipe that hands a tool to its dependency under another name (depends: [{name, tools: {new: old}}])
    without using the tool itself, reached with two different variants of that tool (seed C02-3: the remapped
    source tool must count as used by the remapping package, or the two instances are taken for one)"""
    d = copy.deepcopy(desc)
    sfx = "%d" % rng.randrange(100)
    depth = rng.choice([0, 1, 2])              # packages between the place where the tool comes in and the remap
    tool, alias = rng.choice([("cc", "host-cc"), ("gen", "gen"), ("t" + sfx, "u" + sfx)])
    if tool == alias:
        alias = alias + "-x"
    R = d["recipes"]
    for k, how in (("1", rng.choice(["path", "script"])), ("2", None)):
        R["trt" + k] = {"packageScript": proj.script_for("trt%sp" % k, "package", []) + ("echo two > two.txt\n" if k == "2" and how != "path" else ""),
                        "provideTools": {tool: ("bin%s" % k) if k == "1" and how == "path" else "."}}
    if R["trt1"]["provideTools"][tool] == "." and "two.txt" not in R["trt2"]["packageScript"]:
        R["trt2"]["packageScript"] += "echo two > two.txt\n"
    R["trlib"] = {"buildTools": [alias], "buildScript": proj.script_for("trlibb", "build", []),
                  "packageScript": proj.script_for("trlibp", "package", []) + 'cp -a "$1"/. . 2>/dev/null || true\n'}
    R["trmid"] = {"depends": [{"name": "trlib", "tools": {alias: tool}}],
                  "buildScript": proj.script_for("trmidb", "build", []),
                  "packageScript": proj.script_for("trmidp", "package", []) + 'cp -a "$1"/. . 2>/dev/null || true\n'}
    below = "trmid"
    for i in range(depth):
        nm = "trvia%d" % i
        R[nm] = {"depends": [below], "buildScript": proj.script_for(nm + "b", "build", []),
                 "packageScript": proj.script_for(nm + "p", "package", []) + 'cp -a "$1"/. . 2>/dev/null || true\n'}
        below = nm
    for k in ("1", "2"):
        R["trr" + k] = {"depends": [{"name": "trt" + k, "use": ["tools"], "forward": True}, below],
                        "buildScript": proj.script_for("trr%sb" % k, "build", []),
                        "packageScript": proj.script_for("trr%sp" % k, "package", []) + 'cp -a "$1"/. . 2>/dev/null || true\n'}
    r0 = R["r0"]
    r0["depends"] = list(r0.get("depends", [])) + (["trr1", "trr2"] if rng.random() < 0.5 else ["trr2", "trr1"])
    # neighbours: an edit of one tool provider must change what is built with it below the remap, nothing else
    fam = []
    e = copy.deepcopy(d)
    e["recipes"]["trt2"]["packageScript"] += "echo edited > edited-tool.txt\n"
    fam.append((e, "remapped_tool_script"))
    return d, fam


EDITS = ["script", "class_script", "var_value", "var_list_add", "var_list_del", "weak_value", "dep_env", "dep_drop",
         "tool_path", "tool_libs", "provide_var", "meta", "unused_global", "source_file", "global_value"]


def edit(desc, rng):
    """one random single edit; returns (new desc, kind) or None"""
    d = copy.deepcopy(desc)
    kind = rng.choice(EDITS)
    names = sorted(d["recipes"])
    r = d["recipes"][rng.choice(names)]
    if kind == "script":
        k = rng.choice([x for x in ("buildScript", "packageScript", "checkoutScript") if x in r] or [None])
        if k is None: return None
        n = rng.randrange(1000)
        r[k] = r[k] + "echo edited > edited-%d.txt\n" % n
    elif kind == "class_script":
        cs = [c for c in d["classes"].values() if "buildScript" in c]
        if not cs: return None
        rng.choice(cs)["buildScript"] += "echo edited > edited-cls-%d.txt\n" % rng.randrange(1000)
    elif kind == "var_value":
        if not r.get("environment"): return None
        k = rng.choice(sorted(r["environment"]))
        r["environment"][k] = r["environment"][k] + "X"
    elif kind == "var_list_add":
        if "buildScript" not in r: return None
        r.setdefault("buildVars", []).append("GLOBAL2")
    elif kind == "var_list_del":
        if not r.get("buildVars"): return None
        r["buildVars"] = r["buildVars"][1:]
    elif kind == "weak_value":
        if not r.get("buildVarsWeak") or not r.get("environment"): return None
        k = r["buildVarsWeak"][0]
        if k not in r["environment"]: return None
        r["environment"][k] += "W"
    elif kind == "dep_env":
        ds = [x for x in r.get("depends", []) if isinstance(x, dict)]
        if not ds: return None
        rng.choice(ds).setdefault("environment", {})["DEPV"] = "edited%d" % rng.randrange(100)
    elif kind == "dep_drop":
        if not r.get("depends"): return None
        r["depends"] = r["depends"][:-1]
        if r.get("provideDeps"): del r["provideDeps"]
        for k in ("buildTools", "buildToolsWeak", "packageTools"):
            r.pop(k, None)
    elif kind == "tool_path":
        ts = [x for x in d["recipes"].values() if "provideTools" in x]
        if not ts: return None
        t = rng.choice(ts)
        n = sorted(t["provideTools"])[0]
        t["provideTools"][n] = {"path": "newbin", "libs": ["l1", "l2"]}
    elif kind == "tool_libs":
        ts = [x for x in d["recipes"].values() if "provideTools" in x]
        if not ts: return None
        t = rng.choice(ts)
        n = sorted(t["provideTools"])[0]
        old = t["provideTools"][n]
        path = old if isinstance(old, str) else old.get("path", ".")
        t["provideTools"][n] = {"path": path, "libs": ["extra/lib%d" % rng.randrange(10)]}
    elif kind == "provide_var":
        if not r.get("provideVars"): return None
        k = sorted(r["provideVars"])[0]
        r["provideVars"][k] += "P"
    elif kind == "meta":
        r.setdefault("metaEnvironment", {})["NOTE"] = "edited%d" % rng.randrange(100)
    elif kind == "unused_global":
        d["default"]["environment"]["GLOBAL2"] = "changed"
    elif kind == "global_value":
        d["default"]["environment"]["GLOBAL1"] = d["default"]["environment"].get("GLOBAL1", "") + "G"
    elif kind == "source_file":
        if "_sources" not in r: return None
        r["_sources"]["file.txt"] += "edited\n"
    return d, kind


def dump_desc(desc, sandbox, tag="c02"):
    p = core.scratch_dir(tag)
    try:
        proj.write_project(desc, p)
        return proj.dump(p, sandbox=sandbox)
    finally:
        shutil.rmtree(p, ignore_errors=True)


def check_family(ctx, family, label):
    """family: list of (desc, dumped). Oracle: across all steps of all members,
    equal Variant-Id <=> equal exec signature (per kind)."""
    by_vid = {}
    by_sig = {}
    for mi, (desc, dumped) in enumerate(family):
        for path, kind, st in steps_of(dumped):
            if not st["valid"]:
                continue
            s = sig(desc, dumped["packages"][path], kind, st)
            by_vid.setdefault((kind, st["vid"]), {}).setdefault(s, (mi, path))
            by_sig.setdefault(s, {}).setdefault(st["vid"], (mi, path))
    for (kind, vid), sigs in by_vid.items():
        if len(sigs) > 1:
            items = list(sigs.items())
            (s1, w1), (s2, w2) = items[0], items[1]
            diff = [i for i in range(len(s1)) if s1[i] != s2[i]]
            names = ["kind", "setup", "main", "env", "tools", "args", "scm", "fp_sandbox"]
            what = ",".join(names[i] for i in diff)
            signature = "variant-id-collision:" + what
            if what == "args":
                a1, a2 = s1[5], s2[5]
                if len(a1) == len(a2) and all(x[:40] == y[:40] for x, y in zip(a1, a2)) and \
                        sorted(x[40:] for x in a1 if x[40:]) == sorted(y[40:] for y in a2 if y[40:]):
                    signature = KNOWN_F5
            ctx.violation(signature, "two %s steps with the same Variant-Id %s differ in %s (%s vs %s)" % (kind, vid[:12], what, w1, w2),
                          {"label": label, "descs": [family[w1[0]][0], family[w2[0]][0]], "steps": [w1[1], w2[1]], "kind": kind})
    for s, vids in by_sig.items():
        if len(vids) > 1:
            items = list(vids.items())
            ctx.violation("variant-id-differs-for-equal-execution",
                          "two %s steps that execute and consume the same got different Variant-Ids (%s vs %s)" % (s[0], items[0], items[1]),
                          {"label": label, "descs": [family[items[0][1][0]][0], family[items[1][1][0]][0]],
                           "steps": [items[0][1][1], items[1][1][1]]})


def is_plain_dep(d):
    return isinstance(d, str) or (set(d) <= {"name", "environment"} )


def drop_plain_dep(desc, rng):
    d = copy.deepcopy(desc)
    cands = [(n, i) for n, r in sorted(d["recipes"].items()) for i, dep in enumerate(r.get("depends", []))
             if len(r.get("depends", [])) >= 2 and is_plain_dep(dep)]
    if not cands:
        return None
    n, i = rng.choice(cands)
    r = d["recipes"][n]
    dep = r["depends"].pop(i)
    dn = dep if isinstance(dep, str) else dep["name"]
    if dn in r.get("provideDeps", []):
        r["provideDeps"] = [x for x in r["provideDeps"] if x != dn]
        if not r["provideDeps"]:
            del r["provideDeps"]
    return d


def check_usage_independence(ctx, family, label):
    """ids of a package depend on its own declared inputs only, not on which other usages of
    the same recipes exist elsewhere in the project: after dropping the LAST dependency of a
    recipe, everything reached through its remaining dependencies keeps its ids"""
    base_desc, base = family[0]
    for desc, dumped in family[1:]:
        changed = []
        for n in base_desc["recipes"]:
            if n not in desc["recipes"]:
                continue
            bd, dd = base_desc["recipes"][n].get("depends", []), desc["recipes"][n].get("depends", [])
            if len(dd) + 1 == len(bd):
                idx = [i for i in range(len(bd)) if bd[:i] + bd[i + 1:] == dd]
                if idx and (idx[-1] == len(bd) - 1 or is_plain_dep(bd[idx[-1]])):
                    changed.append(n)
        if len(changed) != 1:
            continue
        rname = changed[0]
        others = {n: r for n, r in desc["recipes"].items() if n != rname}
        if any(base_desc["recipes"].get(n) != r for n, r in others.items()):
            continue
        kept = [d if isinstance(d, str) else d["name"] for d in desc["recipes"][rname].get("depends", [])]
        for path, pk in base["packages"].items():
            if pk["recipe"] != rname:
                continue
            for dep in kept:
                prefix = path + "/" + dep
                for p2, pk2 in base["packages"].items():
                    if p2 != prefix and not p2.startswith(prefix + "/"):
                        continue
                    other = dumped["packages"].get(p2)
                    if other is None:
                        continue
                    # a package that itself depends on the edited recipe (e.g. the sandbox of the project is built
                    # from it) legitimately changes its ids with it
                    if any(pk3["recipe"] == rname for q, pk3 in base["packages"].items() if q == p2 or q.startswith(p2 + "/")):
                        ctx.count("usage-independence:excluded-depends-on-edited-recipe")
                        continue
                    ctx.count("usage-independence:compared")
                    for kind in ("checkout", "build", "package"):
                        a, b = pk2["steps"][kind], other["steps"][kind]
                        if a["valid"] and b["valid"] and a["vid"] != b["vid"]:
                            ctx.violation("variant-id-depends-on-other-usages",
                                          "%s step of %s has Variant-Id %s in the project and %s after an unrelated sibling dependency of %s was dropped"
                                          % (kind, p2, a["vid"][:12], b["vid"][:12], rname),
                                          {"label": label, "descs": [base_desc, desc], "package": p2, "kind": kind})
                            return


def run(ctx):
    rng = ctx.rng
    ctx.rule = ("generated recipe projects (classes, vars, weak vars, tools, provided vars/deps/tools, sandbox, fingerprints, "
                "import/script checkouts) plus single-edit neighbours; a case is one valid step; non-trivial when the step "
                "has at least one of: script, tool, variable, argument; distinct by (inputs)")
    ctx.assumptions += ["YAML parsing and class linearisation are exercised through the real RecipeSet, not modelled",
                        "SHA-1 is abstract in the theorems; the executable instance (Common/Sha1.v) is checked against test vectors"]
    n_proj = ctx.n(14, 200)
    n_edits = ctx.n(5, 12)
    cases = []
    meta = []
    jobs = []
    # corpus first
    for f in sorted(glob.glob(os.path.join(core.VERIF, "corpus", "C02", "*.json"))):
        c = json.load(open(f))
        fam = []
        for v in c.get("variants", [{}]):
            d = copy.deepcopy(c["desc"])
            for r in v.get("drop_recipes", []):
                d["recipes"].pop(r, None)
            fam.append((d, c.get("sandbox", False)))
        jobs.append(("corpus:" + os.path.basename(f), fam))
    for i in range(n_proj):
        base = proj.Gen(rng).project()
        sandbox = rng.random() < 0.5
        extra = []
        if rng.random() < 0.5:
            ws = add_weak_strong_conflict(base, rng)
            if ws is not None:
                base, extra = ws
                ctx.count("motif:weak-and-strong-in-different-files")
        if rng.random() < 0.4:
            base, ex2 = add_tool_remap(base, rng)
            extra = extra + ex2
            ctx.count("motif:tool-remap-with-two-tool-variants")
        fam = [(base, sandbox)]
        for e_, k_ in extra:
            fam.append((e_, sandbox)); ctx.count("edit:" + k_)
        for _ in range(n_edits):
            e = edit(base, rng)
            if e is not None:
                fam.append((e[0], sandbox))
                ctx.count("edit:" + e[1])
        # dropping a dependency that hands nothing but its result to the recipe must not change the
        # ids of what is reached through the other dependencies (ids do not depend on other usages)
        for _ in range(3):
            e = drop_plain_dep(base, rng)
            if e is not None:
                fam.append((e, sandbox))
                ctx.count("edit:drop_plain_dep")
        # reverting restores: the base project once more
        fam.append((copy.deepcopy(base), sandbox))
        jobs.append(("gen%d" % i, fam))
    flat = [(ji, mi, d, sb) for ji, (lbl, fam) in enumerate(jobs) for mi, (d, sb) in enumerate(fam)]
    with ThreadPoolExecutor(max_workers=12) as ex:
        results = list(ex.map(lambda t: dump_desc(t[2], t[3]), flat))
    fams = {}
    for (ji, mi, d, sb), res in zip(flat, results):
        fams.setdefault(ji, []).append((d, res))
    for ji, (lbl, _) in enumerate(jobs):
        fam = [(d, r) for d, r in fams[ji] if "packages" in r]
        ctx.count("projects_parsed", len(fam))
        ctx.count("projects_rejected", len(fams[ji]) - len(fam))
        if not fam:
            continue
        # purity / revert: first and last member of a generated family are the same project
        if lbl.startswith("gen") and "packages" in fams[ji][0][1] and "packages" in fams[ji][-1][1]:
            a = {(p, k): s["vid"] for p, k, s in steps_of(fams[ji][0][1])}
            b = {(p, k): s["vid"] for p, k, s in steps_of(fams[ji][-1][1])}
            if a != b:
                ctx.violation("revert-does-not-restore-ids", "re-parsing the unchanged project gave different ids", {"desc": fams[ji][0][0]})
        check_family(ctx, fam, lbl)
        check_usage_independence(ctx, fam, lbl)
        for desc, dumped in fam:
            for path, kind, st in steps_of(dumped):
                if not st["valid"]:
                    continue
                ctx.evaluated()
                ctx.count("step:" + kind)
                if st["fingerprinted"] and st["sandbox"]:
                    ctx.count("step:fingerprinted-in-sandbox")
                if st["tools"]:
                    ctx.count("step:with-tools")
                key = (st["digestScript"], tuple(sorted(st["digestEnv"].items())), tuple(a["vid"] for a in st["args"]),
                       tuple(sorted((n, t["vid"]) for n, t in st["tools"].items())))
                if key in seen_keys:
                    continue
                seen_keys.add(key)
                if st["digestScript"] or st["tools"] or st["digestEnv"] or st["args"]:
                    ctx.nontrivial(key)
                cases.append((coq_stepin(st), hexb(st["vid"])))
                meta.append({"project": lbl, "step": path + ":" + kind, "vid": st["vid"]})
                if len(ctx.cov["samples"]) < 4:
                    ctx.sample({"step": path + ":" + kind, "vid": st["vid"], "digestEnv": st["digestEnv"],
                                "tools": list(st["tools"]), "nargs": len(st["args"])})
    bad, log = coq.run_cases(ctx, REQUIRES, "(variant_id sha1)", "(eqb_list N.eqb)", cases, shard=150, tag="vid")
    if bad is None:
        ctx.tie_broken("Ids model evaluation failed", log)
    else:
        ctx.validated(len(cases) - len(bad))
        for i in bad[:10]:
            ctx.tie_broken("variant-id-correspondence", meta[i])


seen_keys = set()
