"""C14 constants translator: reads pym/bob/audit.py of the *current* repository
and emits coq/Gen/ConstsC14.v: the type tags of digestData/digestString/
digestMap, the branch order of the isinstance chain of digestData (as type
codes), and the key sets of Artifact.  Fail-closed (TieError) when the source
no longer has the expected shape."""
import ast
from vlib.gen_consts import parse, find_def, module_consts, coq_str, coq_strs, TieError

NAME = "ConstsC14"
SRC = "pym/bob/audit.py"

# type codes used by coq/C14/Model.v
TY = {"str": 0, "dict": 1, "list": 2, "int": 3, "bool": 4, "bytes": 5, "None": 6}
# the struct formats the model implements for each branch
FMT = {"str": "<BI", "dict": "<BI", "list": "<BI", "int": "<Bq", "bool": "<B?", "bytes": "<BI", "None": "<B"}


def _packs(fn, where=None):
    """all struct.pack(<fmt literal>, <tag literal>, ...) calls inside fn (a node or
    a list of statements), in source order"""
    out = []
    nodes = fn if isinstance(fn, list) else [fn]
    where = where or getattr(fn, "name", "?")
    for n in (x for b in nodes for x in ast.walk(b)):
        if isinstance(n, ast.Call) and isinstance(n.func, ast.Attribute) and n.func.attr == "pack" \
                and isinstance(n.func.value, ast.Name) and n.func.value.id == "struct":
            if len(n.args) < 2 or not all(isinstance(a, ast.Constant) for a in n.args[:2]):
                raise TieError("struct.pack without literal format/tag in %s" % where)
            out.append((n.args[0].value, n.args[1].value, [ast.unparse(a) for a in n.args[2:]], n.lineno))
    return out


def _calls(nodes, name):
    return [n for b in nodes for n in ast.walk(b) if isinstance(n, ast.Call) and isinstance(n.func, ast.Name) and n.func.id == name]


def facts():
    t = parse(SRC)
    # ---- digestString: tag, length = len(s) (characters), payload = utf-8 bytes
    f = find_def(t, "digestString")
    p = _packs(f)
    if len(p) != 1 or p[0][0] != FMT["str"] or p[0][2] != ["len(s)"]:
        raise TieError("digestString: expected one struct.pack('<BI', tag, len(s)), got %r" % (p,))
    src = ast.unparse(f)
    if "s.encode('utf8')" not in src:
        raise TieError("digestString no longer hashes s.encode('utf8')")
    tags = {"str": p[0][1]}
    # ---- digestMap: tag, count, then key/value in sorted order
    f = find_def(t, "digestMap")
    p = _packs(f)
    if len(p) != 1 or p[0][0] != FMT["dict"] or p[0][2] != ["len(m)"]:
        raise TieError("digestMap: expected one struct.pack('<BI', tag, len(m)), got %r" % (p,))
    src = ast.unparse(f)
    if "for k, v in sorted(m.items()):" not in src or len(_calls(f.body, "digestString")) != 1 \
            or len(_calls(f.body, "digestData")) != 1:
        raise TieError("digestMap no longer iterates sorted(m.items()) with digestString(k)/digestData(v)")
    loop = [n for n in f.body if isinstance(n, ast.For)]
    if len(loop) != 1 or [ast.unparse(s) for s in loop[0].body] != ["digestString(k, h)", "digestData(v, h)"]:
        raise TieError("digestMap loop body changed")
    tags["dict"] = p[0][1]
    # ---- digestData: the isinstance chain
    f = find_def(t, "digestData")
    if len(f.body) != 1 or not isinstance(f.body[0], ast.If):
        raise TieError("digestData is no longer a single if/elif chain")
    order = []
    node = f.body[0]
    while True:
        test = ast.unparse(node.test)
        if test.startswith("isinstance(d, ") and test.endswith(")"):
            ty = test[len("isinstance(d, "):-1]
        elif test == "d is None":
            ty = "None"
        else:
            raise TieError("digestData: unexpected test %r" % test)
        if ty not in TY or ty in order:
            raise TieError("digestData: unexpected/duplicate type %r" % ty)
        order.append(ty)
        body = node.body
        if ty == "str":
            if [ast.unparse(s) for s in body] != ["digestString(d, h)"]:
                raise TieError("digestData: str branch changed")
        elif ty == "dict":
            if [ast.unparse(s) for s in body] != ["digestMap(d, h)"]:
                raise TieError("digestData: dict branch changed")
        else:
            ps = _packs(body, "digestData")
            if len(ps) != 1 or ps[0][0] != FMT[ty]:
                raise TieError("digestData: %s branch: expected one struct.pack(%r, ...), got %r" % (ty, FMT[ty], ps))
            want_args = {"list": ["len(d)"], "int": ["d"], "bool": ["d"], "bytes": ["len(d)"], "None": []}[ty]
            if ps[0][2] != want_args:
                raise TieError("digestData: %s branch packs %r" % (ty, ps[0][2]))
            tags[ty] = ps[0][1]
            rest = [ast.unparse(s) for s in body[1:]]
            want_rest = {"list": ["for i in d:\n    digestData(i, h)"], "bytes": ["h.update(d)"]}.get(ty, [])
            if rest != want_rest:
                raise TieError("digestData: %s branch body changed: %r" % (ty, rest))
        if len(node.orelse) == 1 and isinstance(node.orelse[0], ast.If):
            node = node.orelse[0]
        else:
            if not (len(node.orelse) == 1 and isinstance(node.orelse[0], ast.Assert)):
                raise TieError("digestData: chain does not end in assert")
            break
    if sorted(order) != sorted(TY):
        raise TieError("digestData: branches %r" % order)
    for k, v in tags.items():
        if not isinstance(v, int) or not (0 <= v < 256):
            raise TieError("tag of %s is %r" % (k, v))
    # ---- Artifact.REQUIRED_KEYS
    cls = find_def(t, "Artifact")
    req = None
    for n in cls.body:
        if isinstance(n, ast.Assign) and isinstance(n.targets[0], ast.Name) and n.targets[0].id == "REQUIRED_KEYS":
            v = n.value
            if isinstance(v, ast.Call) and len(v.args) == 1 and isinstance(v.args[0], (ast.Tuple, ast.List, ast.Set)):
                req = [e.value for e in v.args[0].elts]
    if not req:
        raise TieError("Artifact.REQUIRED_KEYS not a literal frozenset")
    return {"tags": tags, "order": order, "required": sorted(req)}


def extract(out):
    f = facts()
    out.append("(* consts_c14: %s *)" % SRC)
    for ty in ("dict", "str", "list", "int", "bool", "bytes", "None"):
        out.append("Definition tag_%s : N := %d." % ({"dict": "map", "None": "none"}.get(ty, ty), f["tags"][ty]))
    out.append("(* branch order of the isinstance chain; type codes: 0 str, 1 dict, 2 list, 3 int, 4 bool, 5 bytes, 6 None *)")
    out.append("Definition dd_order : list N := [%s]." % "; ".join(str(TY[t]) for t in f["order"]))
    out.append("Definition REQUIRED_KEYS : list (list N) := %s." % coq_strs(f["required"]))
