"""Shared by C02/C03/C07: Coq literals for Ids/Model.v and implementation-side
signatures of what a step executes and consumes."""
from vlib import coqlit as L

REQUIRES = ["BobV.Common.Sha1", "BobV.Ids.Model"]


def hexb(h):
    return L.by(bytes.fromhex(h))


def coq_tool(t, vid_hex):
    return "{| t_vid := %s; t_path := %s; t_libs := %s |}" % (
        hexb(vid_hex), L.s(t["path"]), "(%s : list str)" % L.lst([L.s(x) for x in t["libs"]]))


def coq_stepin(st):
    """declared inputs of a step (from dump_proj) -> stepin literal"""
    fp = "None"
    if st["fingerprinted"] and st["sandbox"] is not None:
        fp = "(Some %s)" % hexb(st["sandbox"]["vid"])
    tools = L.lst([L.pair(L.s(n), coq_tool(t, t["vid"])) for n, t in st["tools"].items()])
    env = L.lst([L.pair(L.s(k), L.s(v)) for k, v in st["digestEnv"].items()])
    args = L.lst([hexb(a["vid"]) for a in st["args"] if a["valid"]])
    return ("{| si_fp_sandbox := %s; si_script := %s; si_tools := (%s : list (str * tool)); "
            "si_env := (%s : list (str * str)); si_args := (%s : list bytes) |}") % (
        fp, L.s(st["digestScript"] or ""), tools, env, args)


def coq_bidin(st):
    weak = set(st["toolDepWeak"])
    tools = L.lst([L.pair(L.s(n), L.pair(coq_tool(t, st["bid_tools"][n]), L.B(n in weak))) for n, t in st["tools"].items()])
    env = L.lst([L.pair(L.s(k), L.s(v)) for k, v in st["digestEnv"].items()])
    args = L.lst([hexb(b) for b in st["bid_args"]])
    return ("{| bi_sandbox := None; bi_script := %s; bi_tools := (%s : list (str * (tool * bool))); "
            "bi_env := (%s : list (str * str)); bi_args := (%s : list bytes); bi_platform := %s; bi_fingerprint := %s |}") % (
        L.s(st["digestScript"] or ""), tools, env, args, hexb(st["platform"]), hexb(st["bid_fingerprint"]))


def exec_signature(st, kind):
    """What the step executes and consumes, read through getters that are
    independent of the digest computation: scripts that are run, the values of
    the variables in its environment, tools (provider variant, path, libs),
    and the sequence of input variants."""
    if not st["valid"]:
        return ("invalid",)
    return (kind, st["setupScript"], st["mainScript"],
            tuple(sorted(st["env"].items())),
            tuple(sorted((n, t["vid"][:40], t["path"], tuple(t["libs"])) for n, t in st["tools"].items())),
            tuple(a["vid"] for a in st["args"] if a["valid"]),
            tuple(st.get("scmDigest", [])),
            (st["sandbox"]["vid"] if (st["fingerprinted"] and st["sandbox"]) else None))


def steps_of(dumped):
    for path, pk in sorted(dumped["packages"].items()):
        for kind in ("checkout", "build", "package"):
            yield path, kind, pk["steps"][kind]
