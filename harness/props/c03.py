"""C03 — ids are pure, location independent and long-term stable."""
import copy, json, os, shutil, glob, random
from vlib import coq, coqlit as L, proj, core
from props.ids_common import *
from props import ids_classes
from concurrent.futures import ThreadPoolExecutor

PROPERTY_FILES = ["Ids/Properties_C03.v"] + ids_classes.PROPERTY_FILES_EXTRA


def ids_of(dumped):
    out = {}
    for path, kind, st in steps_of(dumped):
        out[(path, kind)] = (st["vid"], st.get("bid"))
    return out


def tainted_by_sandbox(dumped):
    """steps whose ids may legitimately depend on the sandbox: fingerprinted
    steps and everything that consumes them (arguments or tools)."""
    t = set()
    vids = set()
    changed = True
    while changed:
        changed = False
        for path, kind, st in steps_of(dumped):
            if not st["valid"] or (path, kind) in t:
                continue
            if st["fingerprinted"] or any(a["vid"] in vids for a in st["args"]) or \
                    any(x["vid"] in vids for x in st["tools"].values()):
                t.add((path, kind)); vids.add(st["vid"]); changed = True
    return t


IRRELEVANT = ["meta", "unused_global", "netaccess", "jobserver", "whitelist", "archive", "weak_only_value", "comment_var",
              "audit_meta", "relocatable"]


def irrelevant_edit(desc, rng):
    d = copy.deepcopy(desc)
    kind = rng.choice(IRRELEVANT)
    names = sorted(d["recipes"])
    r = d["recipes"][rng.choice(names)]
    if kind == "meta":
        r.setdefault("metaEnvironment", {})["NOTE"] = "x%d" % rng.randrange(100)
    elif kind == "unused_global":
        d["default"]["environment"]["GLOBAL2"] = "changed%d" % rng.randrange(100)
    elif kind == "netaccess":
        r["buildNetAccess"] = True; r["packageNetAccess"] = True
    elif kind == "jobserver":
        r["jobServer"] = True
    elif kind == "whitelist":
        d["default"]["whitelist"] = d["default"].get("whitelist", []) + ["SOMEVAR"]
    elif kind == "archive":
        d["default"]["archive"] = {"backend": "file", "path": "/nonexistent/archive"}
    elif kind == "weak_only_value":
        # a variable that is consumed weakly only
        if "buildScript" not in r: return None
        r.setdefault("environment", {})["WEAKONLY"] = "w%d" % rng.randrange(100)
        r["buildVarsWeak"] = sorted(set(r.get("buildVarsWeak", []) + ["WEAKONLY"]))
    elif kind == "comment_var":
        r.setdefault("privateEnvironment", {})["NOT_CONSUMED"] = "n%d" % rng.randrange(100)
    elif kind == "audit_meta":
        d["default"]["environment"]["GLOBAL2"] = "audit"
    elif kind == "relocatable":
        r["relocatable"] = rng.random() < 0.5
    return d, kind


def add_weak_base(desc):
    """make the weak-only variable exist in the base project too so that only its value differs"""
    d = copy.deepcopy(desc)
    for r in d["recipes"].values():
        if "buildScript" in r:
            r.setdefault("environment", {})["WEAKONLY"] = "base"
            r["buildVarsWeak"] = sorted(set(r.get("buildVarsWeak", []) + ["WEAKONLY"]))
    return d


def permute_plain_deps(desc, rng):
    """reverse a run of adjacent dependencies of one recipe that are plain names or only set variables for
    the dependency: nothing flows between them, so only the visiting order changes"""
    d = copy.deepcopy(desc)
    cands = []
    for n, r in sorted(d["recipes"].items()):
        deps = r.get("depends", [])
        i = 0
        while i < len(deps):
            j = i
            while j < len(deps) and (isinstance(deps[j], str) or set(deps[j]) <= {"name", "environment"}):
                j += 1
            if j - i >= 2:
                cands.append((n, i, j))
            i = max(j, i + 1)
    if not cands:
        return None
    n, i, j = rng.choice(cands)
    deps = d["recipes"][n]["depends"]
    d["recipes"][n]["depends"] = deps[:i] + list(reversed(deps[i:j])) + deps[j:]
    d["_permuted"] = n
    return d


def add_tool_class_motif(desc, rng):
    """classes that name tools, a recipe in a sub-directory inheriting one of them with own tools; returns
    (project, same project plus an unreferenced recipe inheriting several of the classes and naming no tools
    itself, read before the sub-directory).  Ids are a function of what a step executes and consumes: the
    mere presence of a recipe nobody uses must not change any."""
    d = copy.deepcopy(desc)
    roots = sorted(n for n, r in d["recipes"].items() if r.get("root"))
    if not roots or any(n in d["recipes"] for n in ("mtprov", "grp::mlib", "aaa_by")):
        return None
    key = rng.choice(["buildTools", "buildTools", "packageTools", "buildToolsWeak"])
    d["recipes"]["mtprov"] = {"packageScript": "echo tools > t.txt\n", "provideTools": {"mta": ".", "mtb": ".", "mtc": "."}}
    d["classes"]["mca"] = {key: ["mta"]}
    d["classes"]["mcb"] = {key: ["mtb"]}
    d["recipes"]["grp::mlib"] = {"inherit": ["mcb"], key: ["mtc"],
                                 "buildScript": proj.script_for("mlibb", "build", []),
                                 "packageScript": proj.script_for("mlibp", "package", []) + 'cp -a "$1"/. . 2>/dev/null || true\n'}
    r = d["recipes"][roots[0]]
    r["depends"] = [{"name": "mtprov", "use": ["tools"], "forward": True}] + list(r.get("depends", [])) + ["grp::mlib"]
    w = copy.deepcopy(d)
    inh = ["mca", "mcb"] if rng.random() < 0.7 else ["mcb", "mca"]
    w["recipes"]["aaa_by"] = {"inherit": inh, "packageScript": "true\n"}
    return d, w


def dump_at(desc, sandbox, where=None, order=None, hashseed="0", twice=False):
    p = core.scratch_dir("c03") if where is None else where
    try:
        os.makedirs(p, exist_ok=True)
        desc = {k: v for k, v in desc.items() if not k.startswith("_")}
        proj.write_project(desc, p, order=order)
        r = proj.dump(p, sandbox=sandbox, hashseed=hashseed, extra_args=["--bid"])
        if twice:      # warm caches: second invocation in the same directory
            r2 = proj.dump(p, sandbox=sandbox, hashseed=hashseed, extra_args=["--bid"])
            return r, r2
        return r
    finally:
        shutil.rmtree(p if where is None else where.rstrip("/").split("/deep/")[0], ignore_errors=True)


def golden(ctx):
    src = os.path.join(core.REPO, "test", "black-box", "stable-variant-ids")
    p = core.scratch_dir("c03gold")
    try:
        dst = os.path.join(p, "proj")
        shutil.copytree(src, dst)
        os.makedirs(os.path.join(dst, "output"), exist_ok=True)
        for f in sorted(os.listdir(os.path.join(src, "specs"))):
            name = f[:-4]
            rc, out = proj.run_bob(dst, ["project", "-n", "--sandbox", "dumper", "root-" + name, "output/" + f])
            ctx.evaluated()
            ctx.count("golden:" + name)
            want = [l.rstrip() for l in open(os.path.join(src, "specs", f))]
            try:
                got = [l.rstrip() for l in open(os.path.join(dst, "output", f))]
            except OSError:
                got = ["<no output: rc=%d %s>" % (rc, out[-300:])]
            if want != got:
                diff = [(i, a, b) for i, (a, b) in enumerate(zip(want, got)) if a != b][:5]
                ctx.violation("golden-ids-changed:" + name, "ids of the reference project root-%s differ from specs/%s" % (name, f),
                              {"first_differences": diff, "len_want": len(want), "len_got": len(got)})
            else:
                ctx.nontrivial(("golden", name))
    finally:
        shutil.rmtree(p, ignore_errors=True)


def run(ctx):
    rng = ctx.rng
    ctx.rule = ("generated projects dumped under: other absolute path, permuted file creation/key order, PYTHONHASHSEED 1 and "
                "random, warm caches, id-irrelevant single edits, sandbox on/off; plus the reference project with golden ids; "
                "a case is one (project, configuration) pair; non-trivial when the project has >= 3 valid steps")
    ctx.assumptions += ["Build-Ids are computed by the real StepIR.getDigestCoro with synthetic source hashes and fingerprints",
                        "SHA-1 abstract in theorems, executable instance in Common/Sha1.v"]
    # class resolution (Recipe.__resolveClassesOrder / resolveClasses): Coq model Ids/Classes.v vs the real RecipeSet,
    # and the direct oracles "resolved recipes do not depend on read order / unrelated recipes; class objects stay unchanged"
    ids_classes.run_classes(ctx)
    golden(ctx)
    n_proj = ctx.n(10, 150)
    jobs = []
    for i in range(n_proj):
        base = add_weak_base(proj.Gen(rng).project())
        sandbox = rng.random() < 0.5
        cfgs = [("base", base, dict(sandbox=sandbox))]
        deep = core.scratch_dir("c03p") + "/deep/" + "/".join("d%d" % k for k in range(rng.randint(1, 6))) + "/with space"
        cfgs.append(("other-path", base, dict(sandbox=sandbox, where=deep)))
        cfgs.append(("file-order", base, dict(sandbox=sandbox, order=random.Random(rng.random()))))
        cfgs.append(("hashseed-1", base, dict(sandbox=sandbox, hashseed="1")))
        cfgs.append(("hashseed-random", base, dict(sandbox=sandbox, hashseed=str(rng.randrange(2, 4000000)))))
        cfgs.append(("warm-cache", base, dict(sandbox=sandbox, twice=True)))
        for _ in range(ctx.n(3, 6)):
            e = irrelevant_edit(base, rng)
            if e is not None:
                cfgs.append(("edit:" + e[1], e[0], dict(sandbox=sandbox)))
        cfgs.append(("sandbox-flip", base, dict(sandbox=not sandbox)))
        # the order in which packages are reached: permute dependencies that hand over nothing but their result
        for _ in range(2):
            pd = permute_plain_deps(base, rng)
            if pd is not None:
                cfgs.append(("dep-order", pd, dict(sandbox=sandbox)))
        jobs.append(cfgs)
        # a second family: the same project with tool-naming classes, with and without an unreferenced recipe
        if rng.random() < 0.6:
            m = add_tool_class_motif(base, rng)
            if m is not None:
                jobs.append([("base", m[0], dict(sandbox=sandbox)), ("unreferenced-recipe", m[1], dict(sandbox=sandbox)),
                             ("file-order", m[1], dict(sandbox=sandbox, order=random.Random(rng.random())))])
    flat = [(ji, ci) for ji, cfgs in enumerate(jobs) for ci in range(len(cfgs))]
    with ThreadPoolExecutor(max_workers=12) as ex:
        results = list(ex.map(lambda t: dump_at(jobs[t[0]][t[1]][1], **jobs[t[0]][t[1]][2]), flat))
    res = {}
    for (ji, ci), r in zip(flat, results):
        res[(ji, ci)] = r
    cases = []
    meta = []
    seen = set()
    for ji, cfgs in enumerate(jobs):
        base = res[(ji, 0)]
        if "packages" not in base:
            ctx.count("projects_rejected")
            continue
        base_ids = ids_of(base)
        nvalid = sum(1 for _, _, s in steps_of(base) if s["valid"])
        ctx.count("projects_parsed")
        for ci, (label, desc, kw) in enumerate(cfgs[1:], 1):
            r = res[(ji, ci)]
            ctx.evaluated()
            ctx.count("config:" + label.split(":")[0])
            if label.startswith("edit:"):
                ctx.count(label)
            if nvalid >= 3:
                ctx.nontrivial((ji, label, ci))
            rs = list(r) if isinstance(r, tuple) else [r]
            for rr in rs:
                if "packages" not in rr:
                    ctx.violation("config-changes-parse-result:" + label.split(":")[0], "project parses in the base configuration but not under %s: %s" % (label, str(rr)[:300]),
                                  {"desc": desc, "config": label})
                    continue
                ids = ids_of(rr)
                if label == "dep-order":
                    # the permuted recipe's own steps (and its dependents) see another argument order; everything
                    # reached THROUGH its dependencies must keep its ids
                    pname = desc.get("_permuted")
                    own = {p for p, pk in base["packages"].items() if pk["recipe"] == pname}
                    def below_permuted(path):
                        return any(path.startswith(o + "/") for o in own)
                    keys = [k for k in base_ids if k in ids and below_permuted(k[0])]
                    diff = [k for k in keys if base_ids[k][0] != ids[k][0]]
                    ctx.count("dep-order:compared-steps", len(keys))
                elif label == "sandbox-flip":
                    skip = tainted_by_sandbox(base) | tainted_by_sandbox(rr)
                    # steps without script are not executed; the dump has no argument list for them, so whether their
                    # (derived) id is tainted by a fingerprinted argument cannot be decided: not compared here
                    skip |= {(p_, k_) for p_, k_, s_ in steps_of(base) if not s_["valid"]}
                    keys = [k for k in base_ids if k in ids and k not in skip]
                    diff = [k for k in keys if base_ids[k][0] != ids[k][0]]
                    ctx.count("sandbox-flip:compared-steps", len(keys))
                    ctx.count("sandbox-flip:excluded-fingerprinted", len(skip))
                else:
                    diff = [k for k in set(base_ids) | set(ids) if base_ids.get(k) != ids.get(k)]
                if diff:
                    k = sorted(diff)[0]
                    ctx.violation("id-depends-on:" + label.split(":")[-1] if label.startswith("edit:") else "id-depends-on:" + label,
                                  "id of %s changed under %s: %s -> %s" % (k, label, base_ids.get(k), ids.get(k)),
                                  {"desc": desc, "config": label, "step": list(k)})
        # model: build ids
        for path, kind, st in steps_of(base):
            if not st["valid"] or "bid_args" not in st:
                continue
            key = (st["digestScript"], tuple(sorted(st["digestEnv"].items())), tuple(st["bid_args"]),
                   tuple(sorted(st["bid_tools"].items())), st["bid_fingerprint"])
            if key in seen:
                continue
            seen.add(key)
            ctx.evaluated()
            ctx.count("bid:" + kind)
            if st["toolDepWeak"]:
                ctx.count("bid:with-weak-tool")
            ctx.nontrivial(("bid",) + key)
            cases.append((coq_bidin(st), hexb(st["bid"])))
            meta.append({"step": path + ":" + kind, "bid": st["bid"]})
            if len(ctx.cov["samples"]) < 4:
                ctx.sample({"step": path + ":" + kind, "bid": st["bid"], "weak": st["toolDepWeak"], "tools": list(st["tools"])})
    bad, log = coq.run_cases(ctx, REQUIRES, "(build_id sha1)", "(eqb_list N.eqb)", cases, shard=150, tag="bid")
    if bad is None:
        ctx.tie_broken("Ids build-id model evaluation failed", log)
    else:
        ctx.validated(len(cases) - len(bad))
        for i in bad[:10]:
            ctx.tie_broken("build-id-correspondence", meta[i])
