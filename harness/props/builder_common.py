"""Shared by C01/C05: running real `bob dev` builds of generated projects over
edit histories, parsing decisions, comparing results with clean builds, and
rendering the history for the Coq model (BobV.Builder.Model)."""
import json, copy, hashlib, os, re, shutil, stat, subprocess, sys, time
from vlib import proj, core, coqlit as L
from props.c02 import edit as c02_edit

REQUIRES = ["BobV.Builder.Model"]
CRASHBOB = os.path.join(core.VERIF, "harness", "vlib", "crashbob.py")


def gen_project(rng):
    """projects for the builder checks: no sandbox / fingerprint (they are C06/C07/C13 matter)"""
    g = proj.Gen(rng, features={"sandbox": False, "fingerprint": False, "nasty_values": False})
    d = g.project()
    return d


def roots_of(desc):
    return sorted(n for n, r in desc["recipes"].items() if r.get("root"))


def bob(workdir, args, env=None, crash_env=None, timeout=240):
    """run bob (through the crash wrapper when crash_env is given); output goes to a file (never a pipe:
    lingering helper processes of a killed bob would keep a pipe open)"""
    out = os.path.join(workdir, ".bobv-out.%d.txt" % time.time_ns())
    e = proj.bob_env(env)
    if crash_env is not None:
        e.update(crash_env)
        cmd = ["/venv/bin/python", CRASHBOB] + list(args)
    else:
        cmd = ["/venv/bin/python", os.path.join(core.REPO, "bob")] + list(args)
    pidfile = os.path.join(workdir, ".bobv-pid")
    e["BOBV_PIDFILE"] = pidfile
    with open(out, "w") as f:
        p = subprocess.Popen(cmd, cwd=workdir, env=e, stdout=f, stderr=subprocess.STDOUT, stdin=subprocess.DEVNULL,
                             start_new_session=True)
        with open(pidfile, "w") as pf:
            pf.write(str(p.pid))
        try:
            rc = p.wait(timeout=timeout)
        except subprocess.TimeoutExpired:
            rc = "timeout"
        # reap everything the (possibly killed) bob left behind: forkserver, resource tracker, scripts
        try:
            os.killpg(p.pid, 9)
        except OSError:
            pass
        if rc == "timeout":
            p.wait()
    txt = open(out, errors="replace").read()
    os.unlink(out)
    return rc, txt


def read_trace(path):
    """{workspace path: [micro-op codes in order]} from a BOBV_TRACE_FILE (vlib/crashbob.py)"""
    out = {}
    try:
        with open(path) as f:
            for line in f:
                code, _, p = line.rstrip("\n").partition("\t")
                out.setdefault(p, []).append(int(code))
        os.unlink(path)
    except OSError:
        pass
    return out


DEC_RE = re.compile(r"^\s*(CHECKOUT|BUILD|PACKAGE|PRUNE|UPDATE|ATTIC)\s+(.*)$")


def decisions(text):
    """[(kind, workspace path, 'run'|'skip'|'prune')] in output order"""
    out = []
    for line in text.split("\n"):
        m = DEC_RE.match(line)
        if not m:
            continue
        kind, rest = m.group(1), m.group(2).strip()
        if kind == "PRUNE":
            out.append(("PRUNE", rest.split(" ")[0], "prune"))
            continue
        if rest.startswith("skipped"):
            mm = re.search(r"(?:for|package)\s+(\S+?)\)?(?:\s|$)", rest)
            path = mm.group(1).rstrip(")") if mm else "?"
            out.append((kind, path, "skip"))
        else:
            out.append((kind, rest.split(" ")[0], "run"))
    return out


def tree_digest(path):
    """own content digest of a directory tree (names, file contents, exec bit, link targets)"""
    h = hashlib.sha1()
    for root, dirs, files in os.walk(path):
        dirs.sort()
        rel = os.path.relpath(root, path)
        h.update(b"D" + rel.encode() + b"\0")
        for d in list(dirs):
            p = os.path.join(root, d)
            if os.path.islink(p):
                h.update(b"L" + d.encode() + b"\0" + os.readlink(p).encode() + b"\0")
                dirs.remove(d)
        for f in sorted(files):
            p = os.path.join(root, f)
            if os.path.islink(p):
                h.update(b"L" + f.encode() + b"\0" + os.readlink(p).encode() + b"\0")
            else:
                st = os.lstat(p)
                h.update(b"F" + f.encode() + b"\0" + (b"x" if st.st_mode & 0o100 else b"-"))
                with open(p, "rb") as fh:
                    h.update(hashlib.sha1(fh.read()).digest())
    return h.hexdigest()


def list_tree(path):
    out = []
    for root, dirs, files in os.walk(path):
        for f in sorted(files):
            out.append(os.path.relpath(os.path.join(root, f), path))
    return sorted(out)


MODES = {"dev": ["dev"], "dev-j4": ["dev", "-j", "4"], "build": ["build"]}


def workspaces(workdir, mode="dev"):
    """{package path: {'src'|'build'|'dist': dir}} for every existing workspace (real `bob query-path`)"""
    res = {}
    rel = ["--release"] if mode == "build" else []
    for key in ("src", "build", "dist"):
        rc, txt = bob(workdir, ["query-path", "-q"] + rel + ["-f", "{name}|{%s}" % key, "//*"])
        for line in txt.split("\n"):
            if "|" in line:
                name, d = line.split("|", 1)
                res.setdefault(name.strip(), {})[key] = d.strip()
    return res


def results(workdir, mode="dev"):
    """{package path: digest of its dist workspace}"""
    ws = workspaces(workdir, mode)
    return {p: tree_digest(os.path.join(workdir, d["dist"])) for p, d in ws.items() if "dist" in d}, ws


def clean_results(desc, tag="clean", mode="dev"):
    p = core.scratch_dir(tag)
    try:
        proj.write_project(desc, p)
        rc, txt = bob(p, MODES[mode] + roots_of(desc))
        if rc != 0:
            return None, txt
        r, ws = results(p, mode)
        return r, txt
    finally:
        shutil.rmtree(p, ignore_errors=True)


def variant_reparam(desc, rng):
    """re-parameterise ONE of several uses of a recipe that exists in more than one variant (dependency
    `environment:` of one user edited, the other users untouched): the other variants and their
    numbered workspaces stay, the edited one becomes a new variant"""
    d = copy.deepcopy(desc)
    uses = {}
    for rn, r in sorted(d["recipes"].items()):
        for dep in r.get("depends", []):
            nm = dep if isinstance(dep, str) else dep.get("name")
            uses.setdefault(nm, []).append((rn, dep))
    cands = []
    for nm, us in sorted(uses.items()):
        if len(us) >= 2:
            for rn, dep in us:
                if isinstance(dep, dict) and dep.get("environment"):
                    cands.append((nm, rn, dep))
    if not cands:
        return None
    nm, rn, dep = rng.choice(cands)
    k = rng.choice(sorted(dep["environment"]))
    dep["environment"][k] = "rp%d" % rng.randrange(1000)
    return d, "variant_reparam"


def checkout_edit(desc, rng):
    """an edit that changes nothing but the Variant-Id of a deterministic checkout (seed C01-3: the checkout must
    run again although no SCM changed): its script text, or the value of a variable only the checkout consumes"""
    d = copy.deepcopy(desc)
    cands = [n for n, r in sorted(d["recipes"].items()) if r.get("checkoutDeterministic") and "checkoutScript" in r]
    if not cands:
        return None
    r = d["recipes"][rng.choice(cands)]
    cv = [v for v in r.get("checkoutVars", []) if v in r.get("environment", {})
          and v not in r.get("buildVars", []) and v not in r.get("packageVars", [])]
    if cv and rng.random() < 0.5:
        r["environment"][cv[0]] += "C"
        return d, "checkout_var_value"
    r["checkoutScript"] += "echo edited > co-edited-%d.txt\n" % rng.randrange(1000)
    return d, "checkout_script"


def gen_history(rng, n, prefer=None):
    """list of project descriptions: random single edits and reverts to earlier states;
    prefer = edit kinds to favour (C05: edits that make steps re-execute, so that injected faults fire)"""
    base = gen_project(rng)
    hist = [base]
    kinds = ["base"]
    for _ in range(n):
        if len(hist) > 1 and rng.random() < 0.25:
            hist.append(copy.deepcopy(rng.choice(hist[:-1])))
            kinds.append("revert")
            continue
        if rng.random() < 0.2:
            e = variant_reparam(hist[-1], rng)
            if e is not None:
                hist.append(e[0]); kinds.append(e[1])
                continue
        if rng.random() < 0.15:
            e = checkout_edit(hist[-1], rng)
            if e is not None:
                hist.append(e[0]); kinds.append(e[1])
                continue
        e = None
        favour = prefer is not None and rng.random() < 0.8
        for _try in range(30 if favour else 6):
            e = c02_edit(hist[-1], rng)
            if e is not None and (not favour or e[1] in prefer):
                break
        if e is None:
            hist.append(copy.deepcopy(hist[-1])); kinds.append("same")
        else:
            hist.append(e[0]); kinds.append(e[1])
    return hist, kinds


# ------------------------------------------------------------------ model rendering
class Interner:
    def __init__(self):
        self.d = {}

    def __call__(self, key):
        if key not in self.d:
            self.d[key] = len(self.d) + 1
        return self.d[key]


def model_project(dumped, ws, paths, digs, desc=None):
    """Coq literal of the project (list stepdef in dependency order) from the dump of the real
    package tree and the real workspace directories; None if it contains something the model
    does not cover (invalid args are skipped like the builder does)."""
    steps = {}       # (package name, vid, kind) -> (wsdir, kind, step, deps[keys])
    label2kind = {"src": "checkout", "build": "build", "dist": "package"}
    wskey = {"checkout": "src", "build": "build", "package": "dist"}
    pk = dumped["packages"]

    def key_of(pkgpath, kind):
        if pkgpath not in pk:
            return None
        return (pk[pkgpath]["name"], pk[pkgpath]["steps"][kind]["vid"], kind)

    # `bob query-path //*` lists one path per distinct package; identical packages reached on
    # other paths share the workspace: resolve workspaces by (package name, variant id)
    dirs = {}
    for pkg, d in ws.items():
        if pkg in pk:
            for kind in ("checkout", "build", "package"):
                if wskey[kind] in d and pk[pkg]["steps"][kind]["valid"]:
                    dirs[key_of(pkg, kind)] = d[wskey[kind]]
    for pkg, info in pk.items():
        for kind in ("checkout", "build", "package"):
            st = info["steps"][kind]
            k = key_of(pkg, kind)
            if not st["valid"] or k not in dirs or k in steps:
                continue
            deps = []
            if kind == "package" and info["steps"]["checkout"]["valid"]:
                deps.append(key_of(pkg, "checkout"))
            for a in st["args"]:
                if a["valid"]:
                    deps.append(key_of(a["pkg"], label2kind[a["label"]]))
            for n, t in sorted(st["tools"].items()):
                deps.append(key_of(t["pkg"], "package"))
            if st.get("sandbox"):
                return None
            if any(d is None or d not in dirs for d in deps):
                return None          # a dependency without workspace: outside what the model covers
            steps[k] = (dirs[k], kind, st, deps)
    # order: dependencies first
    order = []
    seen = set()

    def visit(k):
        if k in seen or k not in steps:
            return
        seen.add(k)
        for d in steps[k][3]:
            visit(d)
        order.append(k)
    for k in sorted(steps):
        visit(k)
    lits = []
    used = set()
    for k in order:
        wsdir, kind, st, deps = steps[k]
        if wsdir in used:       # one workspace reached through several package paths: cooked once
            continue
        used.add(wsdir)
        dep_dirs = [steps[d][0] for d in deps if d in steps]
        dkey = (st["vid"], wsdir, tuple(dep_dirs)) if kind == "build" else (st["vid"],)
        if kind == "checkout" and desc is not None:
            # what an import SCM copies is an input of the checkout that its Variant-Id does not cover: the model's step
            # definition (which fixes the step's output) has to change when the generated source files change
            rname = next((pk[p_]["recipe"] for p_ in pk if key_of(p_, "checkout") == k), None)
            src = (desc["recipes"].get(rname) or {}).get("_sources")
            if src:
                dkey = dkey + (json.dumps(src, sort_keys=True),)
        klit = {"checkout": "(KCheckout %s)" % L.B(st["deterministic"]), "build": "KBuild", "package": "KPackage"}[kind]
        lits.append("{| sd_path := %d; sd_kind := %s; sd_d := %d; sd_deps := %s |}" % (
            paths(wsdir), klit, digs(dkey), L.lst([str(paths(x)) for x in dep_dirs]) if dep_dirs else "(@nil N)"))
    return "[" + ";\n   ".join(lits) + "]"
