"""C04 sub-process: parse the project in argv[1] with the real RecipeSet of the
repository on PYTHONPATH and print, as JSON, the package tree Bob works on
(names, stack paths, dependency structure, scripts, environments, tools,
sandbox, ids, workspace paths), the answers to path queries, the root
environment and (optionally) the per-recipe memo tables of Recipe.prepare.

Cache configurations (all decided here, nothing is edited in the repository):
  --delete F      remove cache file F (glob, relative to the project) first
  --no-cache      remove every .bob-* file first
  --no-memo       PackageMatcher.matches always answers False  (memo disabled)
  --no-merge      the by-result-id merge (__corePackagesById.setdefault) never reuses
  --pkgck         bob.DEBUG['pkgck'] = True (internal re-computation check)
  --dev           workspace paths through DevelopDirOracle (.bob-dev-dirs.sqlite3)
"""
import argparse, glob, hashlib, json, os, sys


def hx(b):
    return b.hex() if isinstance(b, (bytes, bytearray)) else b


def sh(text):
    return None if text is None else hashlib.sha1(text.encode("utf8")).hexdigest()[:16]


def step_info(step, want_paths):
    core = step._coreStep
    d = {"label": step.getLabel(), "valid": step.isValid(), "vid": hx(step.getVariantId()),
         "deterministic": step.isDeterministic(), "fingerprinted": step._isFingerprinted()}
    d["resultId"] = hx(core.getResultId())
    d["args"] = [{"vid": hx(a.getVariantId()), "valid": a.isValid(), "pkg": "/".join(a.getPackage().getStack()),
                  "label": a.getLabel()} for a in step.getArguments()]
    if not step.isValid():
        return d
    d["digestScript"] = sh(step.getDigestScript())
    d["mainScript"] = sh(step.getMainScript())
    d["setupScript"] = sh(step.getSetupScript())
    d["fingerprintScript"] = sh(step._getFingerprintScript())
    d["env"] = dict(step.getEnv())
    d["digestEnv"] = dict(core.digestEnv)
    tools = {}
    for name, t in sorted(step.getTools().items()):
        tools[name] = {"vid": hx(t.getStep().getVariantId()), "path": t.getPath(), "libs": list(t.getLibs()),
                       "env": dict(t.getEnvironment()), "recipe": t.getStep().getPackage().getRecipe().getPackageName(),
                       "pkg": "/".join(t.getStep().getPackage().getStack())}
    d["tools"] = tools
    d["toolDep"] = sorted(core.toolDep)
    d["toolDepWeak"] = sorted(core.toolDepWeak)
    sb = step.getSandbox()
    if sb is not None:
        d["sandbox"] = {"vid": hx(sb.getStep().getVariantId()), "paths": list(sb.getPaths()),
                        "mounts": [list(m[:2]) + [list(m[2])] for m in sb.getMounts()],
                        "env": dict(sb.getEnvironment()), "user": sb.getUser(),
                        "recipe": sb.getStep().getPackage().getRecipe().getPackageName(),
                        "pkg": "/".join(sb.getStep().getPackage().getStack())}
    else:
        d["sandbox"] = None
    if want_paths:
        d["workspace"] = step.getWorkspacePath()
    if step.isCheckoutStep():
        d["scmDigest"] = [sh(s.asDigestScript()) for s in step.getScmList()]
    if step.isPackageStep():
        d["providedEnv"] = dict(core.providedEnv)
        d["providedTools"] = {n: hx(t.resultId) for n, t in core.providedTools.items()}
        d["providedToolSpecs"] = {n: {"path": t.path, "libs": list(t.libs), "env": dict(t.environment)}
                                  for n, t in core.providedTools.items()}
        d["providedDeps"] = [x.refGetDestination().corePackage.getName() for x in core.providedDeps]
        ps = core.providedSandbox
        d["providedSandbox"] = None if ps is None else {"rid": hx(ps.resultId), "paths": list(ps.paths),
                                                        "env": dict(ps.environment)}
    return d


def canon_error(e, root):
    s = str(e)
    s = s.replace(root, ".")
    if "Recipes are cyclic" in s:
        return "cyclic"
    return s[:600]


def main(argv=None):
    ap = argparse.ArgumentParser()
    ap.add_argument("path")
    ap.add_argument("-D", action="append", default=[], dest="defines")
    ap.add_argument("-c", action="append", default=[], dest="configs")
    ap.add_argument("--sandbox", action="store_true")
    ap.add_argument("--no-cache", action="store_true")
    ap.add_argument("--delete", action="append", default=[])
    ap.add_argument("--no-memo", action="store_true")
    ap.add_argument("--no-merge", action="store_true")
    ap.add_argument("--pkgck", action="store_true")
    ap.add_argument("--dev", action="store_true")
    ap.add_argument("--memo-tables", action="store_true")
    ap.add_argument("--query", action="append", default=[])
    ap.add_argument("--max-nodes", type=int, default=6000)
    args = ap.parse_args(argv)
    os.chdir(args.path)
    root = os.getcwd()
    pats = list(args.delete) + ([".bob-*"] if args.no_cache else [])
    for pat in pats:
        for p in glob.glob(pat):
            try:
                os.unlink(p)
            except OSError:
                pass
    import bob
    from bob import input as binput
    from bob.input import RecipeSet
    from bob.cmds.helpers import processDefines
    from bob.errors import BobError
    import time
    T0 = time.time()
    out = {"hooks": [], "timing": {}}
    if args.pkgck:
        if "pkgck" not in bob.DEBUG:
            print(json.dumps({"harness_error": "bob.DEBUG has no 'pkgck' switch any more"}))
            return 0
        bob.DEBUG["pkgck"] = True
        out["hooks"].append("pkgck")
    if args.no_memo:
        if not hasattr(binput, "PackageMatcher") or not hasattr(binput.PackageMatcher, "matches"):
            print(json.dumps({"harness_error": "PackageMatcher.matches not found"}))
            return 0
        binput.PackageMatcher.matches = lambda self, *a, **kw: False
        out["hooks"].append("no-memo")

    class NoMerge(dict):
        def setdefault(self, k, v=None):
            return v

    try:
        recipes = RecipeSet()
        if args.dev:
            from bob.builder import LocalBuilder
            from bob.cmds.build.state import DevelopDirOracle
            recipes.defineHook('releaseNameFormatter', LocalBuilder.releaseNameFormatter)
            recipes.defineHook('developNameFormatter', LocalBuilder.developNameFormatter)
            recipes.defineHook('developNamePersister', None)
        recipes.setConfigFiles(args.configs)
        recipes.parse(processDefines(args.defines))
        out["rootEnv"] = dict(recipes.getRootEnv().inspect())
        out["timing"]["parse"] = round(time.time() - T0, 3)
        if args.no_merge:
            n = 0
            for name in list(recipes.getRecipes()):
                r = recipes.getRecipe(name)
                if not hasattr(r, "_Recipe__corePackagesById"):
                    continue
                r._Recipe__corePackagesById = NoMerge()
                n += 1
            if n == 0:
                print(json.dumps({"harness_error": "Recipe.__corePackagesById not found"}))
                return 0
            out["hooks"].append("no-merge")
        if args.dev:
            nameFormatter = recipes.getHook('developNameFormatter')
            persister = DevelopDirOracle(nameFormatter, recipes.getHook('developNamePersister'))
            nameFormatter = LocalBuilder.makeRunnable(persister.getFormatter())
        else:
            nameFormatter = lambda s, m: "unused"
        packages = recipes.generatePackages(nameFormatter, args.sandbox)
        if args.dev:
            persister.prime(packages)
        rootPkg = packages.getRootPackage()
        out["timing"]["generate"] = round(time.time() - T0, 3)
    except BobError as e:
        print(json.dumps({"error": "BobError", "slogan": canon_error(e, root)}))
        return 0
    except AssertionError as e:
        print(json.dumps({"error": "AssertionError", "slogan": canon_error(e, root)}))
        return 0
    pk = {}
    count = [0]

    def walk(pkg, path):
        count[0] += 1
        if count[0] > args.max_nodes:
            raise OverflowError()
        key = "/".join(path)
        info = {"name": pkg.getName(), "recipe": pkg.getRecipe().getPackageName(), "steps": {}}
        for kind, st in (("checkout", pkg.getCheckoutStep()), ("build", pkg.getBuildStep()), ("package", pkg.getPackageStep())):
            info["steps"][kind] = step_info(st, args.dev)
        info["direct"] = [d.getPackage().getName() for d in pkg.getDirectDepSteps()]
        info["indirect"] = [d.getPackage().getName() for d in pkg.getIndirectDepSteps()]
        info["all"] = sorted(d.getPackage().getName() for d in pkg.getAllDepSteps())
        info["metaEnv"] = dict(pkg.getMetaEnv())
        info["shared"] = bool(pkg.isShared())
        pk[key] = info
        seen = set()
        for d in pkg.getDirectDepSteps() + pkg.getIndirectDepSteps():
            p = d.getPackage()
            if p.getName() in seen:
                continue
            seen.add(p.getName())
            walk(p, path + [p.getName()])

    try:
        seen = set()
        for d in rootPkg.getDirectDepSteps():
            p = d.getPackage()
            walk(p, [p.getName()])
        out["roots"] = [d.getPackage().getName() for d in rootPkg.getDirectDepSteps()]
    except BobError as e:
        print(json.dumps({"error": "BobError", "slogan": canon_error(e, root), "phase": "walk"}))
        return 0
    except OverflowError:
        print(json.dumps({"error": "too-large"}))
        return 0
    except (KeyError, AttributeError, AssertionError) as e:
        print(json.dumps({"error": "Crash", "slogan": type(e).__name__ + ": " + canon_error(e, root), "phase": "walk"}))
        return 0
    out["packages"] = pk
    out["timing"]["walk"] = round(time.time() - T0, 3)
    if args.query:
        out["queries"] = {}
        for q in args.query:
            try:
                out["queries"][q] = sorted("/".join(stack) for stack, _ in packages.queryTreePath(q, True))
            except BobError as e:
                out["queries"][q] = "error:" + canon_error(e, root)
            except (KeyError, AttributeError, AssertionError, TypeError) as e:
                out["queries"][q] = "crash:" + type(e).__name__ + ": " + canon_error(e, root)
    if args.memo_tables:
        memo = {}
        for name in list(recipes.getRecipes()):
            r = recipes.getRecipe(name)
            tab = getattr(r, "_Recipe__corePackagesByMatch", None)
            if tab is None:
                continue
            ents = []
            for m in reversed(tab):         # oldest first
                ents.append({"env": dict(m.env), "tools": {k: hx(v) for k, v in m.tools.items()},
                             "sandbox": hx(m.sandbox), "packageName": m.packageName,
                             "rid": hx(m.corePackage.getCorePackageStep().getResultId()),
                             "sub": sorted(m.subTreePackages)})
            memo[name] = ents
        out["memo"] = memo
    out["cachefiles"] = sorted(glob.glob(".bob-*"))
    out["timing"]["total"] = round(time.time() - T0, 3)
    print(json.dumps(out))
    return 0


if __name__ == "__main__":
    sys.exit(main())
