"""C05 — failed or killed builds never poison the workspace."""
import os, shutil, json, copy, random
from concurrent.futures import ThreadPoolExecutor
from vlib import coq, coqlit as L, proj, core
from props import builder_common as bc
from props.c02 import edit as c02_edit

PROPERTY_FILES = ["Builder/Properties_C05.v"]

REBUILDING = ("script", "var_value", "class_script", "global_value", "var_list_del", "dep_env")
FAULTS = ["kill-save", "kill-save", "kill-prune", "kill-invalidate", "fail-script", "kill-script"]


def frags(desc):
    out = []
    for n, r in desc["recipes"].items():
        if "buildScript" in r: out.append(n + "b")
        if "packageScript" in r: out.append(n + "p")
    return out


def unlock(w):
    for f in (".bob-state.lock",):
        try:
            os.unlink(os.path.join(w, f))
        except OSError:
            pass


def abort_build(w, desc, rng):
    """one aborted invocation; returns a description of what was injected and what happened"""
    kind = rng.choice(FAULTS)
    # with -j several steps are in flight when the invocation dies (Builder/Sched.v: partial_executions_keep_invariants)
    par = rng.choice([[], [], ["-j", "4"], ["-j", "2", "-k"]])
    roots = par + bc.roots_of(desc)
    if kind == "kill-save":
        k = rng.choice([1, 2, 3, 4, 5, 6, 8, 10, 13, 17, 25])
        rc, txt = bc.bob(w, ["dev"] + roots, crash_env={"BOBV_KILL_SAVE": str(k)})
        what = {"fault": kind, "k": k}
    elif kind == "kill-prune":
        rc, txt = bc.bob(w, ["dev"] + roots, crash_env={"BOBV_KILL_PRUNE": "1"})
        what = {"fault": kind}
    elif kind == "kill-invalidate":
        k = rng.choice([1, 1, 2, 3])
        rc, txt = bc.bob(w, ["dev"] + roots, crash_env={"BOBV_KILL_INVALIDATE": str(k)})
        what = {"fault": kind, "k": k}
    else:
        # a fault in a script only fires if the step is re-executed: the roots are re-executed after almost every
        # edit below them, a random fragment often is not (measured: 1 of 6 fired) -> prefer the roots' fragments
        fs = frags(desc) or ["none"]
        rootfs = [f for f in fs if f[:-1] in bc.roots_of(desc)]
        fr = rng.choice(rootfs) if rootfs and rng.random() < 0.6 else rng.choice(fs)
        var = "BOBV_FAIL" if kind == "fail-script" else "BOBV_KILL"
        rc, txt = bc.bob(w, ["dev"] + roots, env={var: fr})
        what = {"fault": kind, "frag": fr}
    what["rc"] = rc
    what["par"] = " ".join(par)
    what["aborted"] = rc != 0
    unlock(w)
    return what


def add_package_only(desc, rng):
    """a recipe with nothing but a package step (no checkout, no build step: its package step has no inputs),
    used by a random other recipe"""
    d = copy.deepcopy(desc)
    nm = "pko"
    d["recipes"][nm] = {"packageScript": proj.script_for(nm + "p", "package", [])}
    users = sorted(n for n, r in d["recipes"].items() if n != nm and "buildScript" in r)
    if users:
        u = d["recipes"][rng.choice(users)]
        u["depends"] = list(u.get("depends", [])) + [nm]
    return d


def first_build_faults(seed, rec, rng):
    """every script of the project in turn is aborted (failing after partial output, or Bob killed from inside
    it) during the first build of an empty workspace; then a normal invocation, compared with the clean build.
    Needs no edit for the fault to fire: in a first build every step runs."""
    desc = bc.gen_project(rng)
    if rng.random() < 0.7:
        desc = add_package_only(desc, rng)
    rec["final"] = desc
    clean, ctxt = bc.clean_results(desc, "c05cl")
    if clean is None:
        rec["rejected"] = True
        return rec
    rec["final_rc"] = 0
    fs = frags(desc)
    rng.shuffle(fs)
    fs.sort(key=lambda f: 0 if f.startswith("pko") else 1)
    for fr in fs[:6]:
        wk = core.scratch_dir("c05f")
        try:
            proj.write_project(desc, wk)
            kind = rng.choice(["fail-script", "kill-script"])
            par = rng.choice([[], [], ["-j", "3"]])
            rc, txt = bc.bob(wk, ["dev"] + par + bc.roots_of(desc), env={"BOBV_FAIL" if kind == "fail-script" else "BOBV_KILL": fr})
            ev = {"fault": kind, "frag": fr, "rc": rc, "aborted": rc != 0, "par": " ".join(par), "first_build": True}
            rec["events"].append(ev); unlock(wk)
            if rc == 0:
                continue                      # the fragment belongs to a step that is not part of the build
            rc2, txt2 = bc.bob(wk, ["dev"] + bc.roots_of(desc))
            if rc2 != 0:
                rec["violations"].append(("next-invocation-fails-after-abort", "build after %s in %s failed: %s" % (kind, fr, txt2[-300:]), {"frag": fr}))
                break
            res, ws = bc.results(wk)
            bad = [pkg for pkg, dg in clean.items() if res.get(pkg) != dg]
            if bad:
                d = ws.get(bad[0], {}).get("dist")
                rec["violations"].append(("result-differs-from-clean-after-abort:" + kind,
                                          "package %s differs from the clean build after %s inside %s during the first build" % (bad[0], kind, fr),
                                          {"package": bad[0], "frag": fr, "files": bc.list_tree(os.path.join(wk, d)) if d else None,
                                           "decisions": [x for x in bc.decisions(txt2)][:14]}))
                break
        finally:
            shutil.rmtree(wk, ignore_errors=True)
    return rec


def one_history(args):
    seed, mode = args
    rng = random.Random(seed)
    rec = {"seed": seed, "mode": mode, "events": [], "violations": []}
    if mode == "first":
        return first_build_faults(seed, rec, rng)
    w = core.scratch_dir("c05")
    try:
        if mode in ("inval", "f29", "tear", "tear-revert"):
            # systematic sweep: one edit (in either direction), every k-th invalidation / prune as kill point,
            # each from a copy of the workspace as it was after the first build
            a = bc.gen_project(rng)
            e = None
            for _ in range(40):
                e = c02_edit(a, rng)
                if e is not None and e[1] in REBUILDING:
                    break
            b = e[0] if e else a
            first, second = (a, b) if rng.random() < 0.5 else (b, a)
            proj.write_project(first, w)
            rc, _ = bc.bob(w, ["dev"] + bc.roots_of(first))
            rec["events"].append({"build": 0, "rc": rc, "edit": e[1] if e else None})
            final = second if mode in ("inval", "tear") else first       # f29, tear-revert: the edit is reverted after the kill
            rec["final"] = final
            clean, ctxt = bc.clean_results(final, "c05cl")
            if clean is None or rc != 0:
                rec["rejected"] = True
                return rec
            var = {"inval": "BOBV_KILL_INVALIDATE", "f29": "BOBV_KILL_PRUNE"}.get(mode, "BOBV_TEAR_SAVE")
            fault = {"inval": "kill-invalidate", "f29": "kill-prune"}.get(mode, "kill-inside-state-write")
            rec["final_rc"] = 0
            for k in range(1, 9 if mode in ("inval", "f29") else 11):
                wk = core.scratch_dir("c05k")
                try:
                    shutil.rmtree(wk); shutil.copytree(w, wk, symlinks=True)
                    proj.write_project(second, wk)
                    rc, txt = bc.bob(wk, ["dev"] + bc.roots_of(second), crash_env={var: str(k)})
                    ev = {"fault": fault, "k": k, "rc": rc, "aborted": rc != 0}
                    rec["events"].append(ev); unlock(wk)
                    if rc == 0:
                        break
                    proj.write_project(final, wk)
                    rc2, txt2 = bc.bob(wk, ["dev"] + bc.roots_of(final))
                    if rc2 != 0:
                        rec["violations"].append(("next-invocation-fails-after-abort", "build after kill #%d failed: %s" % (k, txt2[-300:]), {"k": k}))
                        break
                    res, ws = bc.results(wk)
                    bad = [pkg for pkg, dg in clean.items() if res.get(pkg) != dg]
                    if bad:
                        d = ws.get(bad[0], {}).get("dist")
                        rec["violations"].append(("result-differs-from-clean-after-abort:" + ev["fault"],
                                                  "package %s differs from the clean build after kill at %s #%d (edit %s)" % (bad[0], ev["fault"], k, e[1] if e else None),
                                                  {"package": bad[0], "k": k, "files": bc.list_tree(os.path.join(wk, d)) if d else None,
                                                   "first": first, "second": second}))
                        break
                finally:
                    shutil.rmtree(wk, ignore_errors=True)
            return rec
        else:
            hist, kinds = bc.gen_history(rng, rng.randint(1, 3), prefer=REBUILDING)
            proj.write_project(hist[0], w)
            rc, _ = bc.bob(w, ["dev"] + bc.roots_of(hist[0]))
            rec["events"].append({"build": 0, "rc": rc})
            for i, desc in enumerate(hist[1:], 1):
                proj.write_project(desc, w)
                want = rng.randint(1, 2)
                for _try in range(5):
                    ev = dict(abort_build(w, desc, rng), edit=kinds[i])
                    rec["events"].append(ev)
                    if ev["aborted"]:
                        want -= 1
                    if want == 0 or not ev["aborted"] and _try >= 3:
                        break
            final = hist[-1]
        rec["final"] = final
        proj.write_project(final, w)
        rc, txt = bc.bob(w, ["dev"] + bc.roots_of(final))
        rec["final_rc"] = rc
        clean, ctxt = bc.clean_results(final, "c05cl")
        if clean is None:
            rec["rejected"] = True       # the final project state itself does not build: not a case
            return rec
        if rc != 0:
            rec["violations"].append(("next-invocation-fails-after-abort", "build after aborted run(s) failed: %s" % txt[-300:], {}))
            return rec
        res, ws = bc.results(w)
        for pkg, dg in clean.items():
            if res.get(pkg) != dg:
                d = ws.get(pkg, {}).get("dist")
                files = bc.list_tree(os.path.join(w, d)) if d else None
                sig = "result-differs-from-clean-after-abort"
                last = [e for e in rec["events"] if e.get("aborted")]
                if last:
                    sig += ":" + last[-1]["fault"]
                rec["violations"].append((sig, "package %s differs from the clean build after %r" % (pkg, rec["events"]),
                                          {"package": pkg, "files": files}))
                break
        rec["decisions"] = [d for d in bc.decisions(txt) if d[2] != "skip"][:12]
    finally:
        shutil.rmtree(w, ignore_errors=True)
    return rec


def run(ctx):
    ctx.rule = ("generated projects + edit histories; after each edit 1-2 aborted invocations (kill at the k-th state save, kill "
                "right after a prune, failing script after partial output, SIGKILL from inside a script), stale lock removed, "
                "then a normal build compared with a clean build; sweeps over every k-th invalidation / prune / torn state write as kill "
                "point around one edit (kept or reverted afterwards); plus first builds of an empty workspace aborted inside every script "
                "in turn (projects with a package-only recipe); non-trivial when at least one invocation was really aborted")
    ctx.assumptions += [
        "scripts are deterministic and restartable by construction (they remove their own partial output first)",
        "kill points are the persistent-state saves, the end of a prune, the moment after an invalidation, and the middle of a "
        "persistent-state write (half of the pickled state written: modes tear / tear-revert); other os-level tears are C10's matter",
    ]
    nh = ctx.n(16, 200)
    jobs = [(ctx.rng.randrange(1 << 30), "f29" if i % 8 in (0, 4) else ("inval" if i % 8 in (1, 3, 5) else "random")) for i in range(nh)]
    jobs = [(sd, "tear-revert" if (m == "random" and i % 8 == 6) else m) for i, (sd, m) in enumerate(jobs)]
    # tear-revert is the sharper mode (state falls back to the start of the killed invocation, the reverted project then
    # matches the stale "valid" state): seed C05-3 showed in about one of six such sweeps
    jobs += [(ctx.rng.randrange(1 << 30), m) for m in ["tear-revert"] * ctx.n(6, 24) + ["tear"] * ctx.n(1, 10)]
    jobs += [(ctx.rng.randrange(1 << 30), "first") for i in range(ctx.n(4, 40))]
    with ThreadPoolExecutor(max_workers=6) as ex:
        recs = list(ex.map(one_history, jobs))
    for rec in recs:
        ctx.evaluated()
        if rec.get("rejected"):
            ctx.count("history:rejected")
            continue
        ctx.count("history:" + rec["mode"])
        ab = [e for e in rec["events"] if e.get("aborted")]
        for e in rec["events"]:
            if "fault" in e:
                ctx.count("fault:%s:%s" % (e["fault"], "aborted" if e.get("aborted") else "completed"))
                if e.get("par"):
                    ctx.count("aborted-invocation-with:%s" % e["par"])
        if ab:
            ctx.nontrivial((rec["seed"], rec["mode"]))
        for sig, what, detail in rec["violations"]:
            detail = dict(detail); detail["seed"] = rec["seed"]; detail["events"] = rec["events"]; detail["final_project"] = rec.get("final")
            ctx.violation(sig, what, detail)
        if len(ctx.cov["samples"]) < 4:
            ctx.sample({"seed": rec["seed"], "mode": rec["mode"], "events": rec["events"], "recovery_build_ran": rec.get("decisions")})
    ctx.validated(sum(1 for r in recs if not r.get("rejected") and not r["violations"]))
    # tie of the model the crash theorems are about: its micro-op sequences (every prefix of which is a crash
    # image in the theorems) are the real builder's persistent-state operations, prunes and script runs
    from props import c01
    seeds = [ctx.rng.randrange(1 << 30) for _ in range(ctx.n(3, 25))]
    with ThreadPoolExecutor(max_workers=3) as ex:
        recs2 = list(ex.map(c01.one_history, [(s_, 3) for s_ in seeds]))
    c01.model_correspondence(ctx, recs2, "c05m")
