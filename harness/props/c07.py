"""C07 — binary artifacts are reused exactly when they are the right ones.

Correspondence: random histories over two real workspaces at different
absolute paths that share one file archive (plus a third, purely local
reference workspace per project state).  Every `bob dev` invocation is also
executed by the Coq model coq/C07/Model.v (`run_history`, evaluated with
vm_compute); compared after every invocation: outcome (ok / which BuildError),
the ordered decision trace (QUERY, CHECKOUT, PRUNE, DOWNLOAD ok/failed,
PACKAGE executed / skipped (already downloaded | unchanged input), UPLOAD,
restart), the persisted package input state (none / built / downloaded, and
whether the recorded Build-Id is the node's Build-Id), whether an artifact is
in the archive under the node's Build-Id, and whether every dist/ tree equals
the one of the local reference build.

Direct oracle on the implementation (independent of the model):
  * dist/ of everything built, downloaded or skipped == local clean build,
  * summary counters == the decisions printed,
  * uploader state == downloader state (recipes, sources, fingerprint, all
    relocatable) and full upload  ==>  0 packages built,
  * equal Build-Id <==> equal id-relevant signature (scripts, consumed
    variables, strong tools, source content, fingerprint output, execution path
    of non-relocatable packages), over all packages of all states and both
    workspaces; real Build-Ids are also recomputed by Ids/Model.v build_id.

This file doubles as the sub-process helper that inspects a workspace with the
implementation under test (`c07.py --helper snapshot <dir> <root>`)."""
import sys, os, json

if __name__ == "__main__" and len(sys.argv) > 2 and sys.argv[1] == "--helper":
    # ------------------------------------------------------------------ helper (runs with PYTHONPATH=<repo>/pym)
    sys.path.insert(0, os.path.dirname(os.path.dirname(os.path.abspath(__file__))))

    def helper_main():
        import asyncio, gzip
        from vlib.dump_proj import step_info, hx
        cmd, path, root = sys.argv[2], sys.argv[3], sys.argv[4]
        os.chdir(path)
        from bob.input import RecipeSet
        from bob.builder import LocalBuilder, dissectPackageInputState
        from bob.cmds.build.state import DevelopDirOracle
        from bob.cmds.build.build import ExecutableStep, LazyIR
        from bob.errors import BobError
        from bob.state import BobState
        from bob.utils import hashDirectory, getPlatformTag
        from bob.audit import Audit
        try:
            recipes = RecipeSet()
            recipes.defineHook('releaseNameFormatter', LocalBuilder.releaseNameFormatter)
            recipes.defineHook('developNameFormatter', LocalBuilder.developNameFormatter)
            recipes.defineHook('developNamePersister', None)
            recipes.parse({})
            nameFormatter = recipes.getHook('developNameFormatter')
            oracle = DevelopDirOracle(nameFormatter, recipes.getHook('developNamePersister'))
            nameFormatter = LocalBuilder.makeRunnable(oracle.getFormatter())
            packages = recipes.generatePackages(nameFormatter, False)
            oracle.prime(packages)
            rootPkg = None
            for d in packages.getRootPackage().getDirectDepSteps():
                if d.getPackage().getName() == root:
                    rootPkg = d.getPackage()
            if rootPkg is None:
                print(json.dumps({"error": "no root package " + root}))
                return 0
        except BobError as e:
            print(json.dumps({"error": "BobError", "slogan": str(e)}))
            return 0
        out = {}
        state = BobState()

        def audit_of(ws):
            p = os.path.join(os.path.dirname(ws), "audit.json.gz")
            if not os.path.exists(p):
                return None
            try:
                a = Audit.fromFile(p).getArtifact()
                return {"bid": hx(a.getBuildId()), "result": hx(a.getResultHash())}
            except Exception as e:
                return {"error": repr(e)}

        def ws_state(step):
            ws = step.getWorkspacePath()
            d = {"path": ws, "exists": os.path.lexists(ws)}
            if os.path.isdir(ws):
                d["hash"] = hx(hashDirectory(ws))
                d["empty"] = not os.listdir(ws)
            res = state.getResultHash(ws)
            d["result"] = hx(res) if isinstance(res, bytes) else (None if res is None else "timestamp")
            inp = state.getInputHashes(ws)
            if step.isPackageStep():
                dn, sh, oin, obid = dissectPackageInputState(inp)
                d["kind"] = 2 if dn else (3 if sh else (1 if isinstance(inp, list) and inp else (0 if inp is None else 3)))
                d["bid"] = hx(obid) if isinstance(obid, bytes) else None
                d["inputs"] = [hx(x) if isinstance(x, bytes) else None for x in oin] if isinstance(oin, list) else None
            else:
                d["inputs"] = [hx(x) if isinstance(x, bytes) else None for x in inp] if isinstance(inp, list) else None
            d["audit"] = audit_of(ws)
            return d

        def walk(pkg, path):
            key = "/".join(path)
            if key in out:
                return
            info = {"name": pkg.getName(), "recipe": pkg.getRecipe().getName(), "steps": {}, "ws": {},
                    "relocatable": pkg.isRelocatable()}
            for kind, st in (("checkout", pkg.getCheckoutStep()), ("build", pkg.getBuildStep()), ("package", pkg.getPackageStep())):
                si = step_info(st, False)
                if st.isValid():
                    si["fpScript"] = st._getFingerprintScript()
                    si["allDeps"] = [{"pkg": "/".join(a.getPackage().getStack()), "label": a.getLabel(), "valid": a.isValid()}
                                     for a in st.getAllDepSteps()]
                    info["ws"][kind] = ws_state(st)
                    if kind == "checkout":
                        ir = ExecutableStep.fromStep(st, LazyIR)
                        si["hasLive"] = ir.hasLiveBuildId()
                        try:
                            live = asyncio.run(ir.predictLiveBuildId())
                        except Exception:
                            live = None
                        si["live"] = hx(live) if live else None
                        try:
                            lc = ir.calcLiveBuildId() if os.path.isdir(st.getWorkspacePath()) else None
                        except Exception:
                            lc = None
                        si["liveCalc"] = hx(lc) if lc else None
                info["steps"][kind] = si
            out[key] = info
            for d in pkg.getAllDepSteps():
                p = d.getPackage()
                walk(p, path + [p.getName()])

        try:
            walk(rootPkg, [rootPkg.getName()])
        finally:
            from bob.state import finalize
            finalize()
        print(json.dumps({"packages": out, "platform": hx(getPlatformTag())}))
        return 0

    sys.exit(helper_main())

# ---------------------------------------------------------------------- harness
import copy, glob, gzip, hashlib, io, re, shutil, subprocess, tarfile, random, traceback
from concurrent.futures import ThreadPoolExecutor
from vlib import coq, coqlit as L, proj, core
from props.ids_common import coq_tool, hexb
from props import c02

PROPERTY_FILES = ["C07/Properties.v"]
ROOT = "r0"
MODES = ["yes", "no", "deps", "forced", "forced-deps", "forced-fallback", "packages"]


def helper(path, root=ROOT, env=None):
    cmd = ["/venv/bin/python", os.path.abspath(__file__), "--helper", "snapshot", path, root]
    r = subprocess.run(cmd, env=proj.bob_env(env), stdout=subprocess.PIPE, stderr=subprocess.PIPE, timeout=1500, text=True)
    if r.returncode != 0:
        return {"error": (r.stderr or r.stdout)[-2000:]}
    try:
        return json.loads(r.stdout)
    except ValueError:
        return {"error": "bad helper output: " + r.stdout[-500:] + r.stderr[-500:]}


# ---------------------------------------------------------------------- real side: running and parsing
ERR_PATTERNS = [("Downloaded artifact misses its audit trail", 2), ("Corrupt downloaded artifact", 3),
                ("Downloading artifact failed", 4)]
PRUNE_REASONS = {"recipe changed": 0, "build-id changed": 1, "build forced": 2, "unshare": 3}
LINE_RE = re.compile(r"^\s+(QUERY|CHECKOUT|PRUNE|DOWNLOAD|PACKAGE|UPLOAD|BUILD|FNGRPRNT|UPDATE|SWITCH|INSTALL|SHARE)\s+(.*)$")


def parse_output(out):
    """Bob's output -> list of raw events (kind, path-or-name, flag) + summary counters"""
    evs = []
    lines = out.split("\n")
    pending_query = None
    for ln in lines:
        if "Restart build due to wrongly predicted sources" in ln:
            evs.append(("restart", None, None))
            continue
        if pending_query is not None and ln.strip() in ("ok", "unknown"):
            evs.append(("query", pending_query, ln.strip() == "ok"))
            pending_query = None
            continue
        m = LINE_RE.match(ln)
        if not m:
            continue
        kind, rest = m.group(1), m.group(2)
        if kind == "QUERY":
            name, _, resl = rest.partition(" .. ")
            resl = resl.strip()
            if resl.startswith("ok"):
                evs.append(("query", name.strip(), True))
            elif resl.startswith("unknown"):
                evs.append(("query", name.strip(), False))
            else:
                pending_query = name.strip()      # result printed after interleaved warnings
        elif kind == "CHECKOUT":
            mm = re.match(r"skipped \(fixed package (.*)\)", rest)
            if mm:
                evs.append(("checkout", mm.group(1), None))
            elif rest.startswith("WARNING") or rest.startswith("skipped"):
                evs.append(("checkout-other", rest, None))
            else:
                evs.append(("checkout", rest.split(" ")[0], None))
        elif kind == "PRUNE":
            mm = re.match(r"(\S+) \((.*)\)", rest)
            if mm:
                evs.append(("prune", mm.group(1), PRUNE_REASONS.get(mm.group(2), 9)))
        elif kind == "DOWNLOAD":
            path, _, resl = rest.partition(" .. ")
            evs.append(("download", path.split(" ")[0], resl.strip() == "ok"))
        elif kind == "PACKAGE":
            mm = re.match(r"skipped \(already downloaded in (.*)\)", rest)
            if mm:
                evs.append(("skipdl", mm.group(1), None)); continue
            mm = re.match(r"skipped \(unchanged input for (.*)\)", rest)
            if mm:
                evs.append(("skipsame", mm.group(1), None)); continue
            evs.append(("package", rest.split(" ")[0], None))
        elif kind == "BUILD":
            if not rest.startswith("skipped"):
                evs.append(("build", rest.split(" ")[0], None))
        elif kind == "UPLOAD":
            path, _, resl = rest.partition(" .. ")
            if rest.startswith("skipped"):
                evs.append(("upload-noaudit", rest, None))
            else:
                evs.append(("upload", path.split(" ")[0], resl.strip() == "ok"))
    summ = re.search(r"(\d+) checkouts? \(\d+ overrides? active\), (\d+) packages? built, (\d+) downloaded", out)
    counters = tuple(int(x) for x in summ.groups()) if summ else None
    err = None
    for pat, code in ERR_PATTERNS:
        if pat in out:
            err = code
    return evs, counters, err


def wipe_workspace(d):
    for p in glob.glob(os.path.join(d, "*")) + glob.glob(os.path.join(d, ".bob-*")):
        if os.path.isdir(p) and not os.path.islink(p):
            shutil.rmtree(p, ignore_errors=True)
        else:
            try:
                os.unlink(p)
            except OSError:
                pass


def repack(path, mode):
    """rewrite an artifact: mode 'corrupt' changes one content file, 'noaudit' drops the audit trail"""
    with tarfile.open(path, "r:gz") as t:
        pax = dict(t.pax_headers)
        members = []
        for m in t.getmembers():
            data = t.extractfile(m).read() if m.isfile() else None
            members.append((m, data))
    changed = False
    tmp = path + ".tmp"
    with gzip.open(tmp, "wb", 6) as gz:
        with tarfile.open(None, "w", fileobj=gz, format=tarfile.PAX_FORMAT, pax_headers=pax) as t:
            for m, data in members:
                if mode == "noaudit" and m.name == "meta/audit.json.gz":
                    changed = True
                    continue
                if mode == "corrupt" and not changed and m.isfile() and m.name.startswith("content/"):
                    data = data + b"corrupted\n"
                    m.size = len(data)
                    changed = True
                t.addfile(m, io.BytesIO(data) if data is not None else None)
            if mode == "corrupt" and not changed:        # an artifact without regular files: add one
                data = b"corrupted\n"
                m = tarfile.TarInfo("content/zz-corrupted.txt")
                m.size = len(data)
                m.mode = 0o644
                t.addfile(m, io.BytesIO(data))
                changed = True
    os.replace(tmp, path)
    return changed


def art_path(archive, bidhex, suffix=".tgz"):
    n = bidhex + "-1"
    return os.path.join(archive, n[0:2], n[2:4], n[4:] + suffix)


# ---------------------------------------------------------------------- trees and signatures
class Labels:
    def __init__(self):
        self.d = {}

    def get(self, kind, key):
        k = (kind, key)
        if k not in self.d:
            self.d[k] = len(self.d) + 1
        return self.d[k]


def step_core(desc, pk, kind, st, fphost):
    s = c02.sig(desc, pk, kind, st)
    tools = tuple(sorted((n, True if n in st["toolDepWeak"] else (t["path"], tuple(t["libs"])))
                         for n, t in st["tools"].items()))
    fp = (st.get("fpScript"), fphost) if st["fingerprinted"] else None
    nargs = len([a for a in st["args"] if a["valid"]])
    return (s[0], s[1], s[2], s[3], tools, nargs, fp)


def build_tree(snap, desc, wsabs, fphost, regex):
    """package tree of a snapshot: dict dist-path -> node, plus the root node and DFS order of first visits"""
    pkgs = snap["packages"]
    nodes = {}
    order = []

    def node(stack):
        pk = pkgs[stack]
        P, B, C = pk["steps"]["package"], pk["steps"]["build"], pk["steps"]["checkout"]
        dist = pk["ws"]["package"]["path"]
        if dist in nodes:
            return nodes[dist]
        n = {"id": dist, "stack": stack, "name": pk["name"], "vid": P["vid"], "reloc": pk["relocatable"],
             "match": bool(regex is not None and re.search(regex, pk["name"])),
             "has_src": False, "haslive": False, "live": None, "livecalc": None, "items": [],
             "srcpath": pk["ws"].get("checkout", {}).get("path"), "buildpath": pk["ws"].get("build", {}).get("path"),
             "fingerprinted": P["fingerprinted"] or (B["valid"] and B["fingerprinted"])}
        nodes[dist] = n
        order.append(n)
        items = []
        if B["valid"]:
            nargs = len(B["args"])
            tnames = list(B["tools"])
            for i, a in enumerate(B["allDeps"]):
                if not a["valid"]:
                    continue
                if a["label"] == "src":
                    n["has_src"] = True
                    n["haslive"] = bool(C.get("hasLive"))
                    n["live"] = C.get("live")
                    n["livecalc"] = C.get("liveCalc") or C.get("live")
                    n["srcvid"] = C.get("vid")
                    items.append(("src",))
                elif a["label"] == "dist":
                    isarg = i < nargs
                    weak = (not isarg) and tnames[i - nargs] in B["toolDepWeak"]
                    items.append(("dep", node(a["pkg"]), weak, 2, isarg))
        tnames = list(P["tools"])
        pargs = len(P["args"])
        for i, a in enumerate(P["allDeps"]):
            if not a["valid"] or a["label"] != "dist":
                continue
            weak = tnames[i - pargs] in P["toolDepWeak"] if i >= pargs else False
            items.append(("dep", node(a["pkg"]), weak, 1, False))
        n["items"] = items
        core = [step_core(desc, pk, "build", B, fphost) if B["valid"] else None,
                step_core(desc, pk, "package", P, fphost),
                None if pk["relocatable"] else os.path.join(wsabs, dist),
                snap.get("platform")]
        n["core"] = repr(core)
        fpl = None
        if P["fingerprinted"] or not pk["relocatable"]:
            fpl = repr((P.get("fpScript") if P["fingerprinted"] else None, fphost if P["fingerprinted"] else None,
                        None if pk["relocatable"] else os.path.join(wsabs, dist)))
        n["fp"] = fpl
        return n

    root = node(ROOT)
    return root, nodes, order


def cone(n, acc=None):
    acc = {} if acc is None else acc
    if n["id"] in acc:
        return acc
    acc[n["id"]] = n
    for it in n["items"]:
        if it[0] == "dep":
            cone(it[1], acc)
    return acc


def struct_sig(n, srcid_of, memo):
    """structural Build-Id signature: own core, source content, signatures of the strong children"""
    if n["id"] in memo:
        return memo[n["id"]]
    kids = tuple(struct_sig(it[1], srcid_of, memo) for it in n["items"] if it[0] == "dep" and not it[2])
    s = hashlib.sha1(repr((n["core"], srcid_of(n) if n["has_src"] else None, kids)).encode()).hexdigest()
    memo[n["id"]] = s
    return s


# ---------------------------------------------------------------------- histories
POLICIES = {"failUnstableCheckouts": False, "urlScmSeparateDownload": False}


def with_archive(desc, archive, flags):
    d = copy.deepcopy(desc)
    d["default"]["archive"] = {"backend": "file", "path": archive, "flags": list(flags)}
    d["config"] = dict(d["config"], policies=dict(POLICIES))
    return d


def no_archive(desc):
    d = copy.deepcopy(desc)
    d["default"].pop("archive", None)
    d["config"] = dict(d["config"], policies=dict(POLICIES))
    return d


def gen_states(rng, n_states):
    """a base project and a chain of single edits (c02.edit); some checkouts lose their live build-id"""
    feats = {"checkout": rng.random() < 0.8}
    if rng.random() < 0.4:
        feats["fingerprint"] = True
    base = proj.Gen(rng, n_recipes=rng.randint(3, 6), features=feats).project()
    for r in base["recipes"].values():
        if r.get("checkoutDeterministic") and rng.random() < 0.3:
            r["checkoutDeterministic"] = False
    states = [base]
    kinds = []
    tries = 0
    while len(states) < n_states and tries < 30:
        tries += 1
        e = c02.edit(states[-1] if rng.random() < 0.7 else states[0], rng)
        if e is None:
            continue
        states.append(e[0])
        kinds.append(e[1])
    return states, kinds


def gen_program(rng, n_states, n_eps):
    """the sequence of invocations and archive manipulations of one history: episodes of
    (uploader run, optional manipulation of the archive, optional wipe of the downloader, 3-4 downloader runs),
    then every download mode once more on the downloader's final workspace (cheap: mostly skip decisions)"""
    prog = []
    fph = {"A": "h1", "B": "h1" if rng.random() < 0.75 else "h2"}
    flags = {"A": ["download", "upload"], "B": ["download", "upload"]}
    if rng.random() < 0.12:
        flags["B"] = ["upload"]            # archive without the download flag
    last_a = 0
    for ep in range(n_eps):
        if ep == 0:
            prog.append({"op": "run", "ws": "A", "state": 0, "mode": rng.choice(["no", "yes"]), "upload": True, "force": False})
        else:
            last_a = rng.randrange(n_states)
            prog.append({"op": "run", "ws": "A", "state": last_a, "mode": rng.choice(["no", "yes", "deps"]),
                         "upload": rng.random() < 0.85, "force": rng.random() < 0.1})
        if rng.random() < 0.5:
            prog.append({"op": "tamper", "kind": rng.choice(["wronglive", "wronglive", "wronglive", "corrupt", "noaudit", "delete", "plant"])})
        if rng.random() < 0.55:
            prog.append({"op": "tamper", "kind": "wipeB"})
        for _ in range(rng.randint(3, 4)):
            st = last_a if rng.random() < 0.65 else rng.randrange(n_states)
            prog.append({"op": "run", "ws": "B", "state": st, "mode": rng.choice(MODES), "upload": rng.random() < 0.2,
                         "force": rng.random() < 0.08})
    sweep = list(MODES)
    rng.shuffle(sweep)
    st = rng.randrange(n_states)
    for m in sweep:
        prog.append({"op": "run", "ws": "B", "state": st, "mode": m, "upload": False, "force": False})
    return prog, fph, flags


class History:
    def __init__(self, hid, states, prog, fph, flags, kinds=None):
        self.hid = hid
        self.states = states
        self.prog = prog
        self.fph = fph
        self.flags = flags
        self.kinds = kinds or []
        self.records = []        # one per executed step
        self.refs = {}           # state index -> snapshot of the local reference build
        self.error = None

    def to_json(self, upto=None):
        prog = self.prog if upto is None else self.prog[:upto + 1]
        # steps that were not applied / were skipped do not belong to a minimised replay
        keep = []
        for i, st in enumerate(prog):
            rec = self.records[i] if i < len(self.records) else None
            if upto is not None and rec is not None and (rec.get("skipped") or (st["op"] == "tamper" and not rec.get("applied"))):
                continue
            keep.append(st)
        return {"states": self.states, "prog": keep, "fph": self.fph, "flags": self.flags}


def bob_args(step, regex):
    mode = step["mode"]
    a = ["dev", "--download=" + (("packages=" + regex) if mode == "packages" else mode)]
    if step["upload"]:
        a.append("--upload")
    if step["force"]:
        a.append("-f")
    return a + [ROOT]


def execute_history(h, rng):
    """run the program of a history on the implementation; fills h.records / h.refs"""
    base = core.scratch_dir("c07")
    try:
        arch = os.path.join(base, "archive")
        wsdir = {"A": os.path.join(base, "wsA"),
                 "B": os.path.join(base, "deep", "er path", "wsB")}
        for d in wsdir.values():
            os.makedirs(d)
        # local reference builds, one per state
        used = {st["state"] for st in h.prog if st["op"] == "run"} | {0}
        for i, desc in enumerate(h.states):
            if i not in used:
                continue
            rd = os.path.join(base, "ref%d" % i)
            os.makedirs(rd)
            proj.write_project(no_archive(desc), rd)
            rc, out = proj.run_bob(rd, ["dev", "--download=no", ROOT], env={"FPHOST": "h1"}, timeout=1500)
            if rc != 0:
                h.refs[i] = {"error": out[-600:]}
                continue
            h.refs[i] = helper(rd, env={"FPHOST": "h1"})
            h.refs[i]["dir"] = rd
        if "packages" not in h.refs.get(0, {}):
            h.error = "base project rejected: " + str(h.refs.get(0, {}).get("error", ""))[-300:]
            return
        last = {"A": None, "B": None}     # last successful record per workspace
        for si, step in enumerate(h.prog):
            rec = {"step": step, "skipped": False}
            h.records.append(rec)
            if step["op"] == "run":
                w = step["ws"]
                if "packages" not in h.refs.get(step["state"], {}):
                    rec["skipped"] = True
                    continue
                desc = h.states[step["state"]]
                names = sorted(desc["recipes"])
                regex = step.get("regex")
                if step["mode"] == "packages" and regex is None:
                    regex = "^(" + "|".join(rng.sample(names, rng.randint(1, max(1, len(names) // 2)))) + ")$"
                    step["regex"] = regex
                proj.write_project(with_archive(desc, arch, h.flags[w]), wsdir[w])
                env = {"FPHOST": h.fph[w]}
                rc, out = proj.run_bob(wsdir[w], bob_args(step, regex), env=env, timeout=1500)
                snap = helper(wsdir[w], env=env)
                rec.update({"rc": rc, "out": out, "snap": snap, "wsabs": wsdir[w], "fphost": h.fph[w],
                            "regex": regex if step["mode"] == "packages" else None,
                            "archive_files": sorted(os.path.relpath(p, arch) for p in glob.glob(os.path.join(arch, "*", "*", "*")))})
                if "packages" in snap:
                    last[w] = rec
            else:
                kind = step["kind"]
                rec["applied"] = False
                if kind == "wipeB":
                    wipe_workspace(wsdir["B"])
                    rec["applied"] = True
                    continue
                src = last["A"]
                if src is None:
                    continue
                ai = h.records.index(src)
                # only packages that the uploader's last run built or confirmed (the recorded Build-Id is
                # then the Build-Id of the node in that run's tree)
                confirmed = {e[1] for e in parse_output(src["out"])[0] if e[0] in ("package", "skipsame")}
                built = [(st, pk) for st, pk in sorted(src["snap"]["packages"].items())
                         if pk["ws"]["package"].get("kind") == 1 and pk["ws"]["package"].get("bid")
                         and pk["ws"]["package"]["path"] in confirmed and src["rc"] == 0
                         and os.path.exists(art_path(arch, pk["ws"]["package"]["bid"]))]
                if "target" in step and kind != "plant":          # replay
                    built = [b for b in built if b[0] == step["target"]]
                if kind == "wronglive":
                    cands = [(st, pk) for st, pk in sorted(src["snap"]["packages"].items())
                             if pk["steps"]["checkout"].get("live")
                             and os.path.exists(art_path(arch, pk["steps"]["checkout"]["live"], ".buildid"))]
                    if "target" in step:
                        cands = [c for c in cands if c[0] == step["target"]]
                    if not cands:
                        continue
                    st, pk = rng.choice(cands)
                    val = step.get("value") or hashlib.sha1(b"wrong%d" % rng.randrange(1000)).hexdigest()
                    with open(art_path(arch, pk["steps"]["checkout"]["live"], ".buildid"), "wb") as f:
                        f.write(bytes.fromhex(val))
                    step.update({"target": st, "value": val})
                    rec.update({"applied": True, "ref_record": ai, "target": st, "value": val})
                elif kind in ("corrupt", "noaudit", "delete"):
                    if not built:
                        continue
                    st, pk = rng.choice(built)
                    p = art_path(arch, pk["ws"]["package"]["bid"])
                    if kind == "delete":
                        os.unlink(p)
                    else:
                        repack(p, kind)
                    step["target"] = st
                    rec.update({"applied": True, "ref_record": ai, "target": st})
                elif kind == "plant":
                    cand = dict(built)
                    if "target" in step and "source" in step:
                        if step["target"] not in cand or step["source"] not in cand:
                            continue
                        s1, s2 = step["source"], step["target"]
                    else:
                        if len(built) < 2:
                            continue
                        (s1, _), (s2, _) = rng.sample(built, 2)
                    b1, b2 = cand[s1]["ws"]["package"]["bid"], cand[s2]["ws"]["package"]["bid"]
                    if b1 == b2:
                        continue
                    shutil.copyfile(art_path(arch, b1), art_path(arch, b2) + ".tmp")
                    os.replace(art_path(arch, b2) + ".tmp", art_path(arch, b2))
                    step.update({"source": s1, "target": s2})
                    rec.update({"applied": True, "ref_record": ai, "source": s1, "target": s2})
    except Exception:
        h.error = "harness exception: " + traceback.format_exc()[-1500:]
    finally:
        shutil.rmtree(base, ignore_errors=True)


# ---------------------------------------------------------------------- model side
EV_CODE = {"query": 1, "checkout": 2, "prune": 3, "download": 4, "skipdl": 5, "package": 6, "skipsame": 7, "upload": 8, "restart": 9}
EV_NAME = {v: k for k, v in EV_CODE.items()}
EV_ARITY = {1: 2, 2: 1, 3: 2, 4: 2, 5: 1, 6: 1, 7: 1, 8: 2, 9: 0}


def coq_mode(mode):
    return L.s(mode)


def portable(n):
    return all(m["reloc"] for m in cone(n).values())


class ModelHistory:
    """Coq terms of one history and the observations expected from the implementation"""

    def __init__(self, h):
        self.h = h
        self.lab = Labels()
        self.defs = []
        self.steps = []          # Coq hstep terms
        self.expected = []       # per HRun: dict
        self.trees = {}          # record index -> (root, nodes, order)
        self.problems = []       # harness-level problems (unparsable output ...)
        self.outside = None      # (reason, record index) when the model stops following the history
        self.shared = []         # record indices of invocations whose tree has package nodes sharing a checkout step
        self.build()

    def hexl(self, hx_):
        return "[%d]" % self.lab.get("hex", hx_) if hx_ else "(@nil N)"

    def node_name(self, k, n):
        return "h%d_k%d_n%d" % (self.h.hid, k, self.lab.get("id", n["id"]))

    def src_label(self, n):
        """r_src: identity of the node's checkout step = its workspace path (the builder keys __srcBuildIds and
        the was-run flag of checkout steps by it); a node without own checkout gets a label that nobody shares"""
        if n["has_src"] and n["srcpath"]:
            return self.lab.get("src", "checkout:" + n["srcpath"])
        return self.lab.get("src", "no-checkout:" + n["id"])

    def check_shared(self, k, order):
        """package nodes that share one checkout step must repeat the same attributes of it (Spec.src_consistent);
        returns the shared workspaces"""
        bypath = {}
        for n in order:
            if n["has_src"] and n["srcpath"]:
                bypath.setdefault(n["srcpath"], []).append(n)
        shared = {p_: v for p_, v in bypath.items() if len(v) > 1}
        for p_, v in sorted(shared.items()):
            attrs = {(n["haslive"], n["live"], n["livecalc"], n.get("srcid"), n.get("srcvid")) for n in v}
            if len(attrs) > 1:
                self.problems.append(("shared-checkout-attributes-differ", k,
                                      {"checkout": p_, "nodes": [n["stack"] for n in v], "attributes": sorted(map(repr, attrs))}))
        return shared

    def emit_tree(self, k, root, order, ref):
        done = set()

        def emit(n):
            if n["id"] in done:
                return
            done.add(n["id"])
            for it in n["items"]:
                if it[0] == "dep":
                    emit(it[1])
            refpk = ref["packages"].get(n["stack"], {})
            srcid = refpk.get("ws", {}).get("checkout", {}).get("result") if n["has_src"] else None
            n["srcid"] = srcid
            items = "INil"
            for it in reversed(n["items"]):
                if it[0] == "src":
                    items = "(ISrc %s)" % items
                else:
                    items = "(IDep %s %s %d %s)" % (self.node_name(k, it[1]), L.B(it[2]), it[3], items)
            mask = L.lst([L.B(it[4]) for it in n["items"] if it[0] == "dep"]) if any(it[0] == "dep" for it in n["items"]) else "(@nil bool)"
            rec = ("{| r_id := %d; r_src := %d; r_vid := %d; r_core := %d; r_match := %s; r_haslive := %s; r_live := %s; r_livecalc := %s; "
                   "r_srcid := %s; r_fp := %s; r_argmask := %s |}") % (
                self.lab.get("id", n["id"]), self.src_label(n), self.lab.get("vid", n["vid"]), self.lab.get("core", n["core"]), L.B(n["match"]),
                L.B(n["haslive"]),
                "(Some %s)" % self.hexl(n["live"]) if n["live"] else "None",
                "(Some %s)" % self.hexl(n["livecalc"]) if n["livecalc"] else "None",
                self.hexl(srcid) if srcid else "(@nil N)",
                "[%d]" % self.lab.get("fp", n["fp"]) if n["fp"] else "(@nil N)", mask)
            self.defs.append("Definition %s : pkg := Pkg %s %s." % (self.node_name(k, n), rec, items))

        emit(root)

    def build(self):
        h = self.h
        for k, rec in enumerate(h.records):
            step = rec["step"]
            if step["op"] == "tamper":
                if not rec.get("applied"):
                    continue
                kind = step["kind"]
                if kind == "wipeB":
                    self.steps.append("HTamper (TWipe true)")
                    continue
                rk = rec["ref_record"]
                root, nodes, order = self.trees[rk]
                bystack = {n["stack"]: n for n in order}
                # a stack path may denote a workspace first reached through another path
                snap = h.records[rk]["snap"]

                def nd(stack):
                    dist = snap["packages"][stack]["ws"]["package"]["path"]
                    return self.node_name(rk, nodes[dist])
                if kind == "wronglive":
                    self.steps.append("HTamper (TWrongLive %s %s)" % (nd(rec["target"]), self.hexl(rec["value"])))
                elif kind == "corrupt":
                    self.steps.append("HTamper (TCorrupt %s)" % nd(rec["target"]))
                elif kind == "noaudit":
                    self.steps.append("HTamper (TStripAudit %s)" % nd(rec["target"]))
                elif kind == "delete":
                    self.steps.append("HTamper (TDelete %s)" % nd(rec["target"]))
                elif kind == "plant":
                    self.steps.append("HTamper (TPlant %s %s)" % (nd(rec["source"]), nd(rec["target"])))
                continue
            if rec.get("skipped"):
                continue
            snap = rec["snap"]
            if "packages" not in snap:
                self.problems.append(("snapshot-failed", k, str(snap)[:500]))
                # the model cannot follow a history across an unobservable step
                break
            ref = h.refs[step["state"]]
            root, nodes, order = build_tree(snap, h.states[step["state"]], rec["wsabs"], rec["fphost"], rec["regex"])
            self.trees[k] = (root, nodes, order)
            self.emit_tree(k, root, order, ref)
            # the builder keys checkout state (__srcBuildIds, _wasAlreadyRun) by the checkout step's workspace, and so
            # does the model (r_src): package nodes sharing one checkout step (variants that differ only after
            # checkout) carry the same label
            if self.check_shared(k, order):
                self.shared.append(k)
            fl = h.flags[step["ws"]]
            cfg = "(cfgm %s %s %s %s %s)" % (coq_mode(step["mode"]), L.B("download" in fl), L.B("upload" in fl),
                                            L.B(step["upload"]), L.B(step["force"]))
            self.steps.append("HRun %s %s %s" % (L.B(step["ws"] == "B"), cfg, self.node_name(k, root)))
            self.expected.append(self.expect(k, rec, root, nodes, order, ref))

    def expect(self, k, rec, root, nodes, order, ref):
        evs, counters, err = parse_output(rec["out"])
        # checkout steps: by workspace (CHECKOUT lines) and by package name (QUERY lines); nodes that share
        # the step share the label
        bysrc = {}
        for n in order:
            if n["srcpath"] and (n["has_src"] or n["srcpath"] not in bysrc):
                bysrc[n["srcpath"]] = self.src_label(n)
        buildpaths = {n["buildpath"] for n in order if n["buildpath"]}
        byname = {}
        for n in order:
            if n["has_src"]:
                byname.setdefault(n["name"], set()).add(self.src_label(n))
        ambiguous = any(len(v) > 1 for v in byname.values())
        trace = []
        unknown = []
        for kind, key, flag in evs:
            if kind == "restart":
                trace.append([9]); continue
            if kind == "query":
                if ambiguous:
                    continue
                if key in byname:
                    trace.append([1, min(byname[key]), int(bool(flag))])
                else:
                    unknown.append((kind, key))
                continue
            if kind == "checkout":
                if key in bysrc:
                    trace.append([2, bysrc[key]])
                else:
                    unknown.append((kind, key))
                continue
            if kind == "build":
                continue                          # the build step is folded into its package node
            if kind in ("checkout-other", "upload-noaudit"):
                unknown.append((kind, key)); continue
            if key not in nodes:
                if kind == "prune" and key in buildpaths:
                    continue                      # the build step's own workspace
                unknown.append((kind, key)); continue
            i = self.lab.get("id", key)
            if kind in ("prune", "download", "upload"):
                trace.append([EV_CODE[kind], i, int(flag)])
            else:
                trace.append([EV_CODE[kind], i])
        if rec["rc"] == 0:
            outcome = 0
        elif err is not None:
            outcome = err
        else:
            outcome = -1
            self.problems.append(("unexpected-failure", k, rec["out"][-1500:]))
        if unknown:
            self.problems.append(("unparsed-events", k, unknown[:5]))
        arch_files = set(rec["archive_files"])
        pk = []
        for n in order:
            w = rec["snap"]["packages"][n["stack"]]["ws"]["package"]
            refpk = ref["packages"].get(n["stack"], {}).get("ws", {}).get("package", {})
            port = portable(n) and (rec["fphost"] == "h1" or not any(m["fingerprinted"] for m in cone(n).values()))
            refbid = refpk.get("bid") if port else None
            pk.append({"id": self.lab.get("id", n["id"]), "kind": w.get("kind", 0),
                       "bid_true": None if refbid is None else int(w.get("bid") == refbid),
                       "has_result": int(bool(w.get("result")) and w.get("result") != "timestamp"),
                       "local": int(bool(w.get("exists")) and w.get("hash") is not None and w.get("hash") == refpk.get("hash")),
                       "in_archive": None if refbid is None else int(art_path("", refbid) in arch_files),
                       "stack": n["stack"]})
        return {"k": k, "outcome": outcome, "trace": trace, "pkgs": pk, "counters": counters, "ambiguous_names": ambiguous,
                "raw_events": evs}

    def term(self):
        return "enc_history (run_history [%s] fresh_world)" % "; ".join(self.steps)


def decode_history(nums):
    it = iter(nums)
    out = []
    n = next(it)
    for _ in range(n):
        outcome = next(it)
        nt = next(it)
        trace = []
        for _ in range(nt):
            assert next(it) == 99
            code = next(it)
            trace.append([code] + [next(it) for _ in range(EV_ARITY[code])])
        npk = next(it)
        pk = []
        for _ in range(npk):
            pk.append({"id": next(it), "kind": next(it), "bid_true": next(it), "has_result": next(it),
                       "local": next(it), "in_archive": next(it)})
        out.append({"outcome": outcome, "trace": trace, "pkgs": pk})
    return out


def show_trace(tr, names):
    return ["%s(%s)" % (EV_NAME.get(e[0], e[0]), ",".join([names.get(e[1], str(e[1]))] + [str(x) for x in e[2:]]) if len(e) > 1 else "")
            for e in tr]


def compare(mh, model_obs):
    """-> list of (record index, what, detail) where model and implementation disagree"""
    diffs = []
    names = {v: k[1] for k, v in mh.lab.d.items() if k[0] in ("id", "src")}
    if len(model_obs) != len(mh.expected):
        return [(None, "number-of-invocations", "%d vs %d" % (len(model_obs), len(mh.expected)))]
    for mo, ex in zip(model_obs, mh.expected):
        k = ex["k"]
        if ex["outcome"] != mo["outcome"]:
            diffs.append((k, "outcome", {"impl": ex["outcome"], "model": mo["outcome"]}))
        mtrace = [e for e in mo["trace"] if not (ex["ambiguous_names"] and e[0] == 1)]
        if mtrace != ex["trace"]:
            diffs.append((k, "trace", {"impl": show_trace(ex["trace"], names), "model": show_trace(mtrace, names)}))
        if ex["outcome"] != 0 or mo["outcome"] != 0:
            # state after an error is compared for the decisive fields only
            fields = ("kind", "has_result")
        else:
            fields = ("kind", "bid_true", "has_result", "local", "in_archive")
        touched = {e[1] for e in ex["trace"] if e[0] in (4, 5, 6, 7) and (e[0] != 4 or e[2] == 1)}
        for a, b in zip(ex["pkgs"], mo["pkgs"]):
            for f in ("id",) + fields:
                if f == "local" and a["id"] not in touched:
                    # a workspace left over from another project state: the model's contents are free
                    # terms over variant ids and say nothing about accidental equality of trees
                    continue
                if a[f] is not None and a[f] != b[f]:
                    diffs.append((k, "state:" + f, {"package": a["stack"], "impl": a[f], "model": b[f]}))
        if len(ex["pkgs"]) != len(mo["pkgs"]):
            diffs.append((k, "state:number-of-packages", {"impl": len(ex["pkgs"]), "model": len(mo["pkgs"])}))
        if diffs:
            break       # later steps depend on this one
    return diffs


# ---------------------------------------------------------------------- oracles on the implementation
def oracle_history(ctx, h, mh):
    """property statement evaluated on the implementation alone"""
    dishonest = False          # a well-formed artifact was stored under a foreign Build-Id
    wronglive = False
    sig2bid, bid2sig = {}, {}
    arch_before = set()
    for k, rec in enumerate(h.records):
        step = rec["step"]
        if step["op"] == "tamper":
            if rec.get("applied") and step["kind"] == "plant":
                dishonest = True
            if rec.get("applied") and step["kind"] == "wronglive":
                wronglive = True
            continue
        if rec.get("skipped") or k not in mh.trees:
            continue
        ex = next(e for e in mh.expected if e["k"] == k)
        root, nodes, order = mh.trees[k]
        ref = h.refs[step["state"]]
        evs = ex["raw_events"]
        arch_now, arch_before = arch_before, set(rec["archive_files"])
        ctx.count("mode:" + step["mode"])
        ctx.count("workspace:" + step["ws"])
        for kind, _, flag in evs:
            if kind == "prune":
                ctx.count("decision:prune:" + {0: "recipe-changed", 1: "build-id-changed", 2: "forced", 3: "unshare"}.get(flag, "?"))
            else:
                ctx.count("decision:" + kind + ("" if flag is None else (":ok" if flag else ":no")))
        ctx.count("outcome:%s" % {0: "ok", 2: "error-no-audit", 3: "error-corrupt", 4: "error-download-failed", -1: "error-other"}[ex["outcome"]])
        replay = {"history": h.to_json(upto=k), "step": k}      # later steps cannot matter
        # counters
        if ex["counters"] is not None:
            nb = sum(1 for e in evs if e[0] == "package")
            nd = sum(1 for e in evs if e[0] == "download" and e[2])
            if (ex["counters"][1], ex["counters"][2]) != (nb, nd):
                ctx.violation("summary-counters-differ-from-decisions",
                              "summary says %d built / %d downloaded, decisions printed: %d / %d" % (ex["counters"][1], ex["counters"][2], nb, nd), replay)
        if rec["rc"] != 0:
            continue
        # dist == local clean build for everything this invocation produced or accepted
        if not dishonest:
            touched = {e[1] for e in evs if e[0] in ("download", "skipdl", "package", "skipsame") and e[2] is not False}
            touched.add(root["id"])
            for n in order:
                if n["id"] not in touched:
                    continue
                w = rec["snap"]["packages"][n["stack"]]["ws"]["package"]
                want = ref["packages"].get(n["stack"], {}).get("ws", {}).get("package", {}).get("hash")
                if want is None:
                    continue
                if w.get("hash") != want:
                    how = [e[0] for e in evs if e[1] == n["id"]]
                    ctx.violation("dist-differs-from-local-build:" + "+".join(sorted(set(how))) + (":after-restart" if any(e[0] == "restart" for e in evs) else ""),
                                  "package %s (%s) in workspace %s, mode %s: dist tree %s, local clean build %s" % (
                                      n["stack"], ",".join(how), step["ws"], step["mode"], w.get("hash"), want), replay)
        # identical state already in the archive => nothing is built -- also when wrong live-build-id
        # translations force restarts on the way
        rootref = ref["packages"][ROOT]["ws"]["package"].get("bid")
        clean_hist = not any(r["step"]["op"] == "tamper" and r.get("applied") and r["step"]["kind"] not in ("wipeB", "wronglive")
                             for r in h.records[:k])
        if step["mode"] in ("yes", "forced", "forced-fallback") and "download" in h.flags[step["ws"]] and not step["force"] \
                and portable(root) and (rec["fphost"] == "h1" or not any(m["fingerprinted"] for m in cone(root).values())) \
                and rootref and art_path("", rootref) in arch_now and clean_hist \
                and not any(it[0] == "dep" and it[2] for m in cone(root).values() for it in m["items"]):
            # (weakly used tools are excluded: their provider may have to be built although the user's
            #  Build-Id, which ignores it, is in the archive)
            ctx.count("oracle:identical-state-in-archive")
            restarted = any(e[0] == "restart" for e in evs)
            if restarted:
                ctx.count("oracle:identical-state-in-archive:with-restart")
            if ex["counters"] and ex["counters"][1] != 0:
                ctx.violation("restart-does-not-retry-downloads" if restarted else "identical-state-in-archive-but-packages-built",
                              "the archive holds the artifact of the identical project state, yet %d packages were built%s" % (
                                  ex["counters"][1], " after a restart due to wrongly predicted sources" if restarted else ""), replay)
        # equal Build-Id <=> equal id-relevant inputs
        if not wronglive:
            memo = {}
            srcid_of = lambda n: n.get("srcid")
            cooked = {e[1] for e in evs if e[0] in ("download", "package", "skipsame", "skipdl") and e[2] is not False}
            for n in order:
                w = rec["snap"]["packages"][n["stack"]]["ws"]["package"]
                if n["id"] not in cooked or not w.get("bid") or w.get("kind") not in (1, 2):
                    continue
                s = struct_sig(n, srcid_of, memo)
                b = w["bid"]
                where = "%s@%s/state%d" % (n["stack"], step["ws"], step["state"])
                if s in sig2bid and sig2bid[s][0] != b:
                    ctx.violation("same-inputs-different-build-id",
                                  "%s and %s have the same scripts, variables, tools, sources and fingerprint but Build-Ids %s / %s" % (
                                      where, sig2bid[s][1], b[:10] + ".." + b[-10:], sig2bid[s][0][:10] + ".." + sig2bid[s][0][-10:]), replay)
                if b in bid2sig and bid2sig[b][0] != s:
                    o = bid2sig[b]
                    diff = [i for i, (x, y) in enumerate(zip(eval(n["core"]), eval(o[2]))) if x != y]
                    what = ",".join(["build-step", "package-step", "exec-path", "platform"][i] for i in diff) or "sources-or-dependencies"
                    ctx.violation("different-inputs-same-build-id:" + what,
                                  "%s and %s share Build-Id %s but differ in %s" % (where, o[1], b[:16], what), replay)
                sig2bid.setdefault(s, (b, where))
                bid2sig.setdefault(b, (s, where, n["core"]))


def ids_cases(h):
    """real Build-Ids of locally built steps, to be recomputed by Ids/Model.v build_id"""
    cases = []
    snaps = []
    for k, r in enumerate(h.records):
        if r["step"]["op"] == "run" and not r.get("skipped") and "packages" in r.get("snap", {}) and r.get("rc") == 0:
            evs = parse_output(r["out"])[0]
            if any(e[0] == "restart" for e in evs):
                continue
            snaps.append((r["snap"], "run%d" % k, {e[1] for e in evs if e[0] in ("build", "package")}))
    snaps += [(s, "ref%d" % i, None) for i, s in h.refs.items() if "packages" in s]
    seen = set()
    for snap, tag, executed in snaps:
        pk = snap["packages"]

        def pbid(stack):
            w = pk[stack]["ws"]["package"]
            return w.get("bid") if w.get("kind") in (1, 2) else None
        for stack, p in pk.items():
            w = p["ws"].get("package", {})
            if w.get("kind") != 1 or not w.get("audit") or w["audit"].get("bid") != w.get("bid"):
                continue
            B, P = p["steps"]["build"], p["steps"]["package"]
            bw = p["ws"].get("build", {})
            for kind, st, sw in (("build", B, bw), ("package", P, w)):
                if not st["valid"] or not sw.get("audit") or "bid" not in sw["audit"]:
                    continue
                if executed is not None and sw.get("path") not in executed:
                    continue          # audit trail and inputs may stem from an earlier project state
                bid = sw["audit"]["bid"]
                args = []
                for a in st["args"]:
                    if not a["valid"]:
                        continue
                    if a["label"] == "src":
                        args.append(p["ws"]["checkout"].get("result"))
                    elif a["label"] == "build":
                        args.append(bw.get("audit", {}).get("bid") if bw.get("audit") else None)
                    else:
                        args.append(pbid(a["pkg"]))
                tools = {n: pbid(t["pkg"]) for n, t in st["tools"].items()}
                ins = sw.get("inputs") or []
                tracked = st["fingerprinted"] or (kind == "package" and not p["relocatable"])
                fp = ins[-1] if (tracked and ins) else ""
                if None in args or None in tools.values() or fp is None or "timestamp" in args:
                    continue
                key = (bid, tuple(args), fp)
                if key in seen:
                    continue
                seen.add(key)
                weak = set(st["toolDepWeak"])
                tl = L.lst([L.pair(L.s(n), L.pair(coq_tool(t, tools[n]), L.B(n in weak))) for n, t in st["tools"].items()])
                env = L.lst([L.pair(L.s(k_), L.s(v)) for k_, v in st["digestEnv"].items()])
                term = ("{| bi_sandbox := None; bi_script := %s; bi_tools := (%s : list (str * (tool * bool))); "
                        "bi_env := (%s : list (str * str)); bi_args := (%s : list bytes); bi_platform := %s; bi_fingerprint := %s |}") % (
                    L.s(st["digestScript"] or ""), tl, env, L.lst([hexb(a) for a in args]), hexb(snap.get("platform", "")), hexb(fp))
                cases.append((term, hexb(bid), {"history": h.hid, "where": tag, "step": stack + ":" + kind, "bid": bid}))
    return cases


# ---------------------------------------------------------------------- unit ties: dissect, download-mode table
def pyval_term(v):
    if v is None:
        return "PvNone"
    if isinstance(v, list):
        return "(PvList %s)" % (L.lst([L.by(x) for x in v]) if v else "(@nil bytes)")
    if isinstance(v, bytes):
        return "(PvBytes %s)" % L.by(v)
    return "(PvTuple %s %s)" % (L.by(v[0]), L.s(v[1]))


def dissect_cases(ctx, rng, n):
    from bob.builder import dissectPackageInputState, packageInputBuilt, packageInputDownloaded, packageInputShared
    cases = []
    rb = lambda: bytes(rng.randrange(256) for _ in range(rng.choice([0, 1, 20, 40])))
    for i in range(n):
        x = rng.random()
        if x < 0.1:
            v = None
        elif x < 0.2:
            v = []
        elif x < 0.5:
            v = packageInputBuilt(rb(), [rb() for _ in range(rng.randint(0, 3))])
        elif x < 0.75:
            v = packageInputDownloaded(rb())
        else:
            v = packageInputShared(rb(), rng.choice(["", "/share/ab/cd", "é"]))
        dn, sh, oin, obid = dissectPackageInputState(copy.deepcopy(v))
        di = "DiNone" if oin is None else ("(DiList %s)" % (L.lst([L.by(z) for z in oin]) if oin else "(@nil bytes)") if isinstance(oin, list)
                                           else "(DiStr %s)" % L.s(oin))
        db = "DbNone" if obid is None else ("(DbBytes %s)" % L.by(obid) if isinstance(obid, bytes) else "DbEmptyList")
        exp = "{| d_down := %s; d_shared := %s; d_input := %s; d_bid := %s |}" % (L.B(dn), L.B(sh), di, db)
        cases.append((pyval_term(v), exp))
        ctx.evaluated()
        ctx.count("dissect:" + ("none" if v is None else type(v).__name__))
        ctx.nontrivial(("dissect", repr(v)))
    pre = """
Definition dinput_eqb a b := match a, b with DiNone, DiNone => true | DiList x, DiList y => eqb_list beqb x y | DiStr x, DiStr y => beqb x y | _, _ => false end.
Definition dbid_eqb a b := match a, b with DbNone, DbNone => true | DbBytes x, DbBytes y => beqb x y | DbEmptyList, DbEmptyList => true | _, _ => false end.
Definition dissected_eqb a b := Bool.eqb (d_down a) (d_down b) && Bool.eqb (d_shared a) (d_shared b) && dinput_eqb (d_input a) (d_input b) && dbid_eqb (d_bid a) (d_bid b).
"""
    bad, log = coq.run_cases(ctx, ["BobV.C07.Model"], "dissect", "dissected_eqb", cases, preamble=pre, tag="dissect")
    if bad is None:
        ctx.tie_broken("C07 model evaluation failed (dissect)", log)
    else:
        ctx.validated(len(cases) - len(bad))
        for i in bad[:5]:
            ctx.tie_broken("dissectPackageInputState-correspondence", {"input": cases[i][0], "impl": cases[i][1]})


def mode_table_cases(ctx):
    """LocalBuilder.setLocalDownloadMode on an archive stub vs. cfg_of_mode (table regenerated from the source)"""
    from bob.builder import LocalBuilder

    class Arch:
        def __init__(self, flag):
            self.flag, self.want = flag, False

        def wantDownloadLocal(self, e):
            self.want = e

        def canDownload(self):
            return self.flag and self.want
    cases = []
    for mode in ["yes", "no", "deps", "forced", "forced-deps", "forced-fallback", "packages=^x$"]:
        for flag in (False, True):
            b = LocalBuilder(0, False, False, False, False, [], "/nonexistent", False, True)
            a = Arch(flag)
            b.setArchiveHandler(a)
            b.setLocalDownloadMode(mode)
            got = (b._LocalBuilder__downloadDepth, b._LocalBuilder__downloadDepthForce, b._LocalBuilder__downloadPackages is not None)
            exp = "(Some (%d, %d, %s))" % (got[0], got[1], L.B(got[2]))
            cases.append(("(%s, %s)" % (L.s(mode.split("=")[0]), L.B(flag)), exp))
            ctx.evaluated()
            ctx.nontrivial(("mode", mode, flag))
    pre = """
Definition mode_fn (x : list N * bool) := match cfg_of_mode (fst x) (snd x) false false false with
  | Some c => Some (c_depth c, c_force_depth c, c_packages c) | None => None end.
Definition mode_eqb := eqb_option (fun a b : N * N * bool => N.eqb (fst (fst a)) (fst (fst b)) && N.eqb (snd (fst a)) (snd (fst b)) && Bool.eqb (snd a) (snd b)).
"""
    bad, log = coq.run_cases(ctx, ["BobV.C07.Model"], "mode_fn", "mode_eqb", cases, preamble=pre, tag="modes")
    if bad is None:
        ctx.tie_broken("C07 model evaluation failed (download modes)", log)
    else:
        ctx.validated(len(cases) - len(bad))
        for i in bad[:5]:
            ctx.tie_broken("download-mode-table-correspondence", {"input": cases[i][0], "impl": cases[i][1]})


# ---------------------------------------------------------------------- driver
def eval_histories(ctx, mhs):
    """evaluate the model on every history (sharded); returns list of decoded observations or None"""
    res = [None] * len(mhs)
    shards = [list(range(i, min(i + 6, len(mhs)))) for i in range(0, len(mhs), 6)]

    def one(ix):
        pre = "\n".join(d for i in ix for d in mhs[i].defs)
        vals, log = coq.eval_terms(_ShardCtx(ctx, ix[0]), ["BobV.C07.Model"], [mhs[i].term() for i in ix], preamble=pre, timeout=600)
        return ix, vals, log
    with ThreadPoolExecutor(max_workers=4) as ex:
        for ix, vals, log in ex.map(one, shards):
            if vals is None:
                ctx.tie_broken("C07 model evaluation failed (histories)", log[-2000:])
                continue
            for i, v in zip(ix, vals):
                try:
                    nums = [int(x.replace("%N", "").strip()) for x in v.strip().strip("[]").split(";") if x.strip()]
                    res[i] = decode_history(nums)
                except Exception as e:
                    ctx.tie_broken("C07 model output not decodable", {"history": mhs[i].h.hid, "value": v[:300], "error": repr(e)})
    return res


class _ShardCtx:
    """eval_terms names its scratch file after ctx.prop; give every shard its own"""
    def __init__(self, ctx, k):
        self.prop = "%s_h%d" % (ctx.prop, k)


def make_history(hid, seed, n_states, n_eps):
    rng = random.Random(seed)
    states, kinds = gen_states(rng, n_states)
    prog, fph, flags = gen_program(rng, len(states), n_eps)
    h = History(hid, states, prog, fph, flags, kinds)
    h.seed = seed
    return h


def load_corpus():
    out = []
    for f in sorted(glob.glob(os.path.join(core.VERIF, "corpus", "C07", "*.json"))):
        c = json.load(open(f))
        out.append((os.path.basename(f), c))
    return out


def directed_histories():
    """hand-written histories that every run executes (like the corpus, but built from code).

    shared-checkout-two-wrong-predictions: `lib` is consumed twice below the root, without and with the
    variable OPTV that only its build step reads: two package nodes (dist/lib/1, dist/lib/2), ONE checkout
    step (src/lib/1).  The uploader publishes everything; then the live-build-id translations of the root's
    and of lib's sources are both replaced by wrong ids.  The downloader (fresh workspace, --download=yes)
    predicts both wrongly and finds that out in two separate restarts of one invocation (the second one when
    the first of the two nodes that share lib's checkout is cooked); after that every Build-Id is right again
    and the root package is downloaded, nothing is built."""
    def cp(script):
        return 'cp -a "$1"/. . 2>/dev/null || true\n' + script

    def recipe(nm, bvars, checkout, deps=None, root=False):
        r = {"buildVars": list(bvars), "buildScript": proj.script_for(nm + "b", "build", bvars),
             "packageVars": [], "packageScript": proj.script_for(nm + "p", "package", []) + 'cp -a "$1"/. . 2>/dev/null || true\n'}
        if checkout:
            r["checkoutSCM"] = {"scm": "import", "url": "src/" + nm}
            r["_sources"] = {"file.txt": "content of %s\n" % nm, "sub/other.txt": "other\n"}
            r["buildScript"] = cp(r["buildScript"])
        if deps:
            r["depends"] = deps
        if root:
            r["root"] = True
        return r
    desc = {"recipes": {ROOT: recipe(ROOT, [], True, ["lib", "mid"], root=True),
                        "mid": recipe("mid", [], False, [{"name": "lib", "environment": {"OPTV": "fast"}}]),
                        "lib": recipe("lib", ["OPTV"], True)},
            "classes": {}, "config": {"bobMinimumVersion": "0.25"},
            "default": {"environment": {"GLOBAL1": "1"}, "whitelist": ["FPHOST"]}}
    run = lambda ws, mode, upload=False: {"op": "run", "ws": ws, "state": 0, "mode": mode, "upload": upload, "force": False}
    prog = [run("A", "no", True),
            {"op": "tamper", "kind": "wronglive", "target": ROOT, "value": "11" * 20},
            {"op": "tamper", "kind": "wronglive", "target": ROOT + "/lib", "value": "22" * 20},
            run("B", "yes"), run("B", "yes"),
            {"op": "tamper", "kind": "wipeB"},
            run("B", "deps"), run("B", "forced")]
    # corrupt-artifact-retry: the artifact of lib is replaced by one whose content does not match its audit
    # trail; the download is rejected, and so it must be when the very same build is simply repeated
    prog2 = [run("A", "no", True),
             {"op": "tamper", "kind": "corrupt", "target": ROOT + "/lib"},
             run("B", "deps"), run("B", "deps"), run("B", "yes"), run("B", "forced-fallback")]
    return [("shared-checkout-two-wrong-predictions",
             {"states": [desc], "prog": prog, "fph": {"A": "h1", "B": "h1"},
              "flags": {"A": ["download", "upload"], "B": ["download", "upload"]}}),
            ("corrupt-artifact-retry",
             {"states": [copy.deepcopy(desc)], "prog": prog2, "fph": {"A": "h1", "B": "h1"},
              "flags": {"A": ["download", "upload"], "B": ["download", "upload"]}})]


def history_from_json(hid, c):
    return History(hid, c["states"], copy.deepcopy(c["prog"]), c["fph"], c["flags"])


def process(ctx, hs):
    """execute on the implementation, evaluate the model, compare, run the oracles"""
    with ThreadPoolExecutor(max_workers=int(os.environ.get("C07_JOBS", "12"))) as ex:
        list(ex.map(lambda h: execute_history(h, random.Random(getattr(h, "seed", 0) + 7)), hs))
    good = []
    for h in hs:
        if h.error:
            if h.error.startswith("base project rejected"):
                ctx.count("projects_rejected")
            else:
                ctx.tie_broken("harness-exception", h.error)
            continue
        good.append(h)
    mhs = []
    for h in good:
        try:
            mhs.append(ModelHistory(h))
        except Exception:
            ctx.tie_broken("harness-exception", traceback.format_exc()[-2000:])
    obs = eval_histories(ctx, mhs)
    idc = []
    for mh, ob in zip(mhs, obs):
        h = mh.h
        nruns = len(mh.expected)
        nb = sum(1 for e in mh.expected if h.records[e["k"]]["step"]["ws"] == "B")
        ctx.evaluated(nruns)
        ctx.count("histories")
        ctx.count("invocations:A", nruns - nb)
        ctx.count("download-experiments(B)", nb)
        for e in mh.expected:
            st = h.records[e["k"]]["step"]
            ctx.nontrivial((h.hid, getattr(h, "seed", None), e["k"], st["ws"], st["state"], st["mode"], tuple(map(tuple, e["trace"]))))
        for r in h.records:
            if r["step"]["op"] == "tamper" and r.get("applied"):
                ctx.count("tamper:" + r["step"]["kind"])
        if mh.outside:
            ctx.count("histories-followed-partly:" + mh.outside[0])
        if mh.shared:
            ctx.count("histories-with-shared-checkout")
            ctx.count("invocations-with-shared-checkout", len(mh.shared))
        for p in mh.problems:
            ctx.tie_broken("c07-" + p[0], {"history": h.to_json(), "step": p[1], "detail": p[2]})
        try:
            oracle_history(ctx, h, mh)
        except Exception:
            ctx.tie_broken("harness-exception", traceback.format_exc()[-2000:])
        if ob is not None:
            diffs = compare(mh, ob)
            if diffs:
                k = diffs[0][0]
                ctx.tie_broken("download-decision-correspondence:" + diffs[0][1],
                               {"differences": diffs[:4], "step": k,
                                "invocation": h.records[k]["step"] if k is not None else None,
                                "output": h.records[k]["out"][-1500:] if k is not None else None,
                                "history": h.to_json()})
            else:
                ctx.validated(nruns)
                if mh.shared:
                    ctx.count("histories-with-shared-checkout:validated")
                    ctx.count("invocations-with-shared-checkout:validated", len(mh.shared))
        if len(ctx.cov["samples"]) < 5 and mh.expected:
            e = mh.expected[-1]
            names = {v: k_[1] for k_, v in mh.lab.d.items() if k_[0] in ("id", "src")}
            ctx.sample({"invocation": h.records[e["k"]]["step"], "decisions": show_trace(e["trace"], names), "counters": e["counters"]})
        idc.extend(ids_cases(h))
    # Build-Ids of real runs recomputed by the Ids model
    if idc:
        for c in idc:
            ctx.evaluated()
            ctx.count("build-id-recomputed")
        bad, log = coq.run_cases(ctx, ["BobV.Common.Sha1", "BobV.Ids.Model"], "(build_id sha1)", "(eqb_list N.eqb)",
                                 [(a, b) for a, b, _ in idc], shard=120, tag="c07bid")
        if bad is None:
            ctx.tie_broken("Ids build-id model evaluation failed", log)
        else:
            ctx.validated(len(idc) - len(bad))
            for i in bad[:5]:
                ctx.tie_broken("build-id-correspondence", idc[i][2])
    return mhs, obs


def run(ctx):
    ctx.rule = ("random histories (c02.edit chains over generated projects) on two workspaces at different absolute paths sharing "
                "one file archive: uploads, all download modes, -f, archives without download flag, different FPHOST "
                "fingerprints, manipulated archives (wrong live-build-id mapping, corrupt artifact, stripped audit trail, "
                "deleted and foreign artifacts), wiped workspaces; a case is one bob invocation; distinct by (history, step, "
                "workspace, state, mode, decision trace); the corpus and one directed history (two package nodes sharing one "
                "checkout step, two wrong live-build-id predictions found in two restarts of one invocation) run first")
    ctx.assumptions += [
        "scripts are deterministic functions of their declared inputs (generated scripts are, by construction)",
        "directory hashes identify tree contents (C11); the model uses contents where Bob stores result hashes",
        "the build step is folded into its package node: its own skip/re-run decisions are C01's, not compared here",
        "a checkout step is identified by its workspace path (r_src); package nodes that share it repeat its attributes "
        "(hypothesis src_consistent; checked by the harness on every tree: differing attributes are reported as a harness problem)",
        "honest archive = every well-formed artifact stored under a Build-Id was produced by a Bob build of a package with that "
        "Build-Id; a well-formed forged artifact under the right id is undetectable by construction (exercised, model-only)",
        "equal Build-Id => equal result is the hypothesis ids_sound of the theorems; its encoding half is proved in "
        "C07/IdProofs.v up to SHA-1 collisions, weakly used tools and the position of host fingerprints",
        "-j1, no sandbox, no shared packages, audit trail enabled, develop mode; policies failUnstableCheckouts=false",
    ]
    ctx.note("proved (Coq, unbounded): decision logic of downloads incl. restarts and the builder-side audit/hash check, "
             "Build-Id encoding injectivity up to collisions; exercised only by the correspondence: YAML/recipe semantics, "
             "the real archive transport, scripts, the build step's own incremental decisions")
    ctx.note("mutation self-test (selftest.py, corpus histories): fingerprint dropped from Build-Id -> CAUGHT "
             "(different-inputs-same-build-id); hash verification of downloads removed -> CAUGHT (dist-differs-from-local-build:"
             "download); prune on changed build-id removed -> CAUGHT (identical-state-in-archive-but-packages-built); download "
             "although a result hash is stored -> CAUGHT (correspondence: trace); 'yes' mode depth 0->1 -> CAUGHT (identical-"
             "state-in-archive-but-packages-built); execution path mixed into every package Build-Id -> CAUGHT (same-inputs-"
             "different-build-id); revert of 7f8b9ef (_clearDownloadTried) -> CAUGHT (restart-does-not-retry-downloads); "
             "platform tag dropped: equivalent on Linux (tag is empty)")
    ctx.trusted_base += ["harness/props/consts_c07.py: symbolic evaluator of LocalBuilder.__setDownloadMode (fail-closed)",
                         "the output parser of harness/props/c07.py (decision lines of bob dev)"]
    if ctx.replay:
        c = json.load(open(ctx.replay))
        case = c.get("case", c)
        if "broken" in c:               # replay file of a broken correspondence
            case = next(b["detail"] for b in c["broken"] if isinstance(b.get("detail"), dict) and "history" in b["detail"])
        hj = case.get("history", case)
        h = history_from_json(0, hj)
        process(ctx, [h])
        return
    rng = ctx.rng
    dissect_cases(ctx, rng, ctx.n(150, 2000))
    mode_table_cases(ctx)
    hs = []
    for name, c in load_corpus():
        hs.append(history_from_json(len(hs), c))
        ctx.count("corpus")
    for name, c in directed_histories():
        hs.append(history_from_json(len(hs), c))
        ctx.count("directed:" + name)
    n_hist = ctx.n(6, 200)           # about 30 % of the generated projects are rejected by the parser (cheaply)
    if os.environ.get("C07_HISTORIES") is not None:      # development aid: C07_HISTORIES=0 runs the corpus only
        n_hist = int(os.environ["C07_HISTORIES"])
    for i in range(n_hist):
        hs.append(make_history(len(hs), rng.randrange(1 << 30), ctx.n(2, 4), ctx.n(2, 5)))
    process(ctx, hs)


if __name__ == "__main__":
    # development aid: python c07.py <seed> [n_steps]  -> run one history and print the comparison
    seed = int(sys.argv[1])
    ctx = core.Ctx("C07", "quick", 1)
    h = make_history(0, seed, 3, int(sys.argv[2]) if len(sys.argv) > 2 else 8)
    mhs, obs = process(ctx, [h])
    for k, r in enumerate(h.records):
        print("----", k, r["step"])
        if "out" in r:
            print("\n".join(l for l in r["out"].split("\n") if LINE_RE.match(l) or "Restart" in l or "rror" in l or "Duration" in l))
    print(h.error)
    for mh, ob in zip(mhs, obs):
        names = {v: k_[1] for k_, v in mh.lab.d.items() if k_[0] in ("id", "src")}
        if ob:
            for e, o in zip(mh.expected, ob):
                print(e["k"], "impl ", e["outcome"], show_trace(e["trace"], names))
                print(e["k"], "model", o["outcome"], show_trace(o["trace"], names))
    print(json.dumps(ctx.ties_broken, indent=1, default=repr)[:6000])
    print(json.dumps(ctx.violations, indent=1, default=repr)[:3000])
    print(ctx.hist)
