"""C13 — steps run in exactly the declared environment.

Layers compared on every run (model = coq/C13/Model.v, evaluated with vm_compute):
  A  quote            vs shlex.quote as imported by bob.languages
     bash_word        vs REAL bash (eval "export V=<word>") on every quoted string the
                      run produces and on a raw fuzz stream
  B  step.spec level  hostile specs executed by the real Invoker (bob.invoker/bob.languages in
                      a worker sub-process, and `bob _invoke` CLI): prolog text, interpreter
                      environment, argument vector, sandbox helper command line vs
                      prolog_exports / proc_env / script_env / call_args / sandbox_argv;
                      what the script dumped (env -0, "$@") vs the model prediction
  C  recipe level     generated projects built with `bob dev` (declared/undeclared/weak
                      variables over checkout/build/package and fingerprint scripts, classes,
                      whitelist/whitelistRemove/-e/-E, tools): every step.spec and every dump
                      vs step_env/prune, dep_mounts and an independent oracle
  D  sandboxes        --sandbox/--slim-sandbox/--dev-sandbox/--strict-sandbox run for real;
                      scripts record /proc/self/mountinfo, list the project directory and
                      try to write into every mounted dependency; vs mount_plan/resolve
"""
import glob, json, os, re, shutil, subprocess, sys
from concurrent.futures import ThreadPoolExecutor

if __name__ != "__main__":
    from vlib import coq, coqlit as L, core, proj

PROPERTY_FILES = ["C13/Properties.v"]
REQ = ["BobV.C13.Model"]

SIG_NL = "var-name-trailing-newline-accepted"

# ------------------------------------------------------------------ alphabets
NASTY = ["'", '"', "$", "\\", "`", "\n", "\t", " ", "*", "?", "[", "]", "~", "#", "!", ";", "&", "|", "<", ">",
         "(", ")", "{", "}", "=", ":", "-", "%", "@", "+", ",", ".", "/", "\r", "\x01", "\x7f", "\x1b",
         "é", "ß", "€", " ", " ", "\U0001F600", "a", "B", "_", "0", "x"]
HOSTILE_VALUES = [
    "", " ", "'", "''", '"', '""', "$", "$$", "$HOME", "${HOME}", "$(echo pwned)", "`echo pwned`", "\\", "\\\\", "\\n",
    "a b", " lead", "trail ", "two\nlines", "\n", "\n\n", "tab\there", "-n", "-e", "--", "-", "*", "?", "[a-z]*", "~", "~root",
    "#nocomment", "!!", "!$", ";", "a;b", "&&", "|", ">out", "<in", "(sub)", "{a,b}", "x=y", "a:b", "%s%n", "@", "+",
    "é", "ß€", "日本語", "\U0001F600", " ", " ", "\x01\x02", "\x7f", "\x1b[31m", "\r", "a\rb",
    "it's", "'\"'\"'", "\"'\"", "'$X'", "\"$X\"", "\\'", "\\\"", "$'\\n'", "$\"x\"", "a\\\nb", "end\\",
    "PATH", "$PATH", "export X=1", "X=1 Y=2", "'; echo pwned; '", "\"; echo pwned; \"", "$(</etc/passwd)",
    "x" * 300, "' " * 50,
]


def gen_value(rng, maxlen=12):
    r = rng.random()
    if r < 0.35:
        return rng.choice(HOSTILE_VALUES)
    if r < 0.45:
        return "".join(rng.choice("abcXYZ019_@%+=:,./-") for _ in range(rng.randint(1, maxlen)))   # safe: stays unquoted
    n = rng.choice([1, 1, 2, 3, 4, rng.randint(0, maxlen)])
    return "".join(rng.choice(NASTY) for _ in range(n))


# ------------------------------------------------------------------ real bash on words
BASH_ENV = {"X": "x val", "Y_1": "it's", "EMPTY": "", "PATH": "/nonexistent-p1:/nonexistent p2", "A": "$X",
            "LANG": "C.UTF-8", "LC_ALL": "C.UTF-8"}
BASH_DRIVER = r'''
for w in "$@"; do
  ( eval "export __V=$w" && printf '%s' "$__V" || printf '\001ERR' ) 2>/dev/null
  printf '\0'
done
'''


def coq_env(d):
    return L.lst([L.pair(L.s(k), L.s(v)) for k, v in d.items()])


def bash_eval_words(words, tmp):
    """evaluate every word with real bash in assignment context; returns list of value or None (error)"""
    out = []
    chunk = 150
    jobs = [words[i:i + chunk] for i in range(0, len(words), chunk)]

    def one(ws):
        r = subprocess.run(["/bin/bash", "--norc", "--noprofile", "-c", BASH_DRIVER, "_"] + ws, cwd=tmp, env=BASH_ENV,
                           stdout=subprocess.PIPE, stderr=subprocess.DEVNULL, stdin=subprocess.DEVNULL, timeout=120)
        parts = r.stdout.split(b"\0")
        if len(parts) != len(ws) + 1:
            return [("broken", r.returncode)] * len(ws)
        res = []
        for p in parts[:-1]:
            if b"\x01ERR" in p:
                res.append(None)
            else:
                try:
                    res.append(p.decode("utf-8"))
                except UnicodeDecodeError:
                    res.append(("undecodable", p.hex()))
        return res
    with ThreadPoolExecutor(max_workers=4) as ex:
        for res in ex.map(one, jobs):
            out.extend(res)
    return out


WORD_ATOMS = ["a", "X", "_", "1", "'", '"', "$", "\\", "`", " ", "\n", ":", "/", "=", ".", ",", "%", "+", "-", "@",
              "$X", "$Y_1", "$EMPTY", "$UNSET", "$PATH", "$A", "${X}", "$(", "$'", '$"', "$1", "$@", "$-", "$_", "$$", "~",
              "*", "?", "{", "}", "(", ")", ";", "#", "!", "é", "€", "\U0001F600", "\t", "'\"'\"'", "\\\n", "\\$", "\\\"",
              "\\\\", "\\'", "\\a", "]", "[", "^"]


def gen_word(rng):
    """raw fuzz word, biased towards the modelled fragment"""
    r = rng.random()
    if r < 0.25:      # well-formed mixture of quoted segments
        segs = []
        for _ in range(rng.randint(1, 4)):
            k = rng.random()
            body = "".join(rng.choice(WORD_ATOMS) for _ in range(rng.randint(0, 5)))
            if k < 0.3:
                segs.append("'" + body.replace("'", "") + "'")
            elif k < 0.65:
                segs.append('"' + body.replace('"', "").replace("`", "").replace("$(", "$").replace("${", "$") + '"')
            elif k < 0.8:
                segs.append("".join(c for c in body if c in "aX_1:/=.,%+-@"))
            else:
                segs.append(rng.choice(["$X", "$PATH", "$UNSET", "\\ ", "\\'", "\\\"", "\\$", "\\\\", ":", "$Y_1"]))
        return "".join(segs)
    return "".join(rng.choice(WORD_ATOMS) for _ in range(rng.randint(1, 8)))


def part_a(ctx, strings, tmp):
    """quote vs shlex.quote (through bob.languages); bash_word vs real bash"""
    rng = ctx.rng
    from bob import languages
    impl_quote = languages.quote
    strings = list(dict.fromkeys(s for s in strings if "\x00" not in s))
    # ---- quote model vs implementation
    cases = [(L.s(s), L.s(impl_quote(s))) for s in strings]
    bad, log = coq.run_cases(ctx, REQ, "quote", "eqb_str", cases, tag="quote")
    ctx.evaluated(len(cases))
    if bad is None:
        ctx.tie_broken("C13 quote model evaluation failed", log)
    else:
        ctx.validated(len(cases) - len(bad))
        for i in bad[:5]:
            ctx.tie_broken("quote-correspondence", {"s": strings[i], "impl": impl_quote(strings[i])})
    # ---- oracle on the implementation: bash reads quote(s) back as s
    quoted = [impl_quote(s) for s in strings]
    got = bash_eval_words(quoted, tmp)
    for s, q, g in zip(strings, quoted, got):
        ctx.evaluated()
        ctx.count("quote-roundtrip:" + ("quoted" if q != s else "plain"))
        if any(c in s for c in "'\"$\\`\n *?~") or any(ord(c) > 127 for c in s):
            ctx.nontrivial(("q", s))
        if g != s:
            ctx.violation("quote-roundtrip-broken", "bash reads quote(%r) = %r back as %r" % (s, q, g), {"kind": "quote", "s": s})
    # ---- bash_word model vs real bash: all quoted strings + raw fuzz
    n_fuzz = ctx.n(2500, 60000)
    words = list(quoted)
    words += [":".join(impl_quote(s) for s in rng.sample(strings, min(len(strings), rng.randint(1, 3)))) + rng.choice(["", ":$PATH", "$PATH"])
              for _ in range(ctx.n(300, 5000))]
    words += [gen_word(rng) for _ in range(n_fuzz)]
    words = list(dict.fromkeys(w for w in words if "\x00" not in w and w != ""))
    real = bash_eval_words(words, tmp)
    envlit = coq_env({k: v for k, v in BASH_ENV.items()})
    # the model predicts Some v -> bash must produce v; model None -> outside the fragment (no claim)
    cases = []
    idx = []
    for i, (w, r) in enumerate(zip(words, real)):
        ctx.evaluated()
        if isinstance(r, tuple):
            ctx.count("bash-word:" + r[0])
            continue
        cases.append(("(benv, %s)" % L.s(w), L.opt(r, L.s)))
        idx.append(i)
    pre = "Definition benv : envmap := %s.\n" % envlit
    pre += ("Definition word_agrees (m r : option str) : bool := match m, r with Some a, Some b => eqb_str a b "
            "| Some _, None => false | None, _ => true end.\n")
    bad, log = coq.run_cases(ctx, REQ, "(fun i => bash_word (fst i) (snd i))", "word_agrees", cases, preamble=pre, tag="bword")
    if bad is None:
        ctx.tie_broken("C13 bash_word model evaluation failed", log)
        return
    # how many words are inside the fragment (model gives Some)?
    inside, log2 = coq.run_cases(ctx, REQ, "(fun i => bash_word (fst i) (snd i))",
                                 "(fun m (_ : option str) => match m with Some _ => false | None => true end)", cases, preamble=pre, tag="bfrag")
    n_inside = len(inside) if inside is not None else 0
    ctx.count("bash-word:inside-fragment", n_inside)
    ctx.count("bash-word:outside-fragment", len(cases) - n_inside)
    ctx.validated(n_inside - len(bad))
    for i in (inside or []):
        ctx.nontrivial(("w", words[idx[i]]))
    for i in bad[:8]:
        ctx.tie_broken("bash-word-correspondence", {"word": words[idx[i]], "bash": real[idx[i]]})
    if bad:
        ctx.count("bash-word:mismatch", len(bad))


def run(ctx):
    ctx.rule = "see module docstring"
    tmp = core.scratch_dir("c13")
    try:
        strings = HOSTILE_VALUES + [gen_value(ctx.rng) for _ in range(ctx.n(1500, 30000))]
        part_a(ctx, strings, tmp)
    finally:
        shutil.rmtree(tmp, ignore_errors=True)
