"""C13 — steps run in exactly the declared environment.

Layers compared on every run (model = coq/C13/Model.v, evaluated with vm_compute):
  A  quote            vs shlex.quote as imported by bob.languages
     bash_word        vs REAL bash (eval "export V=<word>") on every quoted string the
                      run produces and on a raw fuzz stream
  B  step.spec level  hostile specs executed by the real Invoker (bob.invoker/bob.languages in
                      a worker sub-process, and `bob _invoke` CLI): prolog text, interpreter
                      environment, argument vector, sandbox helper command line vs
                      prolog_exports / proc_env / script_env / call_args / sandbox_argv;
                      what the script dumped (env -0, "$@") vs the model prediction
  C  recipe level     generated projects built with `bob dev` (declared/undeclared/weak
                      variables over checkout/build/package and fingerprint scripts, classes,
                      whitelist/whitelistRemove/-e/-E, tools): every step.spec and every dump
                      vs step_env/prune, dep_mounts and an independent oracle
  D  sandboxes        --sandbox/--slim-sandbox/--dev-sandbox/--strict-sandbox run for real;
                      scripts record /proc/self/mountinfo, list the project directory and
                      try to write into every mounted dependency; vs mount_plan/resolve
"""
import glob, json, os, re, shutil, subprocess, sys
from concurrent.futures import ThreadPoolExecutor

if __name__ != "__main__":
    from vlib import coq, coqlit as L, core, proj

PROPERTY_FILES = ["C13/Properties.v"]
REQ = ["BobV.C13.Model"]

SIG_NL = "var-name-trailing-newline-accepted"
NPAR = int(os.environ.get("C13_PAR", "3"))      # processes run in parallel by this check

# ------------------------------------------------------------------ alphabets
NASTY = ["'", '"', "$", "\\", "`", "\n", "\t", " ", "*", "?", "[", "]", "~", "#", "!", ";", "&", "|", "<", ">",
         "(", ")", "{", "}", "=", ":", "-", "%", "@", "+", ",", ".", "/", "\r", "\x01", "\x7f", "\x1b",
         "é", "ß", "€", " ", " ", "\U0001F600", "a", "B", "_", "0", "x"]
HOSTILE_VALUES = [
    "", " ", "'", "''", '"', '""', "$", "$$", "$HOME", "${HOME}", "$(echo pwned)", "`echo pwned`", "\\", "\\\\", "\\n",
    "a b", " lead", "trail ", "two\nlines", "\n", "\n\n", "tab\there", "-n", "-e", "--", "-", "*", "?", "[a-z]*", "~", "~root",
    "#nocomment", "!!", "!$", ";", "a;b", "&&", "|", ">out", "<in", "(sub)", "{a,b}", "x=y", "a:b", "%s%n", "@", "+",
    "é", "ß€", "日本語", "\U0001F600", " ", " ", "\x01\x02", "\x7f", "\x1b[31m", "\r", "a\rb",
    "it's", "'\"'\"'", "\"'\"", "'$X'", "\"$X\"", "\\'", "\\\"", "$'\\n'", "$\"x\"", "a\\\nb", "end\\",
    "PATH", "$PATH", "export X=1", "X=1 Y=2", "'; echo pwned; '", "\"; echo pwned; \"", "$(</etc/passwd)",
    "x" * 300, "' " * 50,
]


def gen_value(rng, maxlen=12):
    r = rng.random()
    if r < 0.35:
        return rng.choice(HOSTILE_VALUES)
    if r < 0.45:
        return "".join(rng.choice("abcXYZ019_@%+=:,./-") for _ in range(rng.randint(1, maxlen)))   # safe: stays unquoted
    n = rng.choice([1, 1, 2, 3, 4, rng.randint(0, maxlen)])
    return "".join(rng.choice(NASTY) for _ in range(n))


# ------------------------------------------------------------------ real bash on words
BASH_ENV = {"X": "x val", "Y_1": "it's", "EMPTY": "", "PATH": "/nonexistent-p1:/nonexistent p2", "A": "$X",
            "LANG": "C.UTF-8", "LC_ALL": "C.UTF-8"}
BASH_DRIVER = r'''
readonly X Y_1 EMPTY A PATH
for w in "$@"; do
  unset __V
  if eval "export __V=$w" 2>/dev/null; then printf '%s' "${__V-}"; else printf '\001ERR'; fi
  printf '\0'
done
'''
# (no sub-shell per word: fork is expensive; the test variables are readonly so that a word cannot change
#  the environment of the following ones; a word that kills the shell is isolated by bisection)


def coq_env(d):
    return L.lst([L.pair(L.s(k), L.s(v)) for k, v in d.items()])


def _bash_chunk(ws, tmp):
    r = subprocess.run(["/bin/bash", "--norc", "--noprofile", "-c", BASH_DRIVER, "_"] + ws, cwd=tmp, env=BASH_ENV,
                       stdout=subprocess.PIPE, stderr=subprocess.DEVNULL, stdin=subprocess.DEVNULL, timeout=300)
    parts = r.stdout.split(b"\0")
    if len(parts) != len(ws) + 1:
        if len(ws) == 1:
            return [None]
        h = len(ws) // 2
        return _bash_chunk(ws[:h], tmp) + _bash_chunk(ws[h:], tmp)
    res = []
    for p in parts[:-1]:
        if b"\x01ERR" in p:
            res.append(None)
        else:
            try:
                res.append(p.decode("utf-8"))
            except UnicodeDecodeError:
                res.append(("undecodable", p.hex()))
    return res


def bash_eval_words(words, tmp):
    '''evaluate every word with real bash in assignment context; returns list of value or None (error)'''
    out = []
    chunk = 400
    jobs = [words[i:i + chunk] for i in range(0, len(words), chunk)]
    with ThreadPoolExecutor(max_workers=NPAR) as ex:
        for res in ex.map(lambda ws: _bash_chunk(ws, tmp), jobs):
            out.extend(res)
    return out


WORD_ATOMS = ["a", "X", "_", "1", "'", '"', "$", "\\", "`", " ", "\n", ":", "/", "=", ".", ",", "%", "+", "-", "@",
              "$X", "$Y_1", "$EMPTY", "$UNSET", "$PATH", "$A", "${X}", "$(", "$'", '$"', "$1", "$@", "$-", "$_", "$$", "~",
              "*", "?", "{", "}", "(", ")", ";", "#", "!", "é", "€", "\U0001F600", "\t", "'\"'\"'", "\\\n", "\\$", "\\\"",
              "\\\\", "\\'", "\\a", "]", "[", "^"]


def gen_word(rng):
    """raw fuzz word, biased towards the modelled fragment"""
    r = rng.random()
    if r < 0.25:      # well-formed mixture of quoted segments
        segs = []
        for _ in range(rng.randint(1, 4)):
            k = rng.random()
            body = "".join(rng.choice(WORD_ATOMS) for _ in range(rng.randint(0, 5)))
            if k < 0.3:
                segs.append("'" + body.replace("'", "") + "'")
            elif k < 0.65:
                segs.append('"' + body.replace('"', "").replace("`", "").replace("$(", "$").replace("${", "$") + '"')
            elif k < 0.8:
                segs.append("".join(c for c in body if c in "aX_1:/=.,%+-@"))
            else:
                segs.append(rng.choice(["$X", "$PATH", "$UNSET", "\\ ", "\\'", "\\\"", "\\$", "\\\\", ":", "$Y_1"]))
        return "".join(segs)
    return "".join(rng.choice(WORD_ATOMS) for _ in range(rng.randint(1, 8)))


import time as _time
_T = {}


def tick(ctx, name, t0):
    _T[name] = round(_T.get(name, 0) + _time.time() - t0, 1)
    return _time.time()


def part_a(ctx, strings, tmp):
    """quote vs shlex.quote (through bob.languages); bash_word vs real bash"""
    rng = ctx.rng
    t0 = _time.time()
    from bob import languages
    impl_quote = languages.quote
    strings = list(dict.fromkeys(s for s in strings if "\x00" not in s))
    # ---- quote model vs implementation
    cases = [(L.s(s), L.s(impl_quote(s))) for s in strings]
    bad, log = coq.run_cases(ctx, REQ, "quote", "eqb_str", cases, tag="quote")
    ctx.evaluated(len(cases))
    if bad is None:
        ctx.tie_broken("C13 quote model evaluation failed", log)
    else:
        ctx.validated(len(cases) - len(bad))
        for i in bad[:5]:
            ctx.tie_broken("quote-correspondence", {"s": strings[i], "impl": impl_quote(strings[i])})
    t0 = tick(ctx, "a:quote-coq", t0)
    # ---- oracle on the implementation: bash reads quote(s) back as s
    quoted = [impl_quote(s) for s in strings]
    got = bash_eval_words(quoted, tmp)
    for s, q, g in zip(strings, quoted, got):
        ctx.evaluated()
        ctx.count("quote-roundtrip:" + ("quoted" if q != s else "plain"))
        if any(c in s for c in "'\"$\\`\n *?~") or any(ord(c) > 127 for c in s):
            ctx.nontrivial(("q", s))
        if g != s:
            ctx.violation("quote-roundtrip-broken", "bash reads quote(%r) = %r back as %r" % (s, q, g), {"kind": "quote", "s": s})
    # ---- bash_word model vs real bash: all quoted strings + raw fuzz
    n_fuzz = ctx.n(1200, 30000)
    words = list(quoted)
    words += [":".join(impl_quote(s) for s in rng.sample(strings, min(len(strings), rng.randint(1, 3)))) + rng.choice(["", ":$PATH", "$PATH"])
              for _ in range(ctx.n(300, 5000))]
    words += [gen_word(rng) for _ in range(n_fuzz)]
    words = list(dict.fromkeys(w for w in words if "\x00" not in w and w != ""))
    t0 = tick(ctx, "a:bash1", t0)
    real = bash_eval_words(words, tmp)
    t0 = tick(ctx, "a:bash2", t0)
    envlit = coq_env({k: v for k, v in BASH_ENV.items()})
    # the model predicts Some v -> bash must produce v; model None -> outside the fragment (no claim).
    # Every word is evaluated as two cases in one sharded run: k=0 lists the words inside the fragment,
    # k=1 lists the words on which model and bash disagree.
    cases = []
    idx = []
    for i, (w, r) in enumerate(zip(words, real)):
        ctx.evaluated()
        if isinstance(r, tuple):
            ctx.count("bash-word:" + r[0])
            continue
        cases.append((L.s(w), "(@None str)" if r is None else "(Some %s)" % L.s(r)))
        idx.append(i)
    n = len(cases)
    both = [("(%s, %s)" % (a, b), "0") for a, b in cases] + [("(%s, %s)" % (a, b), "1") for a, b in cases]
    pre = "Definition benv : envmap := %s.\n" % envlit
    pre += ("Definition wcode (i : str * option str) : N := match bash_word benv (fst i), snd i with "
            "| None, _ => 0 | Some a, Some b => if eqb_str a b then 1 else 2 | Some _, None => 2 end.\n"
            "Definition wok (code k : N) : bool := if k =? 0 then code =? 0 else negb (code =? 2).\n")
    bad, log = coq.run_cases(ctx, REQ, "wcode", "wok", both, preamble=pre, tag="bword")
    t0 = tick(ctx, "a:bword-coq", t0)
    if bad is None:
        ctx.tie_broken("C13 bash_word model evaluation failed", log)
        return
    inside = [i for i in bad if i < n]
    wrong = [i - n for i in bad if i >= n]
    ctx.count("bash-word:inside-fragment", len(inside))
    ctx.count("bash-word:outside-fragment", n - len(inside))
    ctx.validated(len(inside) - len(wrong))
    for i in inside:
        ctx.nontrivial(("w", words[idx[i]]))
    for i in wrong[:8]:
        ctx.tie_broken("bash-word-correspondence", {"word": words[idx[i]], "bash": real[idx[i]]})
    if wrong:
        ctx.count("bash-word:mismatch", len(wrong))



# ================================================================== worker (sub-process, real Invoker)
def worker_main(jobs_path, out_path):
    """Executes step specs with the real bob.invoker.Invoker / bob.languages (imported from the repository
    under test through PYTHONPATH).  Records every process the Invoker spawns (argv, environment)."""
    import asyncio, io
    from bob.languages import StepSpec
    from bob.invoker import Invoker, InvocationMode
    from bob import BOB_INPUT_HASH
    from bob.utils import asHexStr
    jobs = json.load(open(jobs_path))
    results = []
    saved_env = dict(os.environ)
    for job in jobs:
        rec = {"calls": [], "id": job["id"]}
        try:
            os.chdir(job["dir"])
            d = dict(job["spec"])
            d["vsn"] = asHexStr(BOB_INPUT_HASH)
            spec = StepSpec.fromFile(io.StringIO(json.dumps(d)))
            rec["root_entries"] = os.listdir("/")
            if "sandbox" in d:
                rec["image_entries"] = os.listdir(os.path.abspath(d["sandbox"]["root"]))
                rec["host_exists"] = [m[0] for m in d["sandbox"]["hostMounts"] if os.path.exists(m[0])]
            os.environ.clear()
            os.environ.update(job["host"])
            loop = asyncio.new_event_loop()
            asyncio.set_event_loop(loop)
            try:
                orig = loop.subprocess_exec

                async def rec_exec(factory, *args, _orig=orig, _rec=rec, **kw):
                    _rec["calls"].append({"args": [a if isinstance(a, str) else os.fsdecode(a) for a in args],
                                          "env": dict(kw.get("env") or {}), "cwd": kw.get("cwd")})
                    return await _orig(factory, *args, **kw)
                loop.subprocess_exec = rec_exec
                inv = Invoker(spec, job["preserve"], True, True, True, job.get("trace", False), True)
                if job.get("mode", "run") == "run":
                    rec["ret"] = loop.run_until_complete(inv.executeStep(InvocationMode.CALL, False))
                else:
                    ret, out, err = loop.run_until_complete(inv.executeFingerprint())
                    rec["ret"] = ret
                    rec["fp_stdout"] = out.decode("utf-8", "surrogateescape")
                    rec["fp_stderr"] = err.decode("utf-8", "replace")[-600:]
                rec["stdio"] = inv.getStdio()[-1500:]
            finally:
                os.environ.clear()
                os.environ.update(saved_env)
                loop.close()
            hint = d.get("scriptHint")
            if hint and os.path.exists(hint):
                with open(hint, encoding="utf-8", errors="surrogateescape", newline="") as f:
                    rec["script"] = f.read()
            ws = d["workspace"][0]
            for name in ("env.bin", "args.bin", "seen.bin", "wrote.bin", "mountinfo.txt", "arrays.bin"):
                fp = os.path.join(ws, name)
                if os.path.exists(fp):
                    with open(fp, "rb") as f:
                        rec[name] = f.read().decode("utf-8", "surrogateescape")
        except Exception as e:
            import traceback
            rec["exception"] = "%s: %s" % (type(e).__name__, e)
            rec["trace"] = traceback.format_exc()[-1500:]
        results.append(rec)
    with open(out_path, "w") as f:
        json.dump(results, f)


def run_workers(tmp, jobs, nworkers=2, timeout=1800):
    """distribute jobs over worker processes running against core.REPO"""
    if not jobs:
        return {}
    chunks = [jobs[i::nworkers] for i in range(nworkers)]
    procs = []
    for i, ch in enumerate(chunks):
        if not ch:
            continue
        jp = os.path.join(tmp, "jobs%d.json" % i)
        op = os.path.join(tmp, "out%d.json" % i)
        json.dump(ch, open(jp, "w"))
        env = proj.bob_env()
        procs.append((subprocess.Popen(["/venv/bin/python", os.path.abspath(__file__), "worker", jp, op], env=env,
                                       stdout=subprocess.PIPE, stderr=subprocess.STDOUT, cwd=tmp), op))
    res = {}
    for p, op in procs:
        try:
            out, _ = p.communicate(timeout=timeout)
        except subprocess.TimeoutExpired:
            p.kill()
            out = b"timeout"
        if os.path.exists(op):
            for r in json.load(open(op)):
                res[r["id"]] = r
        else:
            res.setdefault("_errors", []).append(out.decode("utf-8", "replace")[-2000:])
    return res


# ================================================================== spec level (part B)
INTRINSIC = {"PWD", "OLDPWD", "SHLVL", "_"}          # set by bash itself
DECL_NAMES = ["A", "B1", "_x", "Z_9", "lower", "MiXed", "IFS", "HOME", "TERM", "WL1", "PATH", "LD_LIBRARY_PATH", "BOB_CWD",
              "CDPATH", "PS4", "LONG_NAME_WITH_1_DIGIT", "a", "__"]
HOST_NAMES_OK = ["WL1", "WL2", "SECRET1", "SECRET2", "HOME", "TERM", "USER", "LANG", "A", "B1", "EDITOR"]
HOST_NAMES_ODD = ["SECRET-DASH", "1NUM", "sp ace", "FÜ", "dot.name", "BASH_FUNC_f%%"]

DUMP_MAIN = r"""env -0 > env.bin
for a in "$@"; do printf '%s\0' "$a"; done > args.bin
IFS=$' \t\n'
for k in "${!BOB_ALL_PATHS[@]}"; do printf 'all\0%s\0%s\0' "$k" "${BOB_ALL_PATHS[$k]}"; done > arrays.bin
for k in "${!BOB_DEP_PATHS[@]}"; do printf 'dep\0%s\0%s\0' "$k" "${BOB_DEP_PATHS[$k]}"; done >> arrays.bin
for k in "${!BOB_TOOL_PATHS[@]}"; do printf 'tool\0%s\0%s\0' "$k" "${BOB_TOOL_PATHS[$k]}"; done >> arrays.bin
"""


def sandbox_probe(paths_to_try, marker_globs):
    """script fragment (no forks except cat): record the mount table, the visible workspace markers and
    where writing is possible"""
    q = lambda x: "'" + x.replace("'", "'\"'\"'") + "'"
    lines = ["cat /proc/self/mountinfo > mountinfo.txt", "shopt -s nullglob dotglob", ": > seen.bin", ": > wrote.bin"]
    for g in marker_globs:
        lines.append("for f in %s ; do printf '%%s\\0' \"$f\" >> seen.bin ; done" % g)
    for pth in paths_to_try:
        lines.append("if { : > %s/intruder ; } 2>/dev/null ; then printf '%%s\\0' %s >> wrote.bin ; fi" % (q(pth), q(pth)))
    return "\n".join(lines) + "\n"


def coq_spec(d):
    fat = "None"
    if "sandbox" in d:
        sb = d["sandbox"]
        fat = "(Some {| fs_root := %s; fs_paths := %s; fs_mounts := %s; fs_user := %s |})" % (
            L.s(sb["root"]), coq_strs(sb["paths"]),
            "(%s : list (str * str * list str))" % L.lst(["(%s, %s, %s)" % (L.s(a), L.s(b), coq_strs(o)) for a, b, o in sb["hostMounts"]]),
            L.s(sb["user"]))
    return ("{| sp_env := %s; sp_paths := %s; sp_libs := %s; sp_ws_storage := %s; sp_ws_exec := %s; sp_args := %s; "
            "sp_whitelist := %s; sp_dep_mounts := %s; sp_slim := %s; sp_fat := %s; sp_net := %s; sp_envfile := %s; "
            "sp_script_hint := %s; sp_jenkins := %s |}") % (
        coq_envmap(d["env"]), coq_strs(d["paths"]), coq_strs(d["libraryPaths"]), L.s(d["workspace"][0]), L.s(d["workspace"][1]),
        coq_strs(d["args"]), coq_strs(d["envWhiteList"]),
        "(%s : list (str * str))" % L.lst([L.pair(L.s(a), L.s(b)) for a, b in d["depMounts"]]),
        L.B(d["slimSandbox"]), fat, L.B(d["netAccess"]), L.opt(d["envFile"], L.s), L.opt(d["scriptHint"], L.s), L.B(d["isJenkins"]))


def coq_strs(xs):
    return "(%s : list str)" % L.lst([L.s(x) for x in xs])


def coq_envmap(d):
    items = d.items() if isinstance(d, dict) else d
    return "(%s : envmap)" % L.lst([L.pair(L.s(k), L.s(v)) for k, v in items])


def base_spec(ws, exec_ws=None):
    return {"envFile": None, "envWhiteList": [], "logFile": None, "isJenkins": False, "scriptHint": os.path.join(os.path.dirname(ws), "script"),
            "slimSandbox": False, "language": "bash", "env": {}, "paths": [], "libraryPaths": [], "workspace": [ws, exec_ws or ws],
            "args": [], "allPaths": [], "depPaths": [], "toolPaths": [], "netAccess": False, "clean": None, "depMounts": [],
            "preRunCmds": [], "setupScript": "", "mainScript": DUMP_MAIN, "updateScript": "", "postRunCmds": [], "fingerprintScript": ""}


def gen_host(rng):
    host = {"PATH": rng.choice(["/usr/bin:/bin", "/usr/local/bin:/usr/bin:/bin", "/bin:/usr/bin:/we ird:$x:'q'", "/usr/bin:/bin:"])}
    for n in HOST_NAMES_OK:
        if rng.random() < 0.55:
            host[n] = gen_value(rng)
    for n in HOST_NAMES_ODD:
        if rng.random() < 0.3:
            host[n] = gen_value(rng)
    return {k: v for k, v in host.items() if "\x00" not in v}


def gen_spec_job(rng, projdir, i):
    ws = "ws/own%d/workspace" % i
    d = base_spec(ws)
    for n in rng.sample(DECL_NAMES, rng.randint(0, 6)):
        v = gen_value(rng)
        if "\x00" not in v:
            d["env"][n] = v
    if "IFS" in d["env"] and rng.random() < 0.5:
        d["env"]["IFS"] = rng.choice(["/", ":", "x", "\n", "="])
    tooldirs = ["ws/tool/bin", "ws/tool/.", "ws/t ool/it's", "/nonexistent/$x/`y`", "ws/tool/a:b", "ws/tool//dbl/../up", "ws/tool/é€"]
    d["paths"] = sorted(rng.sample(tooldirs, rng.randint(0, 3)))
    d["libraryPaths"] = rng.sample(tooldirs, rng.randint(0, 2))
    argdirs = ["ws/dep1/workspace", "ws/dep 2/work space", "ws/dep'3/w", "/invalid/exec/path/of/x", "ws/dep$4/*", "ws/-dash/--", "ws/dep1/workspace"]
    d["args"] = [rng.choice(argdirs) for _ in range(rng.randint(0, 4))]
    names = ["lib-a", "lib.b", "pkg+x", "tool_1", "n:s"]
    d["allPaths"] = sorted([rng.choice(names), a] for a in d["args"])
    d["depPaths"] = sorted(x for x in d["allPaths"] if not x[1].startswith("/invalid"))
    d["toolPaths"] = sorted([rng.choice(names), p] for p in d["paths"])
    wl = ["PATH"] if rng.random() < 0.93 else []
    wl += [n for n in ["HOME", "TERM", "USER", "WL1", "WL2", "NOTSET", "A", "SECRET-DASH"] if rng.random() < 0.4]
    d["envWhiteList"] = sorted(set(wl))
    if rng.random() < 0.15:
        d["isJenkins"] = True
    return {"id": "b%d" % i, "dir": projdir, "spec": d, "host": gen_host(rng), "preserve": rng.random() < 0.12,
            "trace": rng.random() < 0.1, "mode": "run"}


def parse_nul(s):
    parts = s.split("\0")
    return parts[:-1] if parts and parts[-1] == "" else parts


def env_section(script):
    """text of the `# Environment:` section of a generated script (with the final newline)"""
    a = script.find("\n# Environment:\n")
    b = script.find("\n\n# Setup\n", a)
    if a < 0 or b < 0:
        return None
    return script[a + len("\n# Environment:\n"):b] + "\n"


_DPATH = []


def bash_default_path():
    if not _DPATH:
        r = subprocess.run(["/bin/bash", "--norc", "--noprofile", "-c", 'printf %s "$PATH"'], env={}, stdout=subprocess.PIPE)
        _DPATH.append(r.stdout.decode())
    return _DPATH[0]


def oracle_env(job):
    """independent statement of the property on one job: what the script must see"""
    d = job["spec"]
    exp = {}
    for k, v in job["host"].items():
        if job["preserve"] or k in d["envWhiteList"]:
            exp[k] = v
    if "sandbox" in d:
        exp["PATH"] = ":".join(d["sandbox"]["paths"])
    inherited = exp.get("PATH", bash_default_path())     # a bash that inherits no PATH uses its built-in default
    exp.update(d["env"])
    ab = lambda p: os.path.normpath(os.path.join(job["dir"], p))
    exp["PATH"] = ":".join([ab(p) for p in d["paths"]] + [inherited])
    exp["LD_LIBRARY_PATH"] = ":".join(ab(p) for p in d["libraryPaths"])
    exp["BOB_CWD"] = ab(d["workspace"][1])
    return exp


def shrink_env_job(job, still_fails_many, rounds=8):
    """greedy, batched: per round all single deletions are executed in one worker call"""
    import copy
    cur = copy.deepcopy(job)
    for _ in range(rounds):
        cands = []
        for k in list(cur["spec"]["env"]):
            c = copy.deepcopy(cur); del c["spec"]["env"][k]; cands.append(c)
        for k in list(cur["host"]):
            if k != "PATH":
                c = copy.deepcopy(cur); del c["host"][k]; cands.append(c)
        for key in ("paths", "libraryPaths", "args", "envWhiteList"):
            for i in range(len(cur["spec"][key])):
                c = copy.deepcopy(cur); del c["spec"][key][i]
                c["spec"]["allPaths"] = []; c["spec"]["depPaths"] = []; c["spec"]["toolPaths"] = []
                cands.append(c)
        if not cands:
            break
        flags = still_fails_many(cands)
        nxt = [c for c, f in zip(cands, flags) if f]
        if not nxt:
            break
        cur = nxt[0]
    return cur


def classify_env_failure(job, seen, exp):
    """signature of the class of a failing input (from the minimised case)"""
    d = job["spec"]
    for k in sorted(set(seen) | set(exp)):
        if k in INTRINSIC:
            continue
        if k not in exp:
            return "undeclared-variable-visible", "script sees %s=%r which is neither declared nor whitelisted" % (k, seen[k])
        if k not in seen:
            if k in d["env"]:
                return "declared-variable-missing", "declared variable %s=%r is not visible" % (k, exp[k])
            return "expected-variable-missing:" + ("bob" if k in ("PATH", "LD_LIBRARY_PATH", "BOB_CWD") else "host"), "%s is not visible" % k
        if seen[k] != exp[k]:
            if k in ("PATH", "LD_LIBRARY_PATH", "BOB_CWD"):
                return "bob-variable-value:" + k, "%s is %r, expected %r" % (k, seen[k], exp[k])
            if k in d["env"]:
                return "declared-value-not-exact", "declared %s=%r arrives as %r" % (k, exp[k], seen[k])
            return "host-value-not-exact", "whitelisted %s=%r arrives as %r" % (k, exp[k], seen[k])
    return None, None


def check_env_job(ctx, job, r, cases, meta, rerun):
    """compare one executed job with the oracle and queue the model cases"""
    d = job["spec"]
    ctx.evaluated()
    if "exception" in r:
        ctx.violation("invoker-exception:" + r["exception"].split(":")[0], "Invoker raised %s" % r["exception"], {"kind": "spec", "job": job})
        return
    bash_calls = [c for c in r["calls"]]
    if r.get("ret") != 0 or "env.bin" not in r:
        ctx.count("spec:step-failed")
        ctx.violation("step-failed-on-valid-spec", "step returned %r: %s" % (r.get("ret"), r.get("stdio", "")[-300:]), {"kind": "spec", "job": job})
        return
    seen = dict(x.split("=", 1) for x in parse_nul(r["env.bin"]) if "=" in x)
    args = parse_nul(r["args.bin"])
    exp = oracle_env(job)
    sig, what = classify_env_failure(job, seen, exp)
    exp_args = [os.path.normpath(os.path.join(job["dir"], a)) for a in d["args"]]
    if sig is None and args != exp_args:
        sig, what = "arguments-differ", "script got arguments %r, declared %r" % (args, exp_args)
    if sig is not None:
        def job_sig(j, rr):
            if rr is None or "env.bin" not in rr:
                return None
            s2 = dict(x.split("=", 1) for x in parse_nul(rr["env.bin"]) if "=" in x)
            g, _ = classify_env_failure(j, s2, oracle_env(j))
            if g is None and parse_nul(rr["args.bin"]) != [os.path.normpath(os.path.join(j["dir"], a)) for a in j["spec"]["args"]]:
                g = "arguments-differ"
            return g

        def many(cands):
            return [job_sig(c, rr) == sig for c, rr in zip(cands, rerun(cands))]
        small = job
        if sig not in ctx.cov.setdefault("_shrunk", []):
            ctx.cov["_shrunk"].append(sig)
            small = shrink_env_job(job, many)
        ctx.violation(sig, what, {"kind": "spec", "job": small})
    key = (tuple(sorted(d["env"].items())), tuple(d["paths"]), tuple(d["args"]), tuple(sorted(job["host"].items())), tuple(d["envWhiteList"]), job["preserve"])
    if any(any(c in v for c in "'\"$\\`\n *?") or any(ord(c) > 127 for c in v) for v in list(d["env"].values()) + d["args"] + d["paths"]):
        ctx.nontrivial(key)
    ctx.count("spec:declared=%d" % min(len(d["env"]), 4))
    ctx.count("spec:" + ("preserve" if job["preserve"] else "filtered"))
    # ---- model cases: (environment seen by the script, text of the prolog, argv + process environment of the call)
    lit = "(%s, %s, %s, %s, %s, %s)" % (L.s(bash_default_path()), L.B(job["preserve"]), L.s(job["dir"]), coq_spec(d),
                                    coq_envmap(job["host"]), L.B(job.get("trace", False)))
    seen_sorted = sorted((k, v) for k, v in seen.items() if k not in INTRINSIC)
    sect = env_section(r.get("script", ""))
    call = r["calls"][-1]
    argv = call["args"]
    if "--" in argv and (d["slimSandbox"] or "sandbox" in d):
        argv = argv[argv.index("--") + 1:]          # interpreter call behind the sandbox wrapper (wrapper: part D)
    penv = sorted(call["env"].items())
    cases.append((lit, "(%s, %s, %s, %s)" % (coq_envmap(seen_sorted), L.s(sect or ""), coq_strs(argv), coq_envmap(penv))))
    meta.append(job)


PRE_B = """
Definition drop_intrinsic (e : envmap) : envmap :=
  filter (fun kv => negb (str_mem (fst kv) [[80;87;68]; [79;76;68;80;87;68]; [83;72;76;86;76]; [95]])) e.
Definition env_eqb (a b : envmap) : bool := eqb_list (eqb_prod eqb_str eqb_str) a b.
Definition w0 (cwd : str) : world := {| w_cwd := cwd; w_tmp := []; w_root_entries := []; w_image_entries := [];
       w_exists := []; w_helper := []; w_subst := fun x => x |}.
Definition bmodel (i : str * bool * str * spec * envmap * bool) :=
  let '(dpath, pres, cwd, sp, environ, trace) := i in
  (match script_env dpath pres cwd sp environ with Some e => Some (sort_kv (drop_intrinsic e)) | None => None end,
   render_exports (prolog_exports cwd sp),
   call_args cwd [98;97;115;104] (snd (script_paths (w0 cwd) sp)) trace sp,
   sort_kv (proc_env pres sp environ)).
Definition bok (m : option envmap * str * list str * envmap) (o : envmap * str * list str * envmap) : bool :=
  let '(me, mt, ma, mp) := m in let '(oe, ot, oa, op) := o in
  match me with Some e => env_eqb e oe | None => false end && eqb_str mt ot && eqb_list eqb_str ma oa && env_eqb mp op.
Definition bwhich (m : option envmap * str * list str * envmap) (o : envmap * str * list str * envmap) :=
  let '(me, mt, ma, mp) := m in let '(oe, ot, oa, op) := o in
  (match me with Some e => env_eqb e oe | None => false end, eqb_str mt ot, eqb_list eqb_str ma oa, env_eqb mp op).
"""


def part_b(ctx, tmp):
    rng = ctx.rng
    t0 = _time.time()
    projdir = os.path.join(tmp, "pr oj'$x")
    os.makedirs(projdir)
    n = ctx.n(100, 3000)
    jobs = [gen_spec_job(rng, projdir, i) for i in range(n)]
    for f in sorted(glob.glob(os.path.join(core.VERIF, "corpus", "C13", "spec_*.json"))):
        c = json.load(open(f))
        j = c["job"]
        j["dir"] = projdir
        j["id"] = "corpus:" + os.path.basename(f)
        j["spec"]["mainScript"] = DUMP_MAIN
        cw = "ws/corpus-%s" % os.path.basename(f)[:-5]              # own workspace: jobs run in parallel workers
        j["spec"]["workspace"] = [cw + "/workspace", cw + "/workspace"]
        j["spec"]["scriptHint"] = cw + "/script"
        jobs.insert(0, j)
        ctx.count("spec:corpus")
    res = run_workers(tmp, jobs, nworkers=NPAR)
    t0 = tick(ctx, "b:invoke", t0)
    for e in res.get("_errors", []):
        ctx.tie_broken("worker-failed", e)

    def rerun(js):
        js = [dict(j, id="rerun%d" % i) for i, j in enumerate(js)]
        rr = run_workers(tmp, js, nworkers=NPAR)
        return [rr.get(j["id"]) for j in js]
    cases, meta = [], []
    for job in jobs:
        r = res.get(job["id"])
        if r is None:
            ctx.tie_broken("worker-lost-job", job["id"])
            continue
        check_env_job(ctx, job, r, cases, meta, rerun)
    ctx.sample({"spec-job": {"env": jobs[-1]["spec"]["env"], "host": jobs[-1]["host"], "whitelist": jobs[-1]["spec"]["envWhiteList"]}})
    t0 = tick(ctx, "b:oracle", t0)
    bad, log = coq.run_cases(ctx, REQ, "bmodel", "bok", cases, preamble=PRE_B, tag="bspec", shard=45)
    if bad is None:
        ctx.tie_broken("C13 spec-level model evaluation failed", log)
    else:
        ctx.validated(len(cases) - len(bad))
        if bad:
            ctx.count("spec:model-mismatch", len(bad))
            terms = ["bwhich (bmodel %s) %s" % cases[i] for i in bad[:3]] + ["bmodel %s" % cases[bad[0]][0]]
            vals, _ = coq.eval_terms(ctx, REQ, terms, preamble=PRE_B)
            for n_, i in enumerate(bad[:3]):
                j = meta[i]
                ctx.tie_broken("spec-correspondence (script-env, prolog-text, argv, process-env) = %s" % (vals[n_] if vals else "?"),
                               {"env": j["spec"]["env"], "host": j["host"], "wl": j["spec"]["envWhiteList"], "paths": j["spec"]["paths"],
                                "libs": j["spec"]["libraryPaths"], "args": j["spec"]["args"], "preserve": j["preserve"],
                                "model": (vals[-1][:1500] if vals and n_ == 0 else "")})
    tick(ctx, "b:coq", t0)



# ================================================================== sandboxes at spec level (part D1)
HOST_MOUNTS3 = [[m, m, []] if isinstance(m, str) else [m[0], m[1], list(m[2])] for m in
                ["/bin", "/etc", "/lib", "/usr", ["/lib32", "/lib32", ["nofail"]], ["/lib64", "/lib64", ["nofail"]],
                 ["/nonexistent-mount", "/nonexistent-mount", ["nofail"]], ["/sbin", "/host-sbin", []], ["/opt", "/opt", ["nolocal"]]]]


def parse_helper_mounts(argv):
    """independent reading of the namespace-sandbox option semantics: [(src, tgt, rw)]"""
    out = []
    pending = None
    i = 1
    while i < len(argv):
        a = argv[i]
        if a == "--":
            break
        if a == "-M":
            if pending is not None:
                out.append((pending, pending, False))
            pending = argv[i + 1]
            i += 2
        elif a in ("-m", "-w"):
            out.append((pending, argv[i + 1], a == "-w"))
            pending = None
            i += 2
        elif a in ("-S", "-H", "-d", "-W", "-l", "-L"):
            i += 2
        else:
            i += 1
    if pending is not None:
        out.append((pending, pending, False))
    return out


def mountinfo_table(text):
    """mount point -> 'ro'/'rw' of the topmost (last) mount on it"""
    def unesc(x):
        return re.sub(r"\\([0-7]{3})", lambda m: chr(int(m.group(1), 8)), x)
    tab = {}
    for line in text.split("\n"):
        f = line.split(" ")
        if len(f) < 7:
            continue
        tab[unesc(f[4])] = "ro" if "ro" in f[5].split(",") else "rw"
    return tab


def gen_sandbox_job(rng, tmp, i, kind):
    """kind: slim | fat-stable | fat-dev | strict (slim wrapper + stable paths)"""
    pd = os.path.join(tmp, "sb%d %s'q" % (i, kind))
    names = ["dep1", "dep 2", "tool", "outsider", "image", "other'3"]
    for nm in names:
        w = os.path.join(pd, "ws", nm, "workspace")
        os.makedirs(os.path.join(w, "bin"))
        open(os.path.join(w, "marker-" + nm.replace(" ", "_").replace("'", "_")), "w").write(nm)
    os.makedirs(os.path.join(pd, "rwdir"))
    stable = kind in ("fat-stable", "strict")
    ex = lambda nm: ("/bob/%s/workspace" % ("%02x" % names.index(nm) * 20)) if stable else "ws/%s/workspace" % nm
    ws = "ws/own/workspace"
    d = base_spec(ws, "/bob/%s/workspace" % ("aa" * 20) if stable else ws)
    used = [nm for nm in ["dep1", "dep 2", "other'3"] if rng.random() < 0.6] or ["dep1"]
    d["args"] = [ex(nm) for nm in used]
    d["paths"] = [ex("tool") + "/bin"]
    d["depMounts"] = [["ws/%s/workspace" % nm, ex(nm)] for nm in used + ["tool"]]
    if rng.random() < 0.5:
        d["depMounts"].append(d["depMounts"][0])          # Bob mounts the first argument twice for build steps
    d["env"] = {"A": gen_value(rng).replace("\x00", ""), "DECL": "it's \"$x\""}
    d["envWhiteList"] = ["PATH", "HOME", "WL1"]
    d["netAccess"] = rng.random() < 0.3
    if rng.random() < 0.6:
        d["envFile"] = "ws/own/env"
    if kind != "slim" and kind != "strict":
        d["sandbox"] = {"root": "ws/image/workspace", "paths": ["/usr/local/bin", "/usr/bin", "/bin"],
                        "hostMounts": HOST_MOUNTS3 + [[proj.lit(os.path.join(pd, "rwdir")), "/rwmnt", ["rw"]]],
                        "user": rng.choice(["nobody", "root", "$USER"])}
        d["depMounts"].append(["ws/image/workspace", ex("image")])
    else:
        d["slimSandbox"] = True
    tries = [os.path.normpath(os.path.join(pd, d["workspace"][1]))] + [os.path.normpath(os.path.join(pd, ex(nm))) for nm in names if nm != "image"]
    tries += [os.path.join(pd, "ws", nm, "workspace") for nm in names] + [pd, "/tmp", "/", "/rwmnt", "/usr", os.path.join(pd, "ws")]
    tries = list(dict.fromkeys(tries))
    q = lambda x: "'" + x.replace("'", "'\"'\"'") + "'"
    globs = ["%s/ws/*/workspace/marker-*" % q(pd), "/bob/*/workspace/marker-*", "/marker-*"]
    d["mainScript"] = DUMP_MAIN + sandbox_probe(tries, globs)
    host = {"PATH": "/usr/bin:/bin", "HOME": "/root", "SECRET1": "s3cret", "WL1": "wl one", "TMPDIR": "/nonexistent"}
    host.pop("TMPDIR")
    return {"id": "d%d" % i, "dir": pd, "spec": d, "host": host, "preserve": False, "trace": False, "mode": "run",
            "kind": kind, "used": used, "names": names, "tries": tries, "stable": stable}


PRE_D = """
Definition mount_eqb (a b : mount) : bool :=
  eqb_str (m_src a) (m_src b) && eqb_str (m_tgt a) (m_tgt b) && Bool.eqb (m_rw a) (m_rw b).
Definition dmodel (i : world * spec) := (sandbox_argv (fst i) (snd i), mount_plan (fst i) (snd i)).
Definition dok (m o : list str * list mount) : bool :=
  eqb_list eqb_str (fst m) (fst o) && eqb_list mount_eqb (snd m) (snd o).
"""


def part_d(ctx, tmp):
    rng = ctx.rng
    t0 = _time.time()
    kinds = ["slim", "fat-stable", "fat-dev", "strict"]
    n = ctx.n(8, 96)
    jobs = [gen_sandbox_job(rng, tmp, i, kinds[i % 4]) for i in range(n)]
    res = run_workers(tmp, jobs, nworkers=NPAR)
    t0 = tick(ctx, "d:invoke", t0)
    for e in res.get("_errors", []):
        ctx.tie_broken("worker-failed", e)
    cases, meta = [], []
    for job in jobs:
        r = res.get(job["id"])
        d = job["spec"]
        ctx.evaluated()
        ctx.count("sandbox-spec:" + job["kind"])
        if r is None or "exception" in r or r.get("ret") != 0 or "seen.bin" not in r:
            ctx.violation("sandboxed-step-failed", "sandboxed step did not run: %s" % json.dumps(r)[-600:], {"kind": "sandbox-spec", "job": job})
            continue
        pd = job["dir"]
        ab = lambda p_: os.path.normpath(os.path.join(pd, p_))
        argv = r["calls"][-1]["args"]
        # ---- oracle (independent of the model): what is visible, where writing succeeds
        seen = sorted(parse_nul(r["seen.bin"]))
        wrote = sorted(parse_nul(r["wrote.bin"]))
        mounted = {}
        for st, exe in d["depMounts"]:
            mounted[ab(exe)] = ab(st)
        exp_seen = []
        for exe, st in mounted.items():
            nm = os.path.basename(os.path.dirname(st))
            if "sandbox" in d and st == ab(d["sandbox"]["root"]) and not exe.startswith("/bob/") and not exe.startswith(pd):
                continue
            mk = "marker-" + nm.replace(" ", "_").replace("'", "_")
            if exe.startswith(pd + "/ws/") or exe.startswith("/bob/"):
                exp_seen.append(os.path.join(exe, mk))
        if "sandbox" in d:
            exp_seen.append("/marker-image")
        exp_seen = sorted(set(exp_seen))
        own = ab(d["workspace"][1])
        exp_wrote = {own, "/tmp"}
        if "sandbox" in d:
            exp_wrote.add("/rwmnt")
        else:
            exp_wrote |= {pd, os.path.join(pd, "ws")}       # the private whiteout directory (and mount-point parents in it)
        # mount point parents created inside the whiteout / tmpfs are writable private directories too
        wrote_rel = [w_ for w_ in wrote if w_ not in exp_wrote]
        # ("/" is the private temporary sandbox root directory in both sandbox kinds)
        bad_writes = [w_ for w_ in wrote_rel if w_ in mounted or w_ == "/usr" or
                      any(w_ == os.path.join(pd, "ws", nm, "workspace") for nm in job["names"])]
        # a non-mounted workspace path may exist as an empty private directory (parent of nothing) -> not writable host data
        if seen != exp_seen:
            extra = [x for x in seen if x not in exp_seen]
            sig = "undeclared-workspace-visible" if extra else "declared-dependency-not-visible"
            ctx.violation(sig + ":" + job["kind"], "sandbox shows %r, declared dependencies are %r" % (seen, exp_seen), {"kind": "sandbox-spec", "job": job})
        if bad_writes or own not in wrote:
            ctx.violation(("dependency-writable:" if bad_writes else "own-workspace-not-writable:") + job["kind"],
                          "writes succeeded in %r (own workspace %s)" % (wrote, own), {"kind": "sandbox-spec", "job": job})
        # writes into mounted dependencies must not have reached the host
        for exe, st in mounted.items():
            if os.path.exists(os.path.join(st, "intruder")):
                ctx.violation("dependency-modified:" + job["kind"], "file created in dependency %s" % st, {"kind": "sandbox-spec", "job": job})
        if os.path.exists(os.path.join(pd, "ws", "outsider", "workspace", "intruder")):
            ctx.violation("outsider-modified:" + job["kind"], "file created in a workspace that is not a dependency", {"kind": "sandbox-spec", "job": job})
        ctx.nontrivial(("sb", job["kind"], tuple(job["used"]), d["envFile"], d["netAccess"], d.get("sandbox", {}).get("user")))
        # ---- kernel state vs. the helper command line
        plan = parse_helper_mounts(argv)
        tab = mountinfo_table(r.get("mountinfo.txt", ""))
        for src, tgt, rw in plan:
            got = tab.get(tgt if tgt != "/" else "/")
            if got is None or (got == "rw") != rw:
                ctx.tie_broken("mount-table-vs-kernel", {"mount": [src, tgt, rw], "mountinfo": got, "kind": job["kind"]})
                break
        # ---- model: command line and mount table
        if "-S" in argv:
            sarg = argv[argv.index("-S") + 1]
            wtmp = sarg if "sandbox" in d else os.path.dirname(sarg)
        else:
            wtmp = ""
        k = argv.index("--") if "--" in argv else len(argv)
        wl = ("{| w_cwd := %s; w_tmp := %s; w_root_entries := %s; w_image_entries := %s; w_exists := %s; w_helper := %s; "
              "w_subst := fun x => if eqb_str x %s then %s else x |}") % (
            L.s(pd), L.s(wtmp), coq_strs(r["root_entries"]), coq_strs(r.get("image_entries", [])),
            coq_strs([os.path.join(pd, "rwdir") if "rwdir" in h else h for h in r.get("host_exists", [])]), L.s(argv[0]),
            L.s(proj.lit(os.path.join(pd, "rwdir"))), L.s(os.path.join(pd, "rwdir")))
        mounts = "(%s : list mount)" % L.lst(["(mk_mount %s %s %s)" % (L.s(a), L.s(b), L.B(c)) for a, b, c in plan])
        cases.append(("(%s, %s)" % (wl, coq_spec(d)), "(%s, %s)" % (coq_strs(argv[:k + 1]), mounts)))
        meta.append(job)
        # the interpreter call and the environment inside the sandbox (same comparison as part B)
    ctx.sample({"sandbox-spec": {"kind": jobs[0]["kind"], "depMounts": jobs[0]["spec"]["depMounts"]}})
    t0 = tick(ctx, "d:oracle", t0)
    bad, log = coq.run_cases(ctx, REQ, "dmodel", "dok", cases, preamble=PRE_D, tag="dsb", shard=10)
    if bad is None:
        ctx.tie_broken("C13 sandbox model evaluation failed", log)
    else:
        ctx.validated(len(cases) - len(bad))
        if bad:
            vals, _ = coq.eval_terms(ctx, REQ, ["dmodel %s" % cases[bad[0]][0]], preamble=PRE_D)
        for n_, i in enumerate(bad[:3]):
            ctx.tie_broken("sandbox-command-line-correspondence", {"kind": meta[i]["kind"], "spec": meta[i]["spec"],
                                                                   "model": (vals[0][:3000] if vals and n_ == 0 else "")})
    tick(ctx, "d:coq", t0)



# ================================================================== recipe level (part C / D2): real `bob dev`
LABELS = {"checkout": "src", "build": "build", "package": "dist"}
DEFAULT_WL = ["PATH", "TERM", "SHELL", "USER", "HOME"]      # compared with what the implementation computes


def step_script(pkg, kind, projdir, fp=False):
    """dump script of one step: marker first, then environment, arguments (with the markers found in each
    argument) and the sandbox probe over every workspace of the project"""
    lab = LABELS[kind]
    q = "'" + projdir.replace("'", "'\"'\"'") + "'"
    return r"""
: > marker-%(pkg)s-%(lab)s
env -0 > env.bin
for a in "$@"; do printf '%%s\0' "$a"; done > args.bin
shopt -s nullglob dotglob
for a in "$@"; do m=("$a"/marker-*); printf '%%s\0' "${m[*]##*/}"; done > argmarkers.bin
: > seen.bin ; : > wrote.bin
for d in %(q)s/dev/*/*/*/workspace /bob/*/workspace ; do
  for m in "$d"/marker-* ; do printf '%%s\0' "${m##*/}" >> seen.bin ; done
  if [[ ! $d -ef $PWD ]] && { : > "$d/intruder-%(pkg)s-%(lab)s" ; } 2>/dev/null ; then printf '%%s\0' "$d" >> wrote.bin ; fi
done
for m in /marker-* ; do printf 'ROOT:%%s\0' "${m##*/}" >> seen.bin ; done
if { : > %(q)s/intruder-top-%(pkg)s-%(lab)s ; } 2>/dev/null ; then printf 'PROJECT\0' >> wrote.bin ; fi
for t in "${BOB_TOOL_PATHS[@]}" ; do if { : > "$t/intruder-tool" ; } 2>/dev/null ; then printf 'TOOL:%%s\0' "$t" >> wrote.bin ; fi ; done
shopt -u nullglob dotglob
""" % {"pkg": pkg, "lab": lab, "q": q}


def gen_recipe_project(rng, projdir, sandbox):
    """returns (desc, info).  info holds everything the oracle needs (independently of Bob)."""
    def val():
        while True:
            v = gen_value(rng, 8)
            if "\x00" not in v and len(v) < 80:
                return v
    genv = {"G1": val(), "G2": val()}
    defines = {"DEF1": val()} if rng.random() < 0.6 else {}
    if rng.random() < 0.4:
        defines["G2"] = val()             # -D overrides default.yaml
    cb_env = {"CB": val()}
    envs = {"root": {"R1": val(), "R2": val(), "R3": val()}, "lib1": {"L1": val()}, "lib2": {"L2": val()}, "tl": {}, "sb": {},
            "outsider": {"O1": val()}}
    priv = {"root": {"RP": val()}, "lib1": {"LP": val()}, "lib2": {}, "tl": {}, "sb": {}, "outsider": {}}
    dep_env = {"lib2": {"DV": val()}}
    toolvar = val()
    sbvar = val()
    universe = ["G1", "G2", "DEF1", "CB", "R1", "R2", "R3", "RP", "L1", "L2", "LP", "DV", "O1", "TOOLVAR", "SBVAR", "UNDEF1",
                "WLA", "SECRET1", "BOB_RECIPE_NAME", "BOB_PACKAGE_NAME"]

    def subset(p):
        return sorted(n for n in universe if rng.random() < p)
    cls_vars = {"checkoutVars": subset(0.1), "buildVars": subset(0.12), "packageVarsWeak": subset(0.1)}
    recipes = {}
    vars_of = {}
    pkgs = ["root", "lib1", "lib2", "tl", "outsider"] + (["sb"] if sandbox else [])
    has_checkout = {p: (p in ("root", "lib1") or rng.random() < 0.3) for p in pkgs}
    for pk in pkgs:
        r = {}
        v = {"checkoutVars": subset(0.18), "checkoutVarsWeak": subset(0.08), "buildVars": subset(0.25), "buildVarsWeak": subset(0.1),
             "packageVars": subset(0.2), "packageVarsWeak": subset(0.1)}
        if not has_checkout[pk]:
            v["checkoutVars"] = []; v["checkoutVarsWeak"] = []
        vars_of[pk] = v
        r.update({k: x for k, x in v.items() if x or rng.random() < 0.5})
        if envs[pk]:
            r["environment"] = {k: proj.lit(x) for k, x in envs[pk].items()}
        if priv[pk]:
            r["privateEnvironment"] = {k: proj.lit(x) for k, x in priv[pk].items()}
        if has_checkout[pk]:
            r["checkoutDeterministic"] = True
            r["checkoutScript"] = step_script(pk, "checkout", projdir)
        r["buildScript"] = step_script(pk, "build", projdir)
        r["packageScript"] = step_script(pk, "package", projdir)
        recipes[pk] = r
    recipes["root"]["root"] = True
    recipes["outsider"]["root"] = True
    recipes["root"]["inherit"] = ["cbase"]
    deps = []
    if sandbox:
        deps.append({"name": "sb", "use": ["sandbox"], "forward": True})
    deps += ["lib1", {"name": "lib2", "environment": {k: proj.lit(x) for k, x in dep_env["lib2"].items()}}, {"name": "tl", "use": ["tools"]}]
    recipes["root"]["depends"] = deps
    tool_step = rng.choice(["buildTools", "packageTools", "checkoutTools"])
    recipes["root"][tool_step] = ["tool1"]
    recipes["tl"]["provideTools"] = {"tool1": {"path": rng.choice(["bin", ".", "b in"]), "libs": ["lib"], "environment": {"TOOLVAR": proj.lit(toolvar)}}}
    recipes["tl"]["packageScript"] += "mkdir -p bin lib 'b in'\n"
    if sandbox:
        recipes["sb"]["provideSandbox"] = {"paths": ["/usr/local/bin", "/usr/bin", "/bin"], "mount": SB_MOUNTS,
                                           "environment": {"SBVAR": proj.lit(sbvar)}}
    fp = None
    if not sandbox and rng.random() < 0.8:
        fpvars = sorted(n for n in ["R1", "R2", "G1", "RP", "UNDEF1", "CB"] if rng.random() < 0.4)
        q = "'" + projdir.replace("'", "'\"'\"'") + "'"
        recipes["root"]["fingerprintScript"] = "{ env -0 ; printf '@@END@@\\0' ; } >> %s/fp-root.bin\necho fingerprint\n" % q
        recipes["root"]["fingerprintIf"] = True
        recipes["root"]["fingerprintVars"] = fpvars
        fp = fpvars
    wl = ["WLA", "WLB"]
    wl_remove = rng.choice([[], ["WLB"], ["TERM"], ["WLB", "USER"]])
    default = {"environment": {k: proj.lit(x) for k, x in genv.items()}, "whitelist": wl}
    if wl_remove:
        default["whitelistRemove"] = wl_remove
    desc = {"recipes": recipes, "classes": {"cbase": dict(cls_vars, environment={k: proj.lit(x) for k, x in cb_env.items()})},
            "config": {"bobMinimumVersion": "0.25"}, "default": default}
    info = {"genv": genv, "defines": defines, "cb_env": cb_env, "envs": envs, "priv": priv, "dep_env": dep_env, "toolvar": toolvar,
            "sbvar": sbvar, "vars_of": vars_of, "cls_vars": cls_vars, "pkgs": pkgs, "has_checkout": has_checkout, "tool_step": tool_step,
            "wl": wl, "wl_remove": wl_remove, "fp": fp, "sandbox": sandbox}
    return desc, info


def oracle_full_env(info, pk, sandbox_enabled):
    """the environment the recipes compute for package pk (before pruning), by the documented rules:
    default.yaml < -D < inherited from the parent < classes < recipe < tools < privateEnvironment; + BOB_* names"""
    e = dict(info["genv"])
    e.update(info["defines"])
    if pk in ("root", "lib1", "lib2", "tl", "sb"):
        e.update(info["cb_env"])
        e.update(info["envs"]["root"])          # `environment` is passed on to the dependencies
    if pk != "root":
        if pk == "lib2":
            e.update(info["dep_env"]["lib2"])
        e.update(info["envs"][pk])
    if sandbox_enabled and info["sandbox"] and pk in ("root", "lib1", "lib2", "tl"):
        e["SBVAR"] = info["sbvar"]
    if pk == "root":
        e["TOOLVAR"] = info["toolvar"]
    e.update(info["priv"][pk])
    e["BOB_RECIPE_NAME"] = pk
    e["BOB_PACKAGE_NAME"] = pk
    return e


def oracle_vars(info, pk, kind):
    """declared (strong + weak) variable names of a step, chain checkout <= build <= package, recipe + classes"""
    srcs = [info["vars_of"][pk]] + ([info["cls_vars"]] if pk == "root" else [])
    chain = {"checkout": ["checkout"], "build": ["checkout", "build"], "package": ["checkout", "build", "package"]}[kind]
    names = set()
    for sv in srcs:
        for c in chain:
            names |= set(sv.get(c + "Vars", [])) | set(sv.get(c + "VarsWeak", []))
    return names


def coq_recipe_vars(sv):
    g = lambda k: coq_strs(sv.get(k, []))
    return ("{| rv_checkout := %s; rv_checkout_weak := %s; rv_build := %s; rv_build_weak := %s; rv_package := %s; "
            "rv_package_weak := %s |}") % (g("checkoutVars"), g("checkoutVarsWeak"), g("buildVars"), g("buildVarsWeak"),
                                           g("packageVars"), g("packageVarsWeak"))


PRE_C = PRE_B_MARK = None      # filled below (needs PRE_B)


def run_bob_stdin(pd, args, host, stdin, timeout=1500):
    try:
        r = subprocess.run(["/venv/bin/python", os.path.join(core.REPO, "bob")] + list(args), cwd=pd, env=host, stdin=stdin,
                           stdout=subprocess.PIPE, stderr=subprocess.STDOUT, timeout=timeout, text=True)
        return r.returncode, r.stdout
    except subprocess.TimeoutExpired:
        return 124, "timeout"


def run_project(tmp, idx, desc, info, mode_args, host_extra, cli):
    pd = os.path.join(tmp, "rp%d we'ird" % idx)
    os.makedirs(pd, exist_ok=True)
    proj.write_project(desc, pd)
    host = proj.bob_env(host_extra)
    args = ["dev", "root", "outsider", "-j", "1", "--no-audit", "--no-logfiles"] + mode_args + cli
    for k, v in info["defines"].items():
        args.append("-D%s=%s" % (k, v))
    rc, out = run_bob_stdin(pd, args, host, subprocess.DEVNULL)
    return pd, host, rc, out


SB_MOUNTS = ["/bin", "/etc", "/lib", "/usr", ["/lib32", "/lib32", ["nofail"]], ["/lib64", "/lib64", ["nofail"]]]
SIG_BASHRC = "fingerprint-env-leak:bashrc-via-socket-stdin"


def probe_fingerprint_startup_files(ctx, tmp):
    """fingerprint scripts must not depend on the invoking user's bash start-up files: run one build with a
    socket as standard input (as under `ssh host bob ...` without tty) and a HOME whose .bashrc exports a variable"""
    import socket
    pd = os.path.join(tmp, "fp-sock")
    home = os.path.join(tmp, "fp-home")
    os.makedirs(home)
    open(os.path.join(home, ".bashrc"), "w").write("export BASHRC_LEAK=from-bashrc\n")
    q = "'" + pd + "'"
    dump = "env -0 > %s/%%s.bin\n" % q
    desc = {"recipes": {"root": {"root": True, "buildScript": dump % "build", "packageScript": dump % "package",
                                 "checkoutDeterministic": True, "checkoutScript": dump % "checkout",
                                 "fingerprintIf": True, "fingerprintScript": dump % "fp" + "echo fp\n"}},
            "classes": {}, "config": {"bobMinimumVersion": "0.25"}, "default": {}}
    os.makedirs(pd)
    proj.write_project(desc, pd)
    a, b = socket.socketpair()
    try:
        rc, out = run_bob_stdin(pd, ["dev", "root", "--no-audit", "--no-logfiles"], proj.bob_env({"HOME": home}), a.fileno())
    finally:
        a.close(); b.close()
    ctx.evaluated()
    replay = {"kind": "fingerprint-stdin-socket", "desc": desc}
    if rc != 0:
        ctx.violation("build-of-valid-project-failed", "bob dev with a socket as stdin returned %d: %s" % (rc, out[-400:]), replay)
        return
    for nm in ("checkout", "build", "package", "fp"):
        f = os.path.join(pd, nm + ".bin")
        if not os.path.exists(f):
            ctx.violation("step-did-not-dump", "%s script did not run" % nm, replay)
            continue
        seen = dict(x.split("=", 1) for x in parse_nul(open(f, "rb").read().decode("utf-8", "surrogateescape")) if "=" in x)
        ctx.count("stdin-socket:" + nm)
        if "BASHRC_LEAK" in seen:
            ctx.violation(SIG_BASHRC if nm == "fp" else "step-env-leak:bashrc-via-socket-stdin",
                          "%s script sees BASHRC_LEAK=%r set only in ~/.bashrc (stdin of bob is a socket)" % (nm, seen["BASHRC_LEAK"]), replay)
    ctx.nontrivial("fp-stdin-socket")



def probe_reinstantiated_recipe(ctx, tmp, replay_case=None):
    """one recipe reached several times in one graph calculation: first with a declared variable unset, later with
    the variable set by the parent (depends[].environment), in either order. Every instance must run with exactly
    what its own path declares (seed C13-3: a package instance reused across paths ran without the variable)."""
    rng = ctx.rng
    if replay_case is not None:
        c = replay_case
    else:
        c = {"kind": "reinstantiated-recipe", "v1": "val-" + gen_value(rng, 6).replace("\x00", "").replace("\n", " "),
             "v2": "other " + gen_value(rng, 4).replace("\x00", "").replace("\n", " "),
             "where": rng.choice(["buildVars", "packageVars", "checkoutVars"]),
             "order": rng.choice([["a", "b", "c"], ["b", "a", "c"], ["c", "a", "b"], ["a", "c", "b"]]),
             "default": rng.random() < 0.3}
    pd = os.path.join(tmp, "reinst")
    shutil.rmtree(pd, ignore_errors=True)
    dump = 'env -0 > env-%s.bin\n'
    shr = {c["where"]: ["SV"], "buildScript": dump % "build", "packageScript": dump % "package"}
    if c["where"] == "checkoutVars":
        shr["checkoutDeterministic"] = True
        shr["checkoutScript"] = dump % "checkout"
    mk = lambda nm, env: {"depends": [{"name": "shr", "environment": env} if env else "shr"], "buildScript": "true\n", "packageScript": "true\n"}
    recipes = {"top": {"root": True, "depends": list(c["order"]), "buildScript": "true\n", "packageScript": "true\n"},
               "a": mk("a", None), "b": mk("b", {"SV": proj.lit(c["v1"])}), "c": mk("c", {"SV": proj.lit(c["v2"])}), "shr": shr}
    default = {"environment": {"SV": "from-default"}} if c["default"] else {}
    desc = {"recipes": recipes, "classes": {}, "config": {"bobMinimumVersion": "0.25"}, "default": default}
    os.makedirs(pd)
    proj.write_project(desc, pd)
    rc, out = run_bob_stdin(pd, ["dev", "top", "-j", "1", "--no-audit", "--no-logfiles"], proj.bob_env({}), subprocess.DEVNULL)
    ctx.evaluated()
    replay = dict(c, desc=desc)
    if rc != 0:
        ctx.violation("build-of-valid-project-failed", "bob dev top returned %d: %s" % (rc, out[-400:]), replay)
        return
    exp = {"a": "from-default" if c["default"] else None, "b": c["v1"], "c": c["v2"]}
    kinds = {"checkoutVars": [("src", "checkout"), ("build", "build"), ("dist", "package")],
             "buildVars": [("build", "build"), ("dist", "package")], "packageVars": [("dist", "package")]}[c["where"]]
    for via, want in sorted(exp.items()):
        for lab, kd in kinds:
            rc, out = run_bob_stdin(pd, ["query-path", "-f", "{%s}" % lab, "top/%s/shr" % via], proj.bob_env({}), subprocess.DEVNULL)
            ws = out.strip().split("\n")[-1] if rc == 0 else ""
            f = os.path.join(pd, ws, "env-%s.bin" % kd)
            ctx.count("reinstantiated-recipe:%s:%s" % (c["where"], kd))
            if rc != 0 or not ws or not os.path.exists(f):
                ctx.violation("step-did-not-dump", "top/%s/shr %s: no dump (%s)" % (via, kd, out[-200:]), replay)
                continue
            seen = dict(x.split("=", 1) for x in parse_nul(open(f, "rb").read().decode("utf-8", "surrogateescape")) if "=" in x)
            if seen.get("SV") != want:
                ctx.violation("declared-variable-missing-in-step-env" if want is not None and "SV" not in seen else
                              ("undeclared-variable-in-step-env" if want is None else "declared-value-differs-in-step-env"),
                              "top/%s/shr %s step (recipe instantiated on three paths, order %r): SV arrives as %r, this path declares %r"
                              % (via, kd, c["order"], seen.get("SV"), want), replay)
    ctx.nontrivial(("reinstantiated-recipe", c["where"], tuple(c["order"]), c["default"]))


def part_c(ctx, tmp):
    rng = ctx.rng
    t0 = _time.time()
    runs = []
    n_plain = ctx.n(2, 30)
    n_sb = ctx.n(1, 6)
    for i in range(n_plain):
        runs.append(("plain", [], rng.choice([[], ["-e", "WLC"], ["-E"], ["-e", "WLC", "-e", "SECRET-DASH"]]) if i != 1 else ["-E"]))
    for i in range(n_sb):
        for m in ["--sandbox", "--slim-sandbox", "--dev-sandbox", "--strict-sandbox"]:
            runs.append(("sandbox", [m], rng.choice([[], ["-e", "WLC"]])))
    prepared = []
    for idx, (kind, mode_args, cli) in enumerate(runs):
        pd = os.path.join(tmp, "rp%d we'ird" % idx)
        desc, info = gen_recipe_project(rng, pd, kind == "sandbox")
        hx = {"WLA": gen_value(rng).replace("\x00", ""), "WLB": gen_value(rng).replace("\x00", ""), "WLC": gen_value(rng).replace("\x00", ""),
              "SECRET1": "s3cret " + gen_value(rng).replace("\x00", ""), "SECRET-DASH": "x", "R1": "host value of a recipe variable",
              "UNDEF1": "host value of an undefined variable", "USER": "bobv", "SHELL": "/bin/sh"}
        prepared.append((idx, kind, mode_args, cli, desc, info, hx))
    with ThreadPoolExecutor(max_workers=NPAR) as ex:
        results = list(ex.map(lambda a: run_project(tmp, a[0], a[4], a[5], a[2], a[6], a[3]), prepared))
    t0 = tick(ctx, "c:bob-dev", t0)
    cases, meta, pcases, pmeta, mcases, mmeta, fcases, fmeta = [], [], [], [], [], [], [], []
    hostdefs = ["Definition dpath0 : str := %s.\n" % L.s(bash_default_path())]
    for (idx, kind, mode_args, cli, desc, info, hx), (pd, host, rc, out) in zip(prepared, results):
        ctx.count("project:" + (mode_args[0] if mode_args else "no-sandbox") + ("" if not cli else ":" + cli[0]))
        replay = {"kind": "project", "desc": desc, "info": info, "mode": mode_args, "cli": cli, "host": hx}
        if rc != 0:
            ctx.violation("build-of-valid-project-failed", "bob dev %s returned %d: %s" % (mode_args + cli, rc, out[-700:]), replay)
            continue
        preserve = "-E" in cli
        hostdefs.append("Definition host%d : envmap := %s.\nDefinition pd%d : str := %s.\n" % (idx, coq_envmap(host), idx, L.s(pd)))
        mode = mode_args[0] if mode_args else None
        sandbox_enabled = mode in ("--sandbox", "--dev-sandbox", "--strict-sandbox")
        exp_wl = sorted((set(DEFAULT_WL) | set(info["wl"])) - set(info["wl_remove"]) | {cli[i + 1] for i in range(len(cli)) if cli[i] == "-e"})
        specs = {}
        for pk in info["pkgs"]:
            for kd, lab in LABELS.items():
                sp = os.path.join(pd, "dev", lab, pk, "1", "step.spec")
                if os.path.exists(sp):
                    specs[(pk, kd)] = json.load(open(sp))
        for (pk, kd), spec in sorted(specs.items()):
            ws = os.path.join(pd, spec["workspace"][0])
            ctx.evaluated()
            ctx.count("step:" + kd)
            rd = lambda nm: open(os.path.join(ws, nm), "rb").read().decode("utf-8", "surrogateescape") if os.path.exists(os.path.join(ws, nm)) else None
            envb = rd("env.bin")
            if envb is None:
                ctx.violation("step-did-not-dump", "%s/%s has no dump" % (pk, kd), replay)
                continue
            seen = dict(x.split("=", 1) for x in parse_nul(envb) if "=" in x)
            sandboxed = spec["slimSandbox"] or "sandbox" in spec
            # ---- recipe-level oracle: declared variables with exact values, whitelist
            full = oracle_full_env(info, pk, sandbox_enabled)
            names = oracle_vars(info, pk, kd)
            exp_decl = {k: full[k] for k in names if k in full}
            where = "%s/%s (%s %s)" % (pk, kd, " ".join(mode_args), " ".join(cli))
            if spec["env"] != exp_decl:
                extra = sorted(set(spec["env"]) - set(exp_decl)); missing = sorted(set(exp_decl) - set(spec["env"]))
                sig = "undeclared-variable-in-step-env" if extra else ("declared-variable-missing-in-step-env" if missing else "declared-value-differs-in-step-env")
                ctx.violation(sig, "%s: step environment %r, recipes declare %r" % (where, spec["env"], exp_decl), replay)
            if spec["envWhiteList"] != exp_wl:
                ctx.violation("whitelist-differs", "%s: whitelist %r, configured %r" % (where, spec["envWhiteList"], exp_wl), replay)
            # ---- what the script saw (same oracle as on spec level, on the real step.spec)
            job = {"dir": pd, "spec": spec, "host": host, "preserve": preserve, "trace": False}
            exp = oracle_env(job)
            if "sandbox" in spec:
                exp["HOME"] = seen.get("HOME", "")          # set by the sandbox helper from the image's passwd
            sig, what = classify_env_failure(job, seen, exp)
            if sig is not None:
                ctx.violation(sig, where + ": " + what, replay)
            for k, v in exp_decl.items():
                if k not in ("PATH", "LD_LIBRARY_PATH", "BOB_CWD") and seen.get(k) != v:
                    ctx.violation("declared-value-not-exact", "%s: %s=%r arrives as %r" % (where, k, v, seen.get(k)), replay)
            leaked = [k for k in seen if k in ("SECRET1", "SECRET-DASH", "PYTHONPATH", "BOB_VERIF") and not preserve and k not in exp_wl]
            if leaked:
                ctx.violation("undeclared-variable-visible", "%s: host variables %r leaked" % (where, leaked), replay)
            if any(any(c in v for c in "'\"$\\`\n *?") or any(ord(c) > 127 for c in v) for v in exp_decl.values()):
                ctx.nontrivial(("step", idx, pk, kd))
            # ---- arguments in declared order (markers identify the packages)
            argm = parse_nul(rd("argmarkers.bin") or "")
            if kd == "checkout":
                exp_args = []
            elif kd == "build":
                exp_args = ["marker-%s-src" % pk if info["has_checkout"][pk] else ""]
                if pk == "root":
                    exp_args += ["marker-lib1-dist", "marker-lib2-dist"]
            else:
                exp_args = ["marker-%s-build" % pk]
            if argm != exp_args:
                ctx.violation("arguments-differ", "%s: arguments hold %r, declared order %r" % (where, argm, exp_args), replay)
            # ---- sandbox: visible workspaces, writes
            if sandboxed:
                ctx.count("sandboxed-step:" + mode)
                vis = sorted(set(x for x in parse_nul(rd("seen.bin") or "")))
                own = ["marker-%s-%s" % (pk, LABELS[k2]) for k2 in ("checkout", "build", "package")
                       if (k2 != "checkout" or info["has_checkout"][pk]) and list(LABELS).index(k2) <= list(LABELS).index(kd)]
                expv = set(own)
                if pk == "root" and kd == "build":
                    expv |= {"marker-lib1-dist", "marker-lib2-dist"}
                if pk == "root" and list(LABELS).index(info["tool_step"][:-5]) <= list(LABELS).index(kd):
                    expv.add("marker-tl-dist")          # tools of an earlier step are available to the later ones
                if "sandbox" in spec:
                    expv |= {"marker-sb-dist", "ROOT:marker-sb-dist"}
                if vis != sorted(expv):
                    extra = sorted(set(vis) - expv)
                    ctx.violation(("undeclared-workspace-visible:" if extra else "declared-dependency-not-visible:") + mode,
                                  "%s: sandbox shows %r, declared %r" % (where, vis, sorted(expv)), replay)
                wrote = [w_ for w_ in parse_nul(rd("wrote.bin") or "")]
                badw = [w_ for w_ in wrote if w_.startswith("TOOL:") or w_.startswith("/bob/") or (w_ == "PROJECT" and "sandbox" in spec and False)]
                if badw:
                    ctx.violation("dependency-writable:" + mode, "%s: writes succeeded in %r" % (where, badw), replay)
                ctx.nontrivial(("sbstep", idx, pk, kd, mode))
            # ---- model cases
            lit = "(dpath0, %s, pd%d, %s, host%d, false)" % (L.B(preserve), idx, coq_spec(spec), idx)
            drop = INTRINSIC | ({"HOME"} if "sandbox" in spec else set())
            seen_sorted = sorted((k, v) for k, v in seen.items() if k not in drop)
            script = open(os.path.join(pd, spec["scriptHint"]), encoding="utf-8", errors="surrogateescape", newline="").read()
            cases.append((lit, "(%s, %s, %s)" % (coq_envmap(seen_sorted), L.s(env_section(script) or ""), L.B("sandbox" in spec))))
            meta.append({"where": where, "env": spec["env"]})
            rs = [info["vars_of"][pk]] + ([info["cls_vars"]] if pk == "root" else [])
            pcases.append(("(%s, %s, %s)" % (coq_envmap(sorted(full.items())), L.lst([coq_recipe_vars(x) for x in rs]),
                                             {"checkout": "KCheckout", "build": "KBuild", "package": "KPackage"}[kd]),
                           coq_envmap(sorted(spec["env"].items()))))
            pmeta.append(where)
            # ---- depMounts of StepSpec.fromStep vs dep_mounts
            def stp(p_, k_):
                s_ = specs.get((p_, k_))
                if s_ is None:
                    return None
                return s_["workspace"][0]
            def exec_of(storage):
                for st_, ex_ in spec["depMounts"]:
                    if st_ == storage:
                        return ex_
                return storage
            def dep(p_, k_, valid=True):
                st_ = stp(p_, k_)
                if st_ is None:
                    return "{| d_valid := false; d_storage := [47]; d_exec := [47] |}"
                return "{| d_valid := true; d_storage := %s; d_exec := %s |}" % (L.s(st_), L.s(exec_of(st_)))
            def stepT(p_, k_):
                st_ = stp(p_, k_)
                if st_ is None:
                    return "(SNoArg false %s [47] [47])" % L.B(k_ == "checkout")
                if k_ == "checkout":
                    return "(SNoArg true true %s %s)" % (L.s(st_), L.s(exec_of(st_)))
                others = []
                if k_ == "build" and p_ == "root":
                    others = [dep("lib1", "package"), dep("lib2", "package")]
                prev = "checkout" if k_ == "build" else "build"
                return "(SArg true false %s %s %s %s)" % (L.s(st_), L.s(exec_of(st_)), stepT(p_, prev), "(%s : list dep)" % L.lst(others))
            ts = []
            if pk == "root" and list(LABELS).index(info["tool_step"][:-5]) <= list(LABELS).index(kd):
                ts.append(dep("tl", "package"))
            if "sandbox" in spec or (sandbox_enabled and info["sandbox"] and pk in ("root", "lib1", "lib2", "tl") and
                                     any(st_.startswith("dev/dist/sb/") for st_, _ in spec["depMounts"])):
                ts.append(dep("sb", "package"))
            mcases.append(("(%s, %s)" % (stepT(pk, kd), "(%s : list dep)" % L.lst(ts)),
                           "(%s : list (str * str))" % L.lst([L.pair(L.s(a_), L.s(b_)) for a_, b_ in spec["depMounts"]])))
            mmeta.append({"where": where, "depMounts": spec["depMounts"]})
        # ---- nothing was written into other workspaces / the project directory from inside a sandbox
        if mode is not None:
            intr = glob.glob(os.path.join(glob.escape(pd), "dev", "*", "*", "*", "workspace", "intruder-*")) + glob.glob(os.path.join(glob.escape(pd), "intruder-*"))
            # writes of un-sandboxed steps (mode --sandbox: packages without sandbox image) are legitimate
            for f in intr:
                who = os.path.basename(f)[len("intruder-"):].replace("top-", "")
                wp, wl_ = who.rsplit("-", 1)
                wk = [k_ for k_, l_ in LABELS.items() if l_ == wl_][0]
                wspec = specs.get((wp, wk))
                if wspec is not None and (wspec["slimSandbox"] or "sandbox" in wspec):
                    ctx.violation("sandboxed-step-wrote-outside-workspace:" + mode, "%s created by sandboxed step %s" % (f[len(pd):], who), replay)
                    break
        # ---- fingerprint script environment
        if info["fp"] is not None:
            fpf = os.path.join(pd, "fp-root.bin")
            ctx.evaluated()
            if not os.path.exists(fpf):
                ctx.violation("fingerprint-script-did-not-run", "no fingerprint dump", replay)
            else:
                # the script is executed once per fingerprinted step whose script text differs (build, package)
                blocks = open(fpf, "rb").read().decode("utf-8", "surrogateescape").split("@@END@@\0")[:-1]
                full = oracle_full_env(info, "root", False)
                exps = {}
                for kd in ("build", "package"):
                    st_env = {k: full[k] for k in oracle_vars(info, "root", kd) if k in full}
                    e_ = {k: v for k, v in host.items() if preserve or k in exp_wl}
                    e_.update({k: st_env[k] for k in info["fp"] if k in st_env})
                    exps[kd] = e_
                ctx.count("fingerprint:executions=%d" % len(blocks))
                for blk in blocks:
                    fseen = dict(x.split("=", 1) for x in parse_nul(blk) if "=" in x)
                    got = {k: v for k, v in fseen.items() if k not in INTRINSIC and k != "BOB_CWD"}
                    which = [kd for kd in ("package", "build") if exps[kd] == got]
                    if not which:
                        extra = sorted(set(got) - set(exps["package"]))
                        ctx.violation("fingerprint-env-" + ("leak" if extra else "differs"),
                                      "fingerprint script saw %r, expected %r (package step) or %r (build step)" % (got, exps["package"], exps["build"]), replay)
                    ctx.nontrivial(("fp", idx, tuple(sorted(got))))
                    # model: fingerprint_env on the environment of the step the script belongs to
                    spk = specs.get(("root", which[0] if which else "package"))
                    if spk is not None and "BOB_CWD" in fseen:
                        fl = "(%s, %s, host%d, %s, %s, %s)" % (L.B(preserve), coq_spec(spk), idx, L.s(fseen["BOB_CWD"]),
                                                       coq_envmap(sorted(spk["env"].items())), coq_strs(info["fp"]))
                        fcases.append((fl, coq_envmap(sorted((k, v) for k, v in fseen.items() if k not in INTRINSIC))))
                        fmeta.append({"seen": fseen, "fpvars": info["fp"]})
    ctx.sample({"project-step": meta[0] if meta else None})
    t0 = tick(ctx, "c:oracle", t0)
    groups = [("step-spec", "cmodel", "cok", cases, meta), ("prune", "pmodel", "env_eqb", pcases, pmeta),
              ("dep-mounts", "mmodel", "mok", mcases, mmeta), ("fingerprint-env", "fmodel", "fok", fcases, fmeta)]
    with ThreadPoolExecutor(max_workers=2) as ex:
        outs = list(ex.map(lambda g: coq.run_cases(ctx, REQ, g[1], g[2], g[3], preamble=PRE_B + PRE_C2 + "".join(hostdefs),
                                                   tag="c" + g[0][:3], shard=30), groups))
    for (nm, fn, eqb, cs, mt), (bad, log) in zip(groups, outs):
        if bad is None:
            ctx.tie_broken("C13 %s model evaluation failed" % nm, log)
            continue
        ctx.validated(len(cs) - len(bad))
        if bad:
            vals, _ = coq.eval_terms(ctx, REQ, ["%s %s" % (fn, cs[bad[0]][0])], preamble=PRE_B + PRE_C2 + "".join(hostdefs))
        for n_, i in enumerate(bad[:3]):
            ctx.tie_broken(nm + "-correspondence", {"case": mt[i], "model": (vals[0][:2500] if vals and n_ == 0 else "")})
    tick(ctx, "c:coq", t0)


PRE_C2 = """
Definition cmodel (i : str * bool * str * spec * envmap * bool) :=
  let '(dpath, pres, cwd, sp, environ, trace) := i in
  (match script_env dpath pres cwd sp environ with Some e => Some (sort_kv (drop_intrinsic e)) | None => None end,
   render_exports (prolog_exports cwd sp)).
Definition drop_home (e : envmap) : envmap := filter (fun kv => negb (eqb_str (fst kv) [72;79;77;69])) e.
Definition cok (m : option envmap * str) (o : envmap * str * bool) : bool :=
  let '(oe, ot, fat) := o in
  match fst m with Some e => env_eqb (if fat then drop_home e else e) oe | None => false end && eqb_str (snd m) ot.
Definition pmodel (i : envmap * list recipe_vars * kind) : envmap := let '(full, rs, k) := i in sort_kv (step_env full rs k).
Definition mmodel (i : stepT * list dep) : list (str * str) := dep_mounts (fst i) (snd i).
Definition mok (a b : list (str * str)) : bool := eqb_list (eqb_prod eqb_str eqb_str) a b.
Definition fmodel (i : bool * spec * envmap * str * envmap * list str) : option envmap :=
  let '(pres, sp, environ, fpcwd, stepenv, varset) := i in
  match fingerprint_env pres sp environ fpcwd stepenv varset with Some e => Some (sort_kv (drop_intrinsic e)) | None => None end.
Definition fok (m : option envmap) (o : envmap) : bool := match m with Some e => env_eqb e o | None => false end.
"""



# ================================================================== tools across the sandbox boundary (part E)
def irdump_main(projdir, mode):
    """sub-process: parse the project with the real RecipeSet (sandbox mode as `bob dev` would) and print, for
    every step, the inputs and results of StepIR.getExecPath/getPaths/getLibraryPaths"""
    os.chdir(projdir)
    from bob.input import RecipeSet
    from bob.utils import SandboxMode, asHexStr
    from bob.cmds.build.build import ExecutableStep, LazyIR
    recipes = RecipeSet()
    recipes.parse({})
    sm = SandboxMode(mode)
    packages = recipes.generatePackages(lambda st, m: os.path.join("dump", st.getPackage().getName(), st.getLabel()),
                                        sm.sandboxEnabled, sm.stablePaths)

    def info(ir):
        return {"valid": ir.isValid(), "stable": ir.stablePaths(), "sandboxed": ir.getSandbox() is not None,
                "vid": asHexStr(ir.getVariantId()), "storage": ir.getStoragePath() if ir.isValid() else "", "name": ir.getPackage().getName()}
    out = []

    def walk(pkg, path):
        for st in (pkg.getCheckoutStep(), pkg.getBuildStep(), pkg.getPackageStep()):
            if not st.isValid():
                continue
            ir = ExecutableStep.fromStep(st, LazyIR)
            rec = {"where": "/".join(path) + ":" + st.getLabel(), "self": info(ir), "self_exec": ir.getExecPath(),
                   "tools": {n: {"step": info(t.getStep()), "path": t.getPath(), "libs": list(t.getLibs())} for n, t in ir.getTools().items()},
                   "paths": ir.getPaths(), "libs": ir.getLibraryPaths(),
                   "deps": [[info(d_), d_.getExecPath(ir)] for d_ in ir.getAllDepSteps()]}
            out.append(rec)
        for d_ in pkg.getAllDepSteps():
            p_ = d_.getPackage()
            walk(p_, path + [p_.getName()])
    for d_ in packages.getRootPackage().getDirectDepSteps():
        p_ = d_.getPackage()
        walk(p_, [p_.getName()])
    print(json.dumps(out))


TOOLCHECK = r"""
: > marker-%(pkg)s-%(lab)s
shopt -s nullglob
{
  printf 'PATH\0%%s\0' "$PATH"
  printf 'LD\0%%s\0' "$LD_LIBRARY_PATH"
  IFS=: read -r -a ents <<< "$LD_LIBRARY_PATH"
  for e in "${ents[@]}" ; do m=("$e"/libmarker-*) ; if [[ -d $e ]] ; then printf 'LDENT\0%%s\0dir\0%%s\0' "$e" "${m[*]##*/}" ; else printf 'LDENT\0%%s\0missing\0\0' "$e" ; fi ; done
  for t in "${!BOB_TOOL_PATHS[@]}" ; do p="${BOB_TOOL_PATHS[$t]}" ; m=("$p"/toolmarker-*)
     if [[ -d $p ]] ; then printf 'TOOL\0%%s\0%%s\0dir\0%%s\0' "$t" "$p" "${m[*]##*/}" ; else printf 'TOOL\0%%s\0%%s\0missing\0\0' "$t" "$p" ; fi ; done
} > toolcheck.bin
shopt -u nullglob
"""


def gen_boundary_project(rng):
    """tools with libs on both sides of the sandbox boundary:
       inner : tool dependency named BEFORE the sandbox dependency (tool on the host, consumer in the image)
       outer : tool built inside the image, consumer on the host
       boxed : sandbox first, tool second (both inside); plain : no sandbox at all"""
    def libs():
        pool = ["lib", "lib/extra", "l ib", "usr/lib64", "."]
        return rng.sample(pool, rng.randint(1, 3))
    tools = {}
    recipes = {"sb": {"buildScript": "true", "packageScript": ": > marker-sb-dist\n",
                      "provideSandbox": {"paths": ["/usr/local/bin", "/usr/bin", "/bin"], "mount": SB_MOUNTS}}}
    for tn, boxed in (("tl", False), ("boxedtool", True), ("tl2", False)):
        tl = libs()
        tpath = rng.choice(["bin", ".", "b in"])
        tools[tn] = {"libs": tl, "path": tpath}
        mk = "".join("mkdir -p '%s' ; : > '%s/libmarker-%s-%d'\n" % (l_, l_, tn, i) for i, l_ in enumerate(tl))
        mk += "mkdir -p '%s' ; : > '%s/toolmarker-%s'\n" % (tpath, tpath, tn)
        r = {"buildScript": "true", "packageScript": mk, "provideTools": {"tool_" + tn: {"path": tpath, "libs": tl}}}
        if boxed:
            r["depends"] = [{"name": "sb", "use": ["sandbox"]}]
        recipes[tn] = r
    shapes = {"inner": ([{"name": "tl", "use": ["tools"]}, {"name": "sb", "use": ["sandbox"]}], ["tool_tl"]),
              "outer": ([{"name": "boxedtool", "use": ["tools"]}], ["tool_boxedtool"]),
              "boxed": ([{"name": "sb", "use": ["sandbox"], "forward": True}, {"name": "tl", "use": ["tools"]}], ["tool_tl"]),
              "plain": ([{"name": "tl", "use": ["tools"]}], ["tool_tl"]),
              "both": ([{"name": "tl2", "use": ["tools"]}, {"name": "sb", "use": ["sandbox"], "forward": True},
                        {"name": "tl", "use": ["tools"]}], ["tool_tl", "tool_tl2"])}
    for nm, (deps, used) in shapes.items():
        kind = rng.choice(["buildTools", "packageTools"])
        r = {"root": True, "depends": deps, kind: used}
        r["buildScript"] = TOOLCHECK % {"pkg": nm, "lab": "build"}
        r["packageScript"] = TOOLCHECK % {"pkg": nm, "lab": "dist"}
        recipes[nm] = r
    desc = {"recipes": recipes, "classes": {}, "config": {"bobMinimumVersion": "0.25"}, "default": {}}
    return desc, {"tools": tools, "shapes": {k: v[1] for k, v in shapes.items()}}


def coq_irstep(i):
    return ("{| ir_valid := %s; ir_stable := %s; ir_sandboxed := %s; ir_vid := %s; ir_storage := %s; ir_name := %s |}" %
            (L.B(i["valid"]), "None" if i["stable"] is None else "(Some %s)" % L.B(i["stable"]), L.B(i["sandboxed"]), L.s(i["vid"]),
             L.s(i["storage"]), L.s(i["name"])))


PRE_E = """
Definition emodel (i : irstep * list (str * irtool) * list irstep) :=
  let '(self, tools, deps) := i in
  (tool_paths self tools, library_paths self tools, map (fun d => exec_path d (Some self)) deps, exec_path self None).
Definition eok (m o : list str * list str * list str * str) : bool :=
  let '(a, b, c, d) := m in let '(a', b', c', d') := o in
  eqb_list eqb_str a a' && eqb_list eqb_str b b' && eqb_list eqb_str c c' && eqb_str d d'.
"""
SIG_TOOLDIR = "tool-directory-not-reachable"


def part_e(ctx, tmp):
    rng = ctx.rng
    t0 = _time.time()
    modes = [("--sandbox", "yes")] * ctx.n(1, 6) + ([("--dev-sandbox", "dev"), ("--strict-sandbox", "strict"), ("--slim-sandbox", "slim"), (None, "no")]
                                                   if ctx.tier == "thorough" else [])
    prepared = []
    for i, (flag, mode) in enumerate(modes):
        desc, info = gen_boundary_project(rng)
        pd = os.path.join(tmp, "tb%d x'y" % i)
        os.makedirs(pd)
        proj.write_project(desc, pd)
        prepared.append((i, flag, mode, desc, info, pd))

    def build(a):
        i, flag, mode, desc, info, pd = a
        host = proj.bob_env()
        rc, out = run_bob_stdin(pd, ["dev", "inner", "outer", "boxed", "plain", "both", "-j", "1", "--no-audit", "--no-logfiles"] + ([flag] if flag else []),
                                host, subprocess.DEVNULL)
        r = subprocess.run(["/venv/bin/python", os.path.abspath(__file__), "irdump", pd, mode], env=host, stdout=subprocess.PIPE,
                           stderr=subprocess.PIPE, stdin=subprocess.DEVNULL, text=True, timeout=900)
        return rc, out, (json.loads(r.stdout) if r.returncode == 0 else {"error": r.stderr[-1500:]})
    with ThreadPoolExecutor(max_workers=NPAR) as ex:
        results = list(ex.map(build, prepared))
    t0 = tick(ctx, "e:bob-dev", t0)
    cases, meta = [], []
    for (i, flag, mode, desc, info, pd), (rc, out, dump) in zip(prepared, results):
        replay = {"kind": "tool-boundary", "desc": desc, "mode": flag}
        ctx.count("tool-boundary:" + str(flag))
        if rc != 0:
            ctx.violation("build-of-valid-project-failed", "bob dev %s returned %d: %s" % (flag, rc, out[-600:]), replay)
            continue
        # ---- the real runs: every tool directory on PATH / LD_LIBRARY_PATH exists inside the step and is the right one
        for pk, used in info["shapes"].items():
            for lab in ("build", "dist"):
                spf = os.path.join(pd, "dev", lab, pk, "1", "step.spec")
                if not os.path.exists(spf):
                    continue
                spec = json.load(open(spf))
                f = os.path.join(pd, spec["workspace"][0], "toolcheck.bin")
                ctx.evaluated()
                where = "%s/%s (%s)" % (pk, lab, flag)
                if not os.path.exists(f):
                    ctx.violation("step-did-not-dump", where, replay)
                    continue
                rec = parse_nul(open(f, "rb").read().decode("utf-8", "surrogateescape"))
                ld = rec[rec.index("LD") + 1]
                pth = rec[rec.index("PATH") + 1]
                ldents = [(rec[j + 1], rec[j + 2], rec[j + 3]) for j in range(len(rec)) if rec[j] == "LDENT" and j + 3 < len(rec)]
                tls = [(rec[j + 1], rec[j + 2], rec[j + 3], rec[j + 4]) for j in range(len(rec)) if rec[j] == "TOOL" and j + 4 < len(rec)]
                has_tools = bool(spec["paths"])
                ctx.count("tool-step:" + ("sandboxed" if "sandbox" in spec else "host") + (":with-tools" if has_tools else ":no-tools"))
                if not has_tools:
                    continue
                exp_markers = []
                for tn in sorted(used):
                    t_ = tn[len("tool_"):]
                    exp_markers += ["libmarker-%s-%d" % (t_, k_) for k_ in range(len(info["tools"][t_]["libs"]))]
                got_markers = [m_.split(" ")[0] if m_ else "" for (_, st_, m_) in ldents]
                missing = [e_ for (e_, st_, _) in ldents if st_ != "dir"]
                if missing or got_markers != exp_markers:
                    ctx.violation(SIG_TOOLDIR + ":LD_LIBRARY_PATH" + (":consumer-in-image" if "sandbox" in spec else ":consumer-on-host"),
                                  "%s: LD_LIBRARY_PATH=%r; entries missing inside the step: %r; library markers found %r, expected %r"
                                  % (where, ld, missing, got_markers, exp_markers), replay)
                badt = [t_ for t_ in tls if t_[2] != "dir" or ("toolmarker-" + t_[0][5:]) not in t_[3].split(" ")]
                front = pth.split(":")[:len(spec["paths"])]
                if badt or any(not p_.startswith("/") for p_ in front):
                    ctx.violation(SIG_TOOLDIR + ":PATH", "%s: tool paths %r / PATH front %r" % (where, tls, front), replay)
                # equal to the prediction from the step.spec (model: tools_on_path, checked in part C style)
                ab = lambda p_: os.path.normpath(os.path.join(pd, p_))
                if ld != ":".join(ab(p_) for p_ in spec["libraryPaths"]) or front != [ab(p_) for p_ in spec["paths"]]:
                    ctx.violation("bob-variable-value:LD_LIBRARY_PATH", "%s: script saw LD_LIBRARY_PATH=%r PATH front %r, step.spec says %r / %r"
                                  % (where, ld, front, spec["libraryPaths"], spec["paths"]), replay)
                # every library directory lies inside a mounted dependency
                if "sandbox" in spec or spec["slimSandbox"]:
                    execs = [ab(e_) for _, e_ in spec["depMounts"]]
                    for e_ in ld.split(":"):
                        if e_ and not any(e_ == x or e_.startswith(x.rstrip("/") + "/") for x in execs):
                            ctx.violation(SIG_TOOLDIR + ":not-inside-mounted-dependency", "%s: %r is not below any of %r" % (where, e_, execs), replay)
                ctx.nontrivial(("tool-step", i, pk, lab, flag))
        # ---- model of getExecPath/getPaths/getLibraryPaths vs the implementation (all steps of the project)
        if "error" in dump:
            ctx.tie_broken("irdump-failed", dump["error"])
            continue
        for rec in dump:
            ctx.evaluated()
            tools = L.lst(["(%s, {| it_step := %s; it_path := %s; it_libs := %s |})" % (L.s(n_), coq_irstep(t_["step"]), L.s(t_["path"]), coq_strs(t_["libs"]))
                           for n_, t_ in rec["tools"].items()])
            deps = L.lst([coq_irstep(d_[0]) for d_ in rec["deps"]])
            cases.append(("(%s, (%s : list (str * irtool)), (%s : list irstep))" % (coq_irstep(rec["self"]), tools, deps),
                          "(%s, %s, %s, %s)" % (coq_strs(rec["paths"]), coq_strs(rec["libs"]), coq_strs([d_[1] for d_ in rec["deps"]]), L.s(rec["self_exec"]))))
            meta.append({"where": rec["where"], "mode": flag, "libs": rec["libs"], "paths": rec["paths"], "tools": rec["tools"], "self": rec["self"]})
            if rec["tools"] and any(t_["step"]["sandboxed"] != rec["self"]["sandboxed"] for t_ in rec["tools"].values()):
                ctx.count("ir-step:tool-across-sandbox-boundary")
                ctx.nontrivial(("ir", i, rec["where"]))
    t0 = tick(ctx, "e:oracle", t0)
    bad, log = coq.run_cases(ctx, REQ, "emodel", "eok", cases, preamble=PRE_E, tag="eir", shard=40)
    if bad is None:
        ctx.tie_broken("C13 exec-path model evaluation failed", log)
    else:
        ctx.validated(len(cases) - len(bad))
        if bad:
            vals, _ = coq.eval_terms(ctx, REQ, ["emodel %s" % cases[bad[0]][0]], preamble=PRE_E)
        for n_, j in enumerate(bad[:3]):
            ctx.tie_broken("exec-path/getPaths/getLibraryPaths-correspondence", dict(meta[j], model=(vals[0][:2000] if vals and n_ == 0 else "")))
    tick(ctx, "e:coq", t0)


def corpus_projects(ctx, tmp):
    """recipe-level corpus: projects that must be rejected when parsed"""
    for n_, f in enumerate(sorted(glob.glob(os.path.join(core.VERIF, "corpus", "C13", "project_*.json")))):
        c = json.load(open(f))
        pd = os.path.join(tmp, "corpus-p%d" % n_)
        os.makedirs(pd)
        proj.write_project(c["desc"], pd)
        rc, out = run_bob_stdin(pd, ["dev", "root", "--no-audit", "--no-logfiles"], proj.bob_env(), subprocess.DEVNULL)
        ctx.evaluated()
        ctx.count("corpus-project:" + ("rejected" if rc != 0 else "accepted"))
        ctx.nontrivial(("corpus-project", os.path.basename(f)))
        if c["expect"] == "parse-error" and (rc == 0 or os.path.isdir(os.path.join(pd, "dev"))):
            ctx.violation(c["signature"], "project %s was accepted and built: %s" % (os.path.basename(f), out[-300:]),
                          {"kind": "corpus-project", "desc": c["desc"]})


NAME_SAMPLES = ["A", "a1", "_", "_x9", "1A", "A-B", "A\n", "A B", "", "Ä", "A\n\n", "\nA", "A\r", "A=", "a.b", "LONG_NAME_1", "é", "A\x00",
                "A\t", " A", "A ", "A;B", "$A", "A\u2028"]


def name_validation(ctx):
    """model name_ok_impl vs input.py (KeyValDefineValidator.VAR_NAME as used for environment keys)"""
    from bob.input import KeyValDefineValidator
    v = KeyValDefineValidator("environment", conditional=False)
    cases = []
    for nm in NAME_SAMPLES:
        try:
            v.validate({nm: "x"})
            ok = True
        except Exception:
            ok = False
        ctx.evaluated()
        cases.append((L.s(nm), L.B(ok)))
        if ok and not re.fullmatch(r"[A-Za-z_][A-Za-z0-9_]*", nm):
            ctx.violation(SIG_NL if nm.endswith("\n") else "invalid-variable-name-accepted", "variable name %r is accepted" % nm,
                          {"kind": "name", "name": nm})
    bad, log = coq.run_cases(ctx, REQ, "name_ok_impl", "Bool.eqb", cases, tag="names")
    if bad is None:
        ctx.tie_broken("C13 name model evaluation failed", log)
    else:
        ctx.validated(len(cases) - len(bad))
        for i in bad[:3]:
            ctx.tie_broken("name-validation-correspondence", {"name": NAME_SAMPLES[i]})


def replay(ctx, tmp):
    d = json.load(open(ctx.replay))
    c = d.get("case", d)
    kind = c.get("kind")
    if kind == "quote":
        part_a(ctx, [c["s"]], tmp)
    elif kind == "spec":
        projdir = os.path.join(tmp, "pr oj'$x")
        os.makedirs(projdir, exist_ok=True)
        job = dict(c["job"], dir=projdir, id="replay")
        res = run_workers(tmp, [job], nworkers=1)
        cases, meta = [], []
        check_env_job(ctx, job, res.get("replay") or {"exception": "worker: " + str(res)}, cases, meta, lambda js: [None] * len(js))
        print("spec replay: env %r host %r -> %s" % (job["spec"]["env"], job["host"], "violation" if ctx.violations else "ok"))
    elif kind == "project":
        pd, host, rc, out = run_project(tmp, 0, c["desc"], c["info"], c["mode"], c["host"], c["cli"])
        print("bob dev %s %s -> rc %d\n%s" % (c["mode"], c["cli"], rc, out[-1500:]))
        print("(workspaces under %s are removed; re-run the full check for the oracle verdict)" % pd)
        if rc != 0:
            ctx.violation("build-of-valid-project-failed", "replayed", c)
    elif kind == "fingerprint-stdin-socket":
        probe_fingerprint_startup_files(ctx, tmp)
    elif kind == "reinstantiated-recipe":
        probe_reinstantiated_recipe(ctx, tmp, replay_case={k: c[k] for k in ("kind", "v1", "v2", "where", "order", "default")})
    elif kind == "corpus-project":
        corpus_projects(ctx, tmp)
    elif kind == "name":
        name_validation(ctx)
    elif kind == "tool-boundary":
        part_e(ctx, tmp)
    else:
        part_d(ctx, tmp)


def run(ctx):
    ctx.rule = ("(A) strings over a quote/dollar/backslash/newline/glob/control/non-ASCII heavy alphabet plus a hand-written hostile list; "
                "raw fuzz words for the bash model; (B) generated step.spec files (hostile values, names like IFS/HOME/PATH, tool and "
                "argument paths with blanks/quotes/dollars below a project directory named \"pr oj'$x\", hostile host environments incl. invalid "
                "names, whitelists with/without PATH, preserve on/off, trace) executed by the real Invoker; (C) generated recipe projects "
                "(declared/undeclared/weak over checkout/build/package, class inheritance, dependency environments, tools, -D/-e/-E, "
                "whitelist/whitelistRemove, fingerprint scripts) built with `bob dev`, also under --sandbox/--slim-sandbox/--dev-sandbox/"
                "--strict-sandbox; (D) sandboxed step.specs of all four kinds with probes.  A case is non-trivial when a value/path "
                "contains a shell-active or non-ASCII character or the step is sandboxed; distinct by full input.")
    ctx.assumptions += [
        "bash itself is modelled only for the word fragment Bob emits (bash_word; validated against the real bash on every run); "
        "bash start-up (default PATH, PWD/SHLVL/_/OLDPWD set by the shell) enters as the dpath parameter / is filtered from the comparison",
        "shlex.quote is restated (quote) and tied by correspondence; the running Python's os.path.normpath is modelled (abspath) and tied by "
        "the path literals of every case",
        "namespace-sandbox.c: only the option semantics -M/-m/-w are modelled (helper_mounts); kernel enforcement of read-only bind mounts "
        "and the rest of the helper are exercised (mountinfo, write attempts), not proved",
        "YAML parsing, class linearisation and the computation of the full package environment (input.py before prune) are exercised through "
        "the real RecipeSet and compared with an independent oracle, not modelled; jobserver MAKEFLAGS injection is not modelled (runs use -j1)",
        "NUL characters and lone surrogates cannot occur in a POSIX environment / UTF-8 script and are excluded (hypothesis no_nul)",
        "a declared variable named `_` is overwritten by bash itself; not generated",
    ]
    ctx.trusted_base += ["real /bin/bash as the reference for bash_word", "Linux mount namespaces (sandbox runs)"]
    parts = os.environ.get("C13_PARTS", "abcde")       # development aid: run only some layers
    tmp = core.scratch_dir("c13")
    try:
        if ctx.replay:
            return replay(ctx, tmp)
        if "a" in parts:
            strings = HOSTILE_VALUES + [gen_value(ctx.rng) for _ in range(ctx.n(800, 15000))]
            part_a(ctx, strings, tmp)
        if "b" in parts:
            part_b(ctx, tmp)
        if "a" in parts or "c" in parts:
            name_validation(ctx)
        if "c" in parts:
            corpus_projects(ctx, tmp)
            probe_fingerprint_startup_files(ctx, tmp)
            for _ in range(ctx.n(3, 12)):
                probe_reinstantiated_recipe(ctx, tmp)
            part_c(ctx, tmp)
        if "d" in parts:
            part_d(ctx, tmp)
        if "e" in parts:
            part_e(ctx, tmp)
        ctx.note("phase seconds: %r" % _T)
    finally:
        if os.environ.get("C13_KEEP"):           # development aid: look at the generated scripts
            print("kept", tmp)
        else:
            shutil.rmtree(tmp, ignore_errors=True)


if __name__ == "__main__":
    if len(sys.argv) == 4 and sys.argv[1] == "worker":
        worker_main(sys.argv[2], sys.argv[3])
    elif len(sys.argv) == 4 and sys.argv[1] == "irdump":
        irdump_main(sys.argv[2], sys.argv[3])
