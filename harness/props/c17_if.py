"""C17 (extension) — concrete syntax of if-expressions: Coq model `parse_if`
(coq/C17/IfGrammar.v) vs. the real pyparsing grammar of
bob.stringparser.IfExpressionParser, on the same strings.

  run_ifgrammar(ctx)  is called from props/c17.py:run()

Comparisons:
  (1) correspondence: `parse_if text` (vm_compute) = canonical dump of the object
      tree the real parser returns (or None when it raises ParseError), on hand
      written nasty strings, rendered ASTs (random white space / parentheses),
      token soups and mutated renderings
      -> ctx.tie_broken("C17-ifgrammar", ...) with a minimised string;
      and the texts of Coq's own `render_if` (theorem parse_if_render) must be
      parsed by the real parser to the rendered AST
      -> ctx.tie_broken("C17-ifgrammar-render", ...);
  (2) direct oracle, independent of the model: an AST rendered with the minimal
      parentheses of the documented precedence table (bobpaths(7)) must come
      back from the real parser as exactly that AST
      -> ctx.violation("if-precedence-differs-from-documented", ...);
  (3) direct oracle: "Any character in between [single quotes] is taken
      verbatim" (bobpaths(7), String literals)
      -> ctx.violation("if-single-quote-not-verbatim", ...).
"""
from vlib import coq, coqlit as L

PROPERTY_FILES_EXTRA = ["C17/PropertiesIf.v"]

# Oracle (3): found F38 (pyparsing converted \\t, \\0, \\x42 ... inside single quotes; fixed in /repo by
# QuotedString("'", convert_whitespace_escapes=False)); stays on.
SQ_VERBATIM_ORACLE = True

CMP_OPS = ["<", "<=", ">", ">=", "==", "!="]
BIN_OPS = CMP_OPS + ["&&", "||"]
SPECIAL = '\\"\'$'
WS = [" ", " ", " ", "\t", "\n", "\r", "  ", " \t ", "\r\n"]
FUN_NAMES = ["eq", "ne", "not", "or", "and", "strip", "if-then-else", "is-sandbox-enabled", "match", "f", "Z9-", "a-b-c",
             "x1"]
LIT_ALPHABET = list("abcXY_019 ") + list("\\\\\\\"'$(),!<>=&|") + ["\t", "\n", "\r", "\x0b", "\x0c", "\x00", "é", "€",
                                                                   "\U0001F600", "\u2028", "\x85", "t", "n", "r", "f",
                                                                   "x", "u", "2", "3", "4", "7", "A", "F"]


# ------------------------------------------------------------------ implementation side
class Skip(Exception):
    """resource limit of the implementation (pyparsing recursion), not a language question"""


def dump_obj(o):
    """canonical dump of the object tree returned by the real parser"""
    from bob import stringparser as sp
    if isinstance(o, sp.StringLiteral):
        return ("lit", o.literal, bool(o.subst))
    if isinstance(o, sp.FunctionCall):
        return ("fn", o.name, [dump_obj(a) for a in o.args])
    if isinstance(o, sp.NotOperator):
        return ("not", dump_obj(o.op))
    if isinstance(o, sp.BinaryBoolOperator):
        return ("bin", o.op, dump_obj(o.left), dump_obj(o.right))
    if isinstance(o, sp.BinaryStrOperator):
        return ("bin", o.op, dump_obj(o.left), dump_obj(o.right))
    raise AssertionError("unknown node %r" % type(o))


_impl_cache = {}


def impl_parse(text):
    """("ok", dump) | ("error",) | ("internal", exception name); raises Skip at the recursion limit"""
    r = _impl_cache.get(text)
    if r is None:
        r = _impl_parse(text)
        if len(_impl_cache) < 200000:
            _impl_cache[text] = r
    if r == "skip":
        raise Skip()
    return r


def _impl_parse(text):
    from bob.errors import ParseError
    from bob import stringparser as sp
    try:
        return ("ok", dump_obj(sp.IfExpressionParser.getInstance().parseExpression(text)))
    except ParseError:
        return ("error",)
    except RecursionError:
        return "skip"
    except Exception as ex:       # noqa
        return ("internal", type(ex).__name__)


# ------------------------------------------------------------------ ASTs
# ("lit", s, dq) | ("fn", name, [sexpr])          string typed
# ("not", e) | ("bin", op, l, r)                   boolean typed
def is_str(e):
    return e[0] in ("lit", "fn")


def typed_ok(e):
    """comparison operands are strings or function calls (BinaryStrOperator.__init__)"""
    if is_str(e):
        return True
    if e[0] == "not":
        return typed_ok(e[1])
    if e[1] in CMP_OPS:
        return is_str(e[2]) and is_str(e[3])
    return typed_ok(e[2]) and typed_ok(e[3])


def gen_lit_text(rng):
    n = rng.choice([0, 1, 1, 2, 3, 4, rng.randint(0, 8)])
    return "".join(rng.choice(LIT_ALPHABET) for _ in range(n))


def gen_sexpr(rng, depth):
    if depth <= 0 or rng.random() < 0.7:
        return ("lit", gen_lit_text(rng), rng.random() < 0.5)
    return ("fn", rng.choice(FUN_NAMES), [gen_sexpr(rng, depth - 1) for _ in range(rng.choice([0, 1, 1, 2, 2, 3]))])


def gen_ast(rng, depth, typed=True):
    r = rng.random()
    if depth <= 0 or r < 0.22:
        return gen_sexpr(rng, 2)
    if r < 0.36:
        return ("not", gen_ast(rng, depth - 1, typed))
    if r < 0.52:
        return ("bin", "&&", gen_ast(rng, depth - 1, typed), gen_ast(rng, depth - 1, typed))
    if r < 0.68:
        return ("bin", "||", gen_ast(rng, depth - 1, typed), gen_ast(rng, depth - 1, typed))
    op = rng.choice(CMP_OPS)
    if typed:
        return ("bin", op, gen_sexpr(rng, 2), gen_sexpr(rng, 2))
    return ("bin", op, gen_ast(rng, depth - 1, typed), gen_ast(rng, depth - 1, typed))


# what the real parser returns for a literal: subst = double quoted and a special character inside
def canon(e):
    if e[0] == "lit":
        return ("lit", e[1], bool(e[2] and any(c in e[1] for c in SPECIAL)))
    if e[0] == "fn":
        return ("fn", e[1], [canon(a) for a in e[2]])
    if e[0] == "not":
        return ("not", canon(e[1]))
    return ("bin", e[1], canon(e[2]), canon(e[3]))


def no_linebreaks(e):
    """the documentation names no way to write a line break inside a literal"""
    if e[0] == "lit":
        return ("lit", e[1].replace("\n", " ").replace("\r", " "), e[2])
    if e[0] == "fn":
        return ("fn", e[1], [no_linebreaks(a) for a in e[2]])
    if e[0] == "not":
        return ("not", no_linebreaks(e[1]))
    return ("bin", e[1], no_linebreaks(e[2]), no_linebreaks(e[3]))


# ------------------------------------------------------------------ rendering (documented syntax)
def sq_expressible(s):
    """single quotes: verbatim (backslashes included), no way to write a single quote (documented); the
    generator also keeps line breaks out (the implementation's QuotedString is single-line)"""
    return not any(c in s for c in "'\n\r")


def render_lit(e, rng):
    s, dq = e[1], e[2]
    if not dq and sq_expressible(s):
        return "'" + s + "'"
    out = []
    for ch in s:
        if ch in '\\"':
            out.append("\\" + ch)
        elif ch == "\n":
            out.append("\\n")       # a raw line break does not fit into the single-line QuotedString
        elif ch == "\r":
            out.append("\\r")
        else:
            out.append(ch)
    return '"' + "".join(out) + '"'


def doc_lit(e):
    """the literal the documentation promises for render_lit's text: identical content; a literal that does
    not fit into single quotes is rendered (and hence parsed) double quoted"""
    if not e[2] and not sq_expressible(e[1]):
        return ("lit", e[1], True)
    return e


def ws(rng, p=0.3):
    if rng is None or rng.random() >= p:
        return ""
    return rng.choice(WS)


def render_sexpr(e, rng):
    if e[0] == "lit":
        return render_lit(e, rng)
    sep = ws(rng) + "," + ws(rng)
    return e[1] + ws(rng, 0.15) + "(" + ws(rng) + sep.join(render_sexpr(a, rng) for a in e[2]) + ws(rng) + ")"


LEVEL = {"||": 1, "&&": 2, "!=": 3, "==": 4, ">=": 5, ">": 6, "<=": 7, "<": 8}   # documented table, loosest = 1
LV_NOT, LV_ATOM = 9, 10


def level(e):
    if is_str(e):
        return LV_ATOM
    if e[0] == "not":
        return LV_NOT
    return LEVEL[e[1]]


def render_min(e, rng=None, extra=0.0):
    """minimal parentheses per the documented table: `!` > `<` > `<=` > `>` > `>=` > `==` > `!=` > `&&` > `||`,
    binary operators left associative, `!` right associative (prefix). With rng: random white space and
    (probability `extra`) redundant parentheses."""
    def par(child, need):
        t = render_min(child, rng, extra)
        if need or (rng is not None and rng.random() < extra):
            return ws(rng) + "(" + t + ws(rng) + ")"
        return t
    if is_str(e):
        return ws(rng) + render_sexpr(e, rng)
    if e[0] == "not":
        return ws(rng) + "!" + par(e[1], level(e[1]) < LV_NOT)
    op = e[1]
    sp = " " if rng is None else ws(rng, 0.6)
    sp2 = " " if rng is None else ws(rng, 0.6)
    return par(e[2], level(e[2]) < LEVEL[op]) + sp + op + sp2 + par(e[3], level(e[3]) <= LEVEL[op])


def render_full(e, rng=None):
    if is_str(e):
        return render_sexpr(e, rng)
    if e[0] == "not":
        return "!" + ws(rng) + "(" + render_full(e[1], rng) + ")"
    return "(" + render_full(e[2], rng) + ")" + ws(rng, 0.6) + e[1] + ws(rng, 0.6) + "(" + render_full(e[3], rng) + ")"


def doc_ast(e):
    if e[0] == "lit":
        return doc_lit(e)
    if e[0] == "fn":
        return ("fn", e[1], [doc_ast(a) for a in e[2]])
    if e[0] == "not":
        return ("not", doc_ast(e[1]))
    return ("bin", e[1], doc_ast(e[2]), doc_ast(e[3]))


# ------------------------------------------------------------------ token soups and mutations
def raw_quoted(rng):
    """quoted strings as a user might type them: escapes in both kinds, sometimes broken"""
    q = rng.choice("'\"")
    body = []
    for _ in range(rng.choice([0, 1, 2, 3, 5])):
        r = rng.random()
        if r < 0.35:
            body.append("\\" + rng.choice(['"', "'", "\\", "t", "n", "r", "f", "0", "03", "73", "7", "x42", "x4", "xg2", "xA2",
                                           "u04", "uF4", "u0041", "101", "q", "$", " ", "\t", "\n", "\r", "é"]))
        else:
            body.append(rng.choice(LIT_ALPHABET))
    end = q if rng.random() < 0.9 else rng.choice(["", "'", '"'])
    return q + "".join(body) + end


SOUP = ['"a"', "'b'", '"$X"', "''", '""', "&&", "||", "!", "==", "!=", "<", "<=", ">", ">=", "(", ")", ",", "eq(", "not(",
        'f("1")', "f()", "g('x','y')", "is-sandbox-enabled()", "a-b", "x", "9", "-", "=", "&", "|", "!!", "<==", "=>", "!==",
        " ", "\t", "\n", "\r", "\x0b", "\x0c", "\xa0", "\x00", "é", "€", "#", "\\", "$"]


def gen_soup(rng):
    n = rng.choice([0, 1, 2, 3, 3, 4, 5, 6, 8])
    toks = [(raw_quoted(rng) if rng.random() < 0.3 else rng.choice(SOUP)) for _ in range(n)]
    sep = rng.choice(["", " ", " ", None])
    if sep is None:
        return "".join(t + rng.choice(["", " ", "\t", "\n"]) for t in toks)
    return sep.join(toks)


def mutate(text, rng):
    if not text:
        return rng.choice(["(", ")", "!", "'", '"', " ", "a"])
    k = rng.random()
    i = rng.randrange(len(text))
    ins = ["(", ")", "!", "=", "<", ">", "&", "|", "'", '"', "\\", " ", "\t", "\n", ",", "a", "-", "é", "0", "x"]
    if k < 0.35:
        return text[:i] + text[i + 1:]
    if k < 0.7:
        return text[:i] + rng.choice(ins) + text[i:]
    if k < 0.85:
        return text[:i] + rng.choice(ins) + text[i + 1:]
    if k < 0.93:
        return text + rng.choice([")", " x", "'", '"', " &&", " ==", " !", "\x00", "(", " 'a'", "\n", " \t "])
    j = rng.randrange(len(text))
    a, b = min(i, j), max(i, j)
    return text[:a] + text[b:]


HAND = [
    "", " ", "\t\n\r ", "''", '""', "'a'", '"a"', " 'a' ", "'a' 'b'", "'a' x", "('a'", "'a')", "()", "(('a'))", "( 'a' )",
    "!'a'", "!!'a'", "! ! 'a'", "!", "!=", "!='a'", "'a'!='b'", "'a' ! = 'b'", "'a'!!='b'", "'a' != !'b'", "!'a' == 'b'",
    "!('a' == 'b')", "'a'<'b'", "'a'<='b'", "'a' < = 'b'", "'a'<=='b'", "'a' =< 'b'", "'a'>'b'", "'a'>='b'", "'a'=>'b'",
    "'a'=='b'", "'a'='b'", "'a'==='b'", "'a' < 'b' < 'c'", "'a' == 'b' == 'c'", "'a' < 'b' == 'c'", "'a' == 'b' < 'c'",
    "('a' < 'b') == 'c'", "('a') == ('b')", "(('a')) < ((f()))", "'a' == ('b' == 'c')", "'a' && 'b' || 'c'",
    "'a' || 'b' && 'c'", "('a' || 'b') && 'c'", "'a' && 'b' && 'c'", "'a' || 'b' || 'c'", "'a' || ('b' || 'c')",
    "'a'&&'b'", "'a'&'b'", "'a'&&&'b'", "'a'|||'b'", "'a' & & 'b'", "!'a' && !'b' || !'c'", "'a' == 'b' && 'c' != 'd'",
    "'a' && 'b' == 'c'", "'a' || 'b' < 'c' && 'd'", "'a' < 'b' && 'c' <= 'd' || 'e' > 'f' && 'g' >= 'h'",
    "f()", "f ( )", "f", "f(", "f)", "f(,)", "f('a',)", "f(,'a')", "f('a' 'b')", "f('a','b')", "f( 'a' , \"b\" )",
    "f(g())", "f(g(h('x')))", "f(!'a')", "f(('a'))", "f('a' == 'b')", "9f()", "f9()", "f-()", "-f()", "f_g()", "f-g-9()",
    "é()", "f\n(\n)", "f()()", "f() g()", "F()", "if-then-else('a','b','c')", "f(\t'a'\t,\t'b'\t)",
    "'C:\\temp'", "'\\u0041'", "'\\101'", "'\\\\n' == \"\\\\\\\\n\"", "'a\\' == 'b'", "'\\t' == '\t'",
    "'a\\tb'", "'a\\nb'", "'\\0'", "'\\03'", "'\\73'", "'\\x42'", "'\\x41'", "'\\xg2'", "'\\u04'", "'\\uF4'", "'\\''", "'\\'",
    "'\\\\t'", "'\\\\'", '"\\""', '"\\\\"', '"\\t"', '"\\n"', '"\\f"', '"\\r"', '"\\0"', '"\\03"', '"\\73"', '"\\x42"',
    '"\\xA2"', '"\\xa2"', '"\\u04"', '"\\q"', '"\\$"', '"\\\\t"', '"\\\\\\t"', '"\\', '"\\"', '"a\\\nb"', '"a\\\rb"',
    "'a\nb'", "'a\rb'", '"a\nb"', '"a\rb"', "'a\tb'", '"a\tb"', "'a\x0bb'", "'a\u2028b'", "'a\x85b'", "'é€\U0001F600'",
    "'a'\x0b", "\x0c'a'", "'a'\xa0", "\u2028'a'", "'a' #", "'a'\x00", "\x00", "'", '"', "'a", '"a', "a'", "'a''b'", "'a'\"b\"",
    "\"a\"'b'", "'a' == \"a\"", "\"$X\" == '$X'", "\"a'b\"", "'a\"b'", "((((((((('a')))))))))", "!(!(!('a')))",
    "'a' &&", "&& 'a'", "'a' ||", "|| 'a'", "'a' ==", "== 'a'", "'a' <", "< 'a'", "('a' &&) 'b'", "'a' (&&) 'b'",
    "'a' && ('b' ||) 'c'", "'a' < (!'b' == 'c'", "'a' && (!'b' < 'c' ]", "( !'a' < 'b' ) x", "foo ( !'a' < 'b' )",
]


# ------------------------------------------------------------------ Coq literals
OPC = {"<": "OLt", ">": "OGt", "<=": "OLe", ">=": "OGe", "==": "OEq", "!=": "ONe"}


def coq_sexpr(e):
    if e[0] == "lit":
        return "(SLit %s %s)" % (L.s(e[1]), L.B(e[2]))
    return "(SFn %s %s)" % (L.s(e[1]), L.lst([coq_sexpr(a) for a in e[2]]) if e[2] else "(@nil sexpr)")


def coq_ifexpr(e):
    """dump of the implementation (well typed by construction of the real classes) as a term of Model.ifexpr"""
    if is_str(e):
        return "(IStr %s)" % coq_sexpr(e)
    if e[0] == "not":
        return "(INot %s)" % coq_ifexpr(e[1])
    if e[1] == "&&":
        return "(IAnd %s %s)" % (coq_ifexpr(e[2]), coq_ifexpr(e[3]))
    if e[1] == "||":
        return "(IOr %s %s)" % (coq_ifexpr(e[2]), coq_ifexpr(e[3]))
    assert is_str(e[2]) and is_str(e[3]), e
    return "(ICmp %s %s %s)" % (OPC[e[1]], coq_sexpr(e[2]), coq_sexpr(e[3]))


def coq_expected(r):
    return "(Some %s)" % coq_ifexpr(r[1]) if r[0] == "ok" else "(@None ifexpr)"


REQ = ["BobV.C17.Model", "BobV.C17.IfGrammar"]
# parse_if_canon = parse_if followed by the normalisation StringLiteral.__init__ applies to the flag
# (subst = double quoted and a special character in the literal); eqb_opt_if: decidable equality on option ifexpr
FN = "parse_if_canon"
EQB = "eqb_opt_if"


def coq_mismatches(ctx, texts, results, tag):
    cases = [(L.s(t), coq_expected(r)) for t, r in zip(texts, results)]
    return coq.run_cases(ctx, REQ, FN, EQB, cases, shard=300, tag=tag)


def minimise(ctx, text, rounds=6):
    """greedy deletion of characters / chunks while model and implementation still disagree
    (each round = one coqc call over all candidates)"""
    for _ in range(rounds):
        cands = []
        n = len(text)
        for size in (max(1, n // 2), max(1, n // 4), 1):
            for i in range(0, n, size):
                c = text[:i] + text[i + size:]
                if c != text and c not in cands:
                    cands.append(c)
        cands = cands[:120]
        res = []
        keep = []
        for c in cands:
            try:
                r = impl_parse(c)
            except Skip:
                continue
            if r[0] == "internal":
                continue
            keep.append(c); res.append(r)
        if not keep:
            break
        bad, _log = coq_mismatches(ctx, keep, res, "ifgmin")
        if not bad:
            break
        text = min((keep[i] for i in bad), key=len)
    return text


def shrink_ast(e, fails):
    """structural shrinking of an AST for the direct oracle"""
    changed = True
    while changed:
        changed = False
        subs = []
        if e[0] == "not":
            subs = [e[1]]
        elif e[0] == "bin":
            subs = [e[2], e[3]]
        elif e[0] == "fn":
            subs = list(e[2]) + [("fn", e[1], e[2][:i] + e[2][i + 1:]) for i in range(len(e[2]))]
        elif e[0] == "lit" and e[1]:
            subs = [("lit", e[1][:i] + e[1][i + 1:], e[2]) for i in range(len(e[1]))]
        for s in subs:
            if fails(s):
                e = s
                changed = True
                break
        if changed:
            continue
        # shrink inside children
        if e[0] == "not":
            c = shrink_ast(e[1], lambda x: fails(("not", x)))
            if c != e[1]:
                e = ("not", c); changed = True
        elif e[0] == "bin":
            l = shrink_ast(e[2], lambda x: fails(("bin", e[1], x, e[3])))
            r = shrink_ast(e[3], lambda x: fails(("bin", e[1], l, x)))
            if (l, r) != (e[2], e[3]):
                e = ("bin", e[1], l, r); changed = True
    return e


def show(e):
    return render_min(e, None)


def shape(r):
    """result with the contents of the literals blanked"""
    def go(d):
        if d[0] == "lit":
            return ("lit",)
        if d[0] == "fn":
            return ("fn", d[1], [go(a) for a in d[2]])
        if d[0] == "not":
            return ("not", go(d[1]))
        return ("bin", d[1], go(d[2]), go(d[3]))
    return (r[0], go(r[1])) if r[0] == "ok" else r


# ------------------------------------------------------------------ twin of Coq's render_if (IfGrammar.v)
CLVL = {"<": 2, "<=": 3, ">": 4, ">=": 5, "==": 6, "!=": 7, "&&": 8, "||": 9}


def coq_render_sx(e):
    if e[0] == "lit":
        if e[2]:
            return '"' + "".join({"\\": "\\\\", '"': '\\"', "\n": "\\n", "\r": "\\r"}.get(c, c) for c in e[1]) + '"'
        return "'" + e[1] + "'"
    return e[1] + "(" + ", ".join(coq_render_sx(a) for a in e[2]) + ")"


def coq_render_at(k, e):
    if is_str(e):
        lv, body = 0, coq_render_sx(e)
    elif e[0] == "not":
        lv, body = 1, "!" + coq_render_at(1, e[1])
    else:
        lv = CLVL[e[1]]
        body = coq_render_at(lv, e[2]) + " " + e[1] + " " + coq_render_at(lv - 1, e[3])
    return body if lv <= k else "(" + body + ")"


# ------------------------------------------------------------------ main
def run_ifgrammar(ctx):
    rng = ctx.rng
    ctx.assumptions += [
        "if-expression concrete syntax: parse_if (C17/IfGrammar.v) is a hand-written PEG model of the pyparsing grammar "
        "instantiated in IfExpressionParser (pyparsing itself is not verified); tied to the installed pyparsing by the "
        "correspondence on rendered ASTs, token soups and mutated strings",
        "parse actions raising ParseError (BinaryStrOperator on non-string operands) are modelled as a type check after "
        "the syntactic parse; both surface as ParseError",
    ]
    n_total = ctx.n(900, 15000)
    texts, kinds = [], []

    def add(text, kind):
        texts.append(text); kinds.append(kind)

    for t in HAND:
        add(t, "hand")
    n_rend = int(n_total * 0.35)
    n_soup = int(n_total * 0.35)
    oracle_cases = 0
    n_prec_reported = 0
    # ---- (i) rendered ASTs; direct oracle on the minimal-parentheses rendering
    for i in range(n_rend):
        typed = rng.random() < 0.85
        mode = rng.random()
        # (pyparsing needs time exponential in the nesting depth of parentheses: deep trees only with few of them)
        if mode < 0.55:
            e = no_linebreaks(gen_ast(rng, rng.choice([1, 2, 2, 3, 3, 4]), typed))
            text = render_min(e, rng, 0.0); kind = "rendered:minimal-parens+ws"
        elif mode < 0.85:
            e = no_linebreaks(gen_ast(rng, rng.choice([1, 2, 2, 3]), typed))
            text = render_min(e, rng, 0.15); kind = "rendered:redundant-parens+ws"
        else:
            e = no_linebreaks(gen_ast(rng, rng.choice([1, 1, 2, 2]), typed))
            text = render_full(e, rng); kind = "rendered:full-parens+ws"
        add(text, kind + ("" if typed_ok(e) else ":ill-typed-comparison"))
        # the direct oracle (independent of the Coq model)
        try:
            r = impl_parse(text)
        except Skip:
            continue
        want = ("ok", canon(doc_ast(e))) if typed_ok(e) else ("error",)
        oracle_cases += 1
        if r != want and r[0] != "internal" and n_prec_reported < 3:
            n_prec_reported += 1
            def fails(x):
                try:
                    return impl_parse(show(x)) != (("ok", canon(doc_ast(x))) if typed_ok(x) else ("error",))
                except Skip:
                    return False
            small = shrink_ast(e, fails) if fails(e) else e
            t2 = show(small) if fails(e) else text
            got = impl_parse(t2)
            w2 = ("ok", canon(doc_ast(small))) if typed_ok(small) else ("error",)
            sig = ("if-precedence-differs-from-documented" if shape(got) != shape(w2)
                   else "if-literal-differs-from-documented")
            ctx.violation(sig, "parseExpression(%r) = %r; documented syntax (bobpaths(7): precedence table, string "
                          "literals) gives %r" % (t2, got, w2),
                          {"ifexpr_text": t2, "original": text, "impl_ast": got, "documented_ast": w2})
    ctx.count("ifgrammar:oracle-documented-precedence", oracle_cases)
    # ---- (ii) token soups and mutated renderings
    for i in range(n_soup):
        add(gen_soup(rng), "soup")
    while len(texts) < n_total + len(HAND):
        e = gen_ast(rng, rng.choice([1, 2, 3]), rng.random() < 0.8)
        t = render_min(e, rng, 0.1)
        for _ in range(rng.choice([1, 1, 2, 3])):
            t = mutate(t, rng)
        add(t, "mutated")

    # ---- implementation
    keep_t, keep_r, keep_k = [], [], []
    sq_viol = None
    for t, k in zip(texts, kinds):
        try:
            r = impl_parse(t)
        except Skip:
            ctx.count("ifgrammar:skipped-recursion-limit")
            continue
        ctx.evaluated()
        ctx.count("ifgrammar:%s:%s" % (k.split(":")[0], r[0]))
        if ":" in k:
            ctx.count("ifgrammar:" + k)
        for feat, present in (("tab/newline", any(c in t for c in "\t\n\r")), ("backslash", "\\" in t),
                              ("non-ascii", any(ord(c) > 127 for c in t)), ("adjacent-ops", "!!" in t or "<==" in t)):
            if present:
                ctx.count("ifgrammar:feature:" + feat)
        if r[0] == "internal":
            ctx.violation("if-internal-exception:" + r[1], "parseExpression(%r) raised %s" % (t, r[1]),
                          {"cx": {"env": {}, "nounset": False, "sandbox": False, "tools": {}}, "ifexpr": t})
            continue
        ctx.nontrivial(("ifg", t))
        keep_t.append(t); keep_r.append(r); keep_k.append(k)
        # ---- direct oracle (3): single quoted literals are verbatim
        if SQ_VERBATIM_ORACLE and r[0] == "ok" and "'" in t:
            ctx.count("ifgrammar:oracle-single-quote-verbatim")
            v = check_sq_verbatim(t, r[1])
            if v is not None and (sq_viol is None or len(t) < len(sq_viol[0])):
                sq_viol = (t,) + v
    if sq_viol is not None:
        t, w, have, expr = sq_viol
        ctx.violation("if-single-quote-not-verbatim",
                      "single quoted literal '%s' of %r is not taken verbatim: the parser's literals are %r (bobpaths(7), "
                      "String literals: 'Any character in between is taken verbatim'); %r is documented to be true"
                      % (w, t, have, expr),
                      {"cx": {"env": {}, "nounset": False, "sandbox": False, "tools": {}}, "ifexpr": expr, "expect": True,
                       "found_in": t, "literal": w})
    if len(ctx.cov["samples"]) < 6:
        for t, r in list(zip(keep_t, keep_r))[len(HAND):len(HAND) + 2]:
            ctx.sample({"ifgrammar": t, "impl": r})

    # ---- texts produced by Coq's render_if (theorem parse_if_render): the implementation must parse them to the AST
    rcases, rmeta = [], []
    for i in range(ctx.n(100, 1500)):
        e = doc_ast(no_linebreaks(gen_ast(rng, rng.choice([1, 2, 3, 3, 4]), True)))
        text = coq_render_at(9, e)
        try:
            r = impl_parse(text)
        except Skip:
            continue
        ctx.evaluated(); ctx.count("ifgrammar:coq-rendered:" + r[0])
        if r[0] == "internal":
            continue
        rcases.append((coq_ifexpr(e), "(%s, %s)" % (L.s(text), coq_expected(r))))
        rmeta.append({"text": text, "ast": e, "impl": r})
    pre = """
Definition rcase (e : ifexpr) : bool * str * option ifexpr * ifexpr := (wf_if e, render_if e, parse_if_canon (render_if e), canon_if e).
Definition rcase_ok (o : bool * str * option ifexpr * ifexpr) (x : str * option ifexpr) : bool :=
  let '(wf, t, r, c) := o in wf && str_eqb t (fst x) && eqb_opt_if r (snd x) && eqb_opt_if (snd x) (Some c).
"""
    bad, log = coq.run_cases(ctx, REQ, "rcase", "rcase_ok", rcases, shard=250, tag="ifgr", preamble=pre)
    if bad is None:
        ctx.tie_broken("C17-ifgrammar render evaluation failed", log)
    else:
        ctx.validated(len(rcases) - len(bad))
        for i in bad[:3]:
            ctx.tie_broken("C17-ifgrammar-render", rmeta[i])

    # ---- Coq model on the same strings
    bad, log = coq_mismatches(ctx, keep_t, keep_r, "ifg")
    if bad is None:
        ctx.tie_broken("C17-ifgrammar model evaluation failed", log)
        return
    ctx.validated(len(keep_t) - len(bad))
    ctx.count("ifgrammar:cases", len(keep_t))
    if bad:
        ctx.count("ifgrammar:model-mismatch", len(bad))
    for n_rep, i in enumerate(sorted(bad, key=lambda i: len(keep_t[i]))[:3]):
        small = minimise(ctx, keep_t[i]) if n_rep == 0 else keep_t[i]
        ctx.tie_broken("C17-ifgrammar", {"text": small, "original_text": keep_t[i], "kind": keep_k[i],
                                         "impl": impl_parse(small), "model": "differs (parse_if_canon)"})


def sq_literals_of(text):
    """the single quoted literals of an accepted expression, found by the documented lexical rules
    (outside of string literals a quote starts a literal; a double quoted one ends at the next unescaped
    double quote, a single quoted one at the next single quote)"""
    out = []
    i = 0
    while i < len(text):
        c = text[i]
        if c == '"':
            i += 1
            while i < len(text) and text[i] != '"':
                i += 2 if text[i] == "\\" else 1
            i += 1
        elif c == "'":
            j = text.find("'", i + 1)
            if j < 0:
                return out
            out.append(text[i + 1:j])
            i = j + 1
        else:
            i += 1
    return out


def all_lits(d, acc):
    if d[0] == "lit":
        acc.append(d)
    elif d[0] == "fn":
        for a in d[2]:
            all_lits(a, acc)
    elif d[0] == "not":
        all_lits(d[1], acc)
    else:
        all_lits(d[2], acc); all_lits(d[3], acc)
    return acc


def check_sq_verbatim(text, dump):
    """None, or (literal, the parser's literals, expression whose documented value is true)"""
    want = sq_literals_of(text)
    have = [l[1] for l in all_lits(dump, [])]
    for w in want:
        if w not in have:
            # evaluation difference on the smallest expression with this literal: the documented values of both
            # sides are equal.  Double quoted text with the same documented value: at the expression level
            # \\\\ -> \\ and \\" -> ", then string substitution removes one more level.
            dq = '"' + "".join({"\\": "\\" * 4, '"': "\\" * 3 + '"', "$": "\\" * 2 + "$"}.get(c, c) for c in w) + '"'
            return (w, have, "'" + w + "' == " + dq)
    return None
